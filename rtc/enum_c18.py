"""C18 bounded stand-in: numbers survive conversion between text and arrays.

Run-time contracts evaluated on the real bionumpy functions, oracle = Python `str`, `int`, `float`,
`str.join`, `str.split`:

  ints_to_strings(x)[i]              == str(x[i])                       (canonical decimal text)
  int_to_str(v)                      == str(v)                          (v >= 0, scalar helper)
  str_to_int(t)[i]                   == int(t[i])                       (sign, '+', leading zeros; ragged, 2-D digit
                                                                         matrix, *_with_missing paths; parsing twice)
  int_lists_to_strings(rows)[i]      == sep.join(str(v) for v in rows[i])  (+ keep_last, sep="")
  BED / BED6 / BED12 / bedGraph files: integer, Optional[int], List[int] and float columns read == int()/float() of
                                       the tokens; written text == "\t".join(str(..)); written float tokens denote
                                       the double exactly
  matrix_to_csv / parse_matrix       == join / split of str/int/float
  str_to_float(t)[i]                 within 4 ulp of float(t[i])        (1..17 significant digits, sign, every point
                                                                         position, exponent -300..300)
  str_to_float(float_to_strings(d))  == d  and  float(float_to_strings(d)[i]) == d[i]
  independence                       row i of a batch == the result for that row alone (bit-exact), for whole
                                       batches, every ordered pair, every permutation and every sub-batch of small
                                       base batches
  rejection                          a byte that is not part of a decimal number is not parsed as a digit
  selections (operation histories)   the formatters / parsers applied to a NON-contiguous selection of another array
                                       (rows of a RaggedArray / EncodedRaggedArray / table permuted, reversed, strided,
                                       masked, tail- or inner-sliced, repeated, column-sliced, two selections chained;
                                       strided / 2-D-column / broadcast views of integer arrays; tables built fresh, built
                                       from selected columns, or read from a file with columns touched / re-assigned
                                       before or after the selection, then written): the result is element-wise the
                                       canonical text of the selected rows, the input and the array it was selected from
                                       keep their values, and a second call gives the same result

Scope: 0, +-(10^d + k) for d = 0..18, k = -2..2, the int64 extremes, powers of two; widths 1..19 mixed in one
batch; +-(10^d - k) for d = 15..18 and k up to 130 (the values that round up to 10^d as doubles) and 2^b +- k for
b = 54..63 through every integer formatter (strops, list join, BED/BED6/BED12 files, matrices); seeded random values
above the bounds.
"""
import itertools
import math
import os
import struct

from .common import Collector, TmpDir

PID = "C18"
I64MAX = 2 ** 63 - 1
I64MIN = -2 ** 63
ULP_TOL = 4

_single = {}


# ----------------------------------------------------------------------------------------------- helpers

def _rows(x):
    return [r.to_string() for r in x]


def _ordv(f):
    i = struct.unpack("<q", struct.pack("<d", f))[0]
    return i if i >= 0 else -(i & 0x7FFFFFFFFFFFFFFF)


def ulps(a, b):
    return abs(_ordv(a) - _ordv(b))


def _bits(f):
    return struct.unpack("<q", struct.pack("<d", f))[0]


def fmt_class(v, got):
    """signature suffix for a wrong formatted integer"""
    exp = str(v)
    if v == I64MIN:
        return "int64-min"
    body = got[1:] if got[:1] == "-" else got
    if (got[:1] == "-") != (v < 0):
        return "sign"
    if body != "" and body.isdigit() and body.lstrip("0") == str(abs(v)).lstrip("0") and len(body) > len(str(abs(v))):
        d = len(str(abs(v)))
        gap = 10 ** d - abs(v)
        if d >= 15 and gap * 10 ** 14 <= 10 ** d:
            return "leading-zero:just-below-10^d:d>=15"
        return "leading-zero:elsewhere"
    if len(got) < len(exp):
        return "digits-lost"
    if len(got) > len(exp):
        return "too-long"
    return "wrong-digits"


def text_variant(t):
    parts = []
    body = t
    if t[:1] == "-":
        parts.append("neg")
        body = t[1:]
    elif t[:1] == "+":
        parts.append("plus")
        body = t[1:]
    if len(body) > 1 and body[0] == "0":
        parts.append("leading-zeros")
    if len(body.lstrip("0")) >= 19:
        parts.append("w19")
    return "+".join(parts) if parts else "plain"


def float_class(t, got, exp):
    form = "scientific" if "e" in t else "decimal"
    if got != got or got in (float("inf"), float("-inf")):
        return form + ":non-finite"
    if exp == 0 or got == 0:
        return form + ":wrong-value"
    if (got < 0) != (exp < 0):
        return form + ":wrong-sign"
    r = got / exp
    k = round(math.log10(r)) if r > 0 else 0
    if k != 0 and abs(r / 10.0 ** k - 1) < 1e-9:
        return form + ":wrong-power-of-ten"
    if abs(r - 1) < 1e-12:
        return form + ":ulp-error>%d" % ULP_TOL
    return form + ":wrong-value"


def _same_value(text, v):
    """text is a (possibly non-canonical) decimal text of v"""
    try:
        return text.strip() == text and int(text) == v
    except ValueError:
        return False


def check_int_rows(col, case, prefix, vals, got_rows):
    """got_rows: list of str; vals: list of int"""
    if not col.check(len(got_rows) == len(vals), prefix + ":row-count", case, "got %d rows for %d values" % (len(got_rows), len(vals))):
        return
    for v, g in zip(vals, got_rows):
        if g != str(v):
            col.fail(prefix + ":" + fmt_class(v, g), case, "value %d formatted as %r, expected %r" % (v, g, str(v)))


# ----------------------------------------------------------------------------------------------- case evaluators

def ev_fmt(col, case, tmp):
    import numpy as np
    from bionumpy.io.strops import ints_to_strings
    vals = case["vals"]
    col.case(case, contract="ints_to_strings")
    got = col.guarded(lambda: _rows(ints_to_strings(np.array(vals, dtype=np.int64))), "ints_to_strings", case)
    if got is None:
        return
    check_int_rows(col, case, "ints_to_strings", vals, got)
    if len(vals) > 1 and len(got) == len(vals):
        for v, g in zip(vals, got):
            if v not in _single:
                try:
                    _single[v] = _rows(ints_to_strings(np.array([v], dtype=np.int64)))[0]
                except Exception:
                    _single[v] = None
            s = _single[v]
            if s is not None and s != g:
                col.fail("ints_to_strings:row-depends-on-batch", case, "value %d alone -> %r, in this batch -> %r" % (v, s, g))


def ev_int_to_str(col, case, tmp):
    from bionumpy.io.strops import int_to_str
    v = case["v"]
    col.case(case, contract="int_to_str")
    got = col.guarded(lambda: int_to_str(v).to_string(), "int_to_str", case)
    if got is not None and got != str(v):
        col.fail("int_to_str:" + fmt_class(v, got), case, "value %d formatted as %r" % (v, got))


def _encode_texts(texts, path):
    import numpy as np
    from bionumpy.encoded_array import as_encoded_array, EncodedArray
    from bionumpy.encodings import BaseEncoding
    if path == "2d":
        return EncodedArray(np.array([[ord(c) for c in t] for t in texts], dtype=np.uint8), BaseEncoding)
    if path == "1d":
        return as_encoded_array(texts[0])
    return as_encoded_array(list(texts))


def _parse_fn(path):
    from bionumpy.io import strops
    return strops.str_to_int_with_missing if path == "with_missing" else strops.str_to_int


def ev_parse(col, case, tmp):
    import numpy as np
    texts, path = case["texts"], case.get("path", "ragged")
    fn = _parse_fn(path)
    col.case(case, contract="str_to_int:" + path)
    enc = col.guarded(lambda: _encode_texts(texts, path), "str_to_int:%s:encode-input" % path, case)
    if enc is None:
        return
    got = col.guarded(lambda: np.atleast_1d(fn(enc)).tolist(), "str_to_int:%s" % path, case)
    if got is None:
        return
    exp = [int(t) for t in texts]
    if not col.check(len(got) == len(exp), "str_to_int:%s:row-count" % path, case, "got %r" % (got,)):
        return
    for t, g, e in zip(texts, got, exp):
        if g != e:
            col.fail("str_to_int:%s:wrong-value:%s" % (path, text_variant(t)), case, "text %r parsed as %r, expected %r" % (t, g, e))
    # parsing the same array object a second time must give the same values (the input is not consumed)
    got2 = col.guarded(lambda: np.atleast_1d(fn(enc)).tolist(), "str_to_int:%s:second-parse" % path, case)
    if got2 is not None and got2 != got:
        col.fail("str_to_int:%s:second-parse-differs(input-modified)" % path, case, "first %r second %r" % (got, got2))
    if len(texts) > 1 and path == "ragged":
        for t, g in zip(texts, got):
            key = ("p", t)
            if key not in _single:
                try:
                    _single[key] = np.atleast_1d(fn(_encode_texts([t], path))).tolist()[0]
                except Exception:
                    _single[key] = None
            s = _single[key]
            if s is not None and s != g:
                col.fail("str_to_int:row-depends-on-batch", case, "text %r alone -> %r, in this batch -> %r" % (t, s, g))


def ev_joinlists(col, case, tmp):
    import numpy as np
    from npstructures import RaggedArray
    from bionumpy.io.strops import int_lists_to_strings
    rows, sep, keep_last = case["rows"], case["sep"], case["keep_last"]
    col.case(case, contract="int_lists_to_strings")
    flat = np.array([v for r in rows for v in r], dtype=np.int64)
    ra = RaggedArray(flat, [len(r) for r in rows])
    empty = any(len(r) == 0 for r in rows)
    tag = "int_lists_to_strings" + (":sep-empty" if sep == "" else "") + (":keep_last" if keep_last else "") + (":with-empty-row" if empty else "")
    if sep == "":
        got = col.guarded(lambda: _rows(int_lists_to_strings(ra, sep="")), tag, case)
        exp = ["".join(str(v) for v in r) for r in rows]
    else:
        got = col.guarded(lambda: _rows(int_lists_to_strings(ra, sep=sep, keep_last=keep_last)), tag, case)
        exp = ["".join(str(v) + sep for v in r) if keep_last else sep.join(str(v) for v in r) for r in rows]
    if got is None:
        return
    if got != exp:
        sub = "wrong-join"
        for r, g in zip(rows, got):
            parts = g.split(sep) if sep else list(g)
            if keep_last and sep and parts and parts[-1] == "":
                parts = parts[:-1]
            if len(parts) == len(r) and any(p != str(v) for p, v in zip(parts, r)):
                bad = [(v, p) for p, v in zip(parts, r) if p != str(v)][0]
                sub = "element:" + fmt_class(bad[0], bad[1])
                break
        if len(got) != len(exp):
            sub = "row-count"
        col.fail(tag + ":" + sub, case, "got %r expected %r" % (got[:6], exp[:6]))


def _bed_path(tmp, col, suffix):
    return os.path.join(tmp, "f%d%s" % (col.evaluations, suffix))


def ev_bed_read(col, case, tmp):
    import bionumpy as bnp
    rows = case["rows"]  # [[start_text, stop_text], ...]
    col.case(case, contract="read:int-column")
    p = _bed_path(tmp, col, ".bed")
    with open(p, "w") as f:
        for i, (s, e) in enumerate(rows):
            f.write("c%d\t%s\t%s\n" % (i, s, e))
    signed = ["signed" if any(r[j][:1] in "+-" for r in rows) else "unsigned-digit-matrix" for j in (0, 1)]

    def rd():
        fh = bnp.open(p)
        try:
            d = fh.read()
            return d.start.tolist(), d.stop.tolist()
        finally:
            fh.close()
    got = col.guarded(rd, "bed_read:int-column:" + "/".join(sorted(set(signed))), case)
    if got is None:
        return
    for j, name in ((0, "start"), (1, "stop")):
        exp = [int(r[j]) for r in rows]
        if len(got[j]) != len(exp):
            col.fail("bed_read:int-column:row-count", case, "got %r" % (got[j],))
            continue
        for r, g, e in zip(rows, got[j], exp):
            if g != e:
                col.fail("bed_read:int-column:%s:wrong-value:%s" % (signed[j], text_variant(r[j])), case,
                         "column %s text %r parsed as %r" % (name, r[j], g))


def ev_bed_write(col, case, tmp):
    import numpy as np
    import bionumpy as bnp
    from bionumpy.datatypes import Interval
    starts, stops = case["starts"], case["stops"]
    col.case(case, contract="write:int-column")
    p = _bed_path(tmp, col, ".bed")
    names = ["c%d" % i for i in range(len(starts))]

    def wr():
        iv = Interval(names, np.array(starts, dtype=np.int64), np.array(stops, dtype=np.int64))
        with bnp.open(p, "w") as f:
            f.write(iv)
        return open(p).read()
    got = col.guarded(wr, "bed_write:int-column", case)
    if got is None:
        return
    lines = got.split("\n")
    if not col.check(got.endswith("\n") and len(lines) == len(starts) + 1, "bed_write:line-count", case, repr(got[:200])):
        return
    for n, s, e, line in zip(names, starts, stops, lines):
        toks = line.split("\t")
        if len(toks) != 3 or toks[0] != n:
            col.fail("bed_write:line-structure", case, "line %r" % line)
            continue
        for v, g in ((s, toks[1]), (e, toks[2])):
            if g != str(v):
                col.fail("bed_write:int-column:" + fmt_class(v, g), case, "value %d written as %r" % (v, g))


def ev_bed6(col, case, tmp):
    """Optional[int] column (score) read and written, all values present"""
    import numpy as np
    import bionumpy as bnp
    from bionumpy.io.delimited_buffers import Bed6Buffer
    texts = case["scores"]
    col.case(case, contract="read+write:optional-int-column")
    p = _bed_path(tmp, col, ".bed")
    with open(p, "w") as f:
        for i, t in enumerate(texts):
            f.write("c%d\t%d\t%d\tn%d\t%s\t%s\n" % (i, i, i + 5, i, t, "+-"[i % 2]))

    def rd():
        fh = bnp.open(p, buffer_type=Bed6Buffer)
        try:
            d = fh.read()
            return d, d.score.tolist()
        finally:
            fh.close()
    r = col.guarded(rd, "bed6_read:optional-int", case)
    if r is None:
        return
    d, got = r
    exp = [int(t) for t in texts]
    if got != exp:
        bad = [(t, g) for t, g, e in zip(texts, got, exp) if g != e]
        col.fail("bed6_read:optional-int:wrong-value:%s" % (text_variant(bad[0][0]) if bad else "row-count"), case, "got %r expected %r" % (got, exp))
        return
    p2 = _bed_path(tmp, col, ".out.bed")

    def wr():
        from bionumpy.datatypes import Bed6
        n = len(exp)
        fresh = Bed6(["c%d" % i for i in range(n)], np.arange(n), np.arange(n) + 5, ["n%d" % i for i in range(n)],
                     np.array(exp, dtype=np.int64), ["+-"[i % 2] for i in range(n)])
        with bnp.open(p2, "w", buffer_type=Bed6Buffer) as f:
            f.write(fresh)
        return open(p2).read()
    out = col.guarded(wr, "bed6_write:optional-int", case)
    if out is None:
        return
    toks = [l.split("\t")[4] if l.count("\t") == 5 else None for l in out.split("\n")[:-1]]
    if len(toks) != len(exp) or None in toks:
        col.fail("bed6_write:line-structure", case, repr(out[:200]))
        return
    for v, g in zip(exp, toks):
        if g != str(v):
            col.fail("bed6_write:optional-int:" + fmt_class(v, g), case, "value %d written as %r" % (v, g))


def ev_bed12(col, case, tmp):
    """List[int] columns read (split) and written (join)"""
    import bionumpy as bnp
    from bionumpy.io.delimited_buffers import Bed12Buffer
    sizes, starts, trailing = case["sizes"], case["starts"], case["trailing"]
    col.case(case, contract="read+write:int-list-column")
    p = _bed_path(tmp, col, ".bed")
    tc = "," if trailing else ""
    with open(p, "w") as f:
        for i, (a, b) in enumerate(zip(sizes, starts)):
            f.write("c%d\t%d\t%d\tn%d\t%d\t+\t1\t2\t0,0,0\t%d\t%s\t%s\n" % (
                i, i, i + 9, i, i, len(a), ",".join(str(v) for v in a) + tc, ",".join(str(v) for v in b) + tc))
    tag = ":trailing-comma" if trailing else ""

    def rd():
        fh = bnp.open(p, buffer_type=Bed12Buffer)
        try:
            d = fh.read()
            return d, [list(map(int, r)) for r in d.block_sizes.tolist()], [list(map(int, r)) for r in d.block_starts.tolist()], d.block_count.tolist()
        finally:
            fh.close()
    r = col.guarded(rd, "bed12_read:int-list" + tag, case)
    if r is None:
        return
    _, gs, gb, gc = r
    for name, g, e in (("block_sizes", gs, sizes), ("block_starts", gb, starts)):
        if g != e:
            flat_same = [v for r_ in g for v in r_] == [v for r_ in e for v in r_]
            sub = "rows-shifted(row-lengths-wrong)" if flat_same else ("row-count" if len(g) != len(e) else "wrong-elements")
            col.fail("bed12_read:int-list%s:%s" % (tag, sub), case, "%s got %r expected %r" % (name, g[:5], e[:5]))
    col.check(gc == [len(a) for a in sizes], "bed12_read:int-column:block_count", case, "got %r" % (gc,))
    if trailing:
        return
    p2 = _bed_path(tmp, col, ".out.bed")

    def wr():
        import numpy as np
        from npstructures import RaggedArray
        from bionumpy.datatypes import Bed12
        n = len(sizes)
        ra = lambda rows: RaggedArray(np.array([v for r_ in rows for v in r_], dtype=np.int64), [len(r_) for r_ in rows])
        fresh = Bed12(["c%d" % i for i in range(n)], np.arange(n), np.arange(n) + 9, ["n%d" % i for i in range(n)], np.arange(n),
                      ["+"] * n, np.full(n, 1), np.full(n, 2), ["0,0,0"] * n, np.array([len(a) for a in sizes]), ra(sizes), ra(starts))
        with bnp.open(p2, "w", buffer_type=Bed12Buffer) as f:
            f.write(fresh)
        return open(p2).read()
    out = col.guarded(wr, "bed12_write:int-list", case)
    if out is None:
        return
    lines = out.split("\n")[:-1]
    if len(lines) != len(sizes) or any(l.count("\t") != 11 for l in lines):
        col.fail("bed12_write:line-structure", case, repr(out[:300]))
        return
    for l, a, b in zip(lines, sizes, starts):
        toks = l.split("\t")
        for g, e in ((toks[10], a), (toks[11], b)):
            # a trailing comma is permitted by the BED12 format; the elements must be the same
            parts = g.split(",")
            if parts and parts[-1] == "":
                parts = parts[:-1]
            if parts != [str(v) for v in e]:
                col.fail("bed12_write:int-list:wrong-join", case, "list %r written as %r" % (e, g))


def ev_matrix_csv(col, case, tmp):
    import numpy as np
    from bionumpy.io.matrix_dump import matrix_to_csv
    m, header, sep = case["m"], case["header"], case["sep"]
    col.case(case, contract="matrix_to_csv")
    got = col.guarded(lambda: matrix_to_csv(np.array(m, dtype=np.int64), header=header, sep=sep).to_string(), "matrix_to_csv", case)
    if got is None:
        return
    exp = (sep.join(header) + "\n" if header is not None else "") + "".join(sep.join(str(v) for v in r) + "\n" for r in m)
    if got != exp:
        sub = "structure"
        gl, el = got.split("\n"), exp.split("\n")
        if len(gl) == len(el):
            for g, e in zip(gl, el):
                gt, et = g.split(sep), e.split(sep)
                if len(gt) == len(et):
                    for a, b in zip(gt, et):
                        if a != b and header is not None and e == sep.join(header):
                            sub = "header"
                        elif a != b:
                            sub = "element:" + fmt_class(int(b), a)
                            break
        col.fail("matrix_to_csv:" + sub, case, "got %r expected %r" % (got[:200], exp[:200]))


def ev_matrix_parse(col, case, tmp):
    from bionumpy.io.matrix_dump import parse_matrix
    rows, typ, rownames = case["rows"], case["type"], case["rownames"]
    col.case(case, contract="parse_matrix:" + typ)
    ncol = len(rows[0])
    hdr = (["r"] if rownames else []) + ["h%d" % j for j in range(ncol)]
    text = "\t".join(hdr) + "\n" + "".join("\t".join((["row%d" % i] if rownames else []) + list(r)) + "\n" for i, r in enumerate(rows))
    kw = {} if rownames else {"rowname_type": None}
    got = col.guarded(lambda: parse_matrix(text, field_type=int if typ == "int" else float, **kw).data.tolist(), "parse_matrix:" + typ, case)
    if got is None:
        return
    if typ == "int":
        exp = [[int(t) for t in r] for r in rows]
        if got != exp:
            col.fail("parse_matrix:int:wrong-value", case, "got %r expected %r" % (got, exp))
    else:
        exp = [[float(t) for t in r] for r in rows]
        if [len(r) for r in got] != [len(r) for r in exp]:
            col.fail("parse_matrix:float:shape", case, "got %r" % (got,))
            return
        for r, gr, er in zip(rows, got, exp):
            for t, g, e in zip(r, gr, er):
                if not (g == g and ulps(g, e) <= ULP_TOL):
                    col.fail("parse_matrix:float:" + float_class(t, g, e), case, "text %r parsed as %r expected %r" % (t, g, e))


def _stf_single(t):
    from bionumpy.io.strops import str_to_float
    from bionumpy.encoded_array import as_encoded_array
    key = ("f", t)
    if key not in _single:
        try:
            _single[key] = _bits(float(str_to_float(as_encoded_array([t]))[0]))
        except Exception:
            _single[key] = None
    return _single[key]


def ev_fparse(col, case, tmp):
    from bionumpy.io.strops import str_to_float
    from bionumpy.encoded_array import as_encoded_array
    texts = case["texts"]
    col.case(case, contract="str_to_float")
    enc = as_encoded_array(list(texts))
    got = col.guarded(lambda: str_to_float(enc).tolist(), "str_to_float", case)
    if got is None:
        return
    if not col.check(len(got) == len(texts), "str_to_float:row-count", case, "got %d" % len(got)):
        return
    for t, g in zip(texts, got):
        e = float(t)
        if not (g == g and abs(g) != float("inf") and ulps(g, e) <= ULP_TOL):
            col.fail("str_to_float:" + float_class(t, g, e), case, "text %r parsed as %r, float() gives %r (%s ulp)" % (
                t, g, e, ulps(g, e) if g == g else "nan"))
    got2 = col.guarded(lambda: str_to_float(enc).tolist(), "str_to_float:second-parse", case)
    if got2 is not None and [_bits(x) for x in got2] != [_bits(x) for x in got]:
        col.fail("str_to_float:second-parse-differs(input-modified)", case, "first %r second %r" % (got[:5], got2[:5]))
    if case.get("indep") and len(texts) > 1:
        for t, g in zip(texts, got):
            s = _stf_single(t)
            if s is not None and s != _bits(g):
                col.fail("str_to_float:row-depends-on-batch", case, "text %r alone -> %r, in this batch -> %r" % (
                    t, struct.unpack("<d", struct.pack("<q", s))[0], g))


def _plain_short(s):
    body = s.lstrip("-")
    if "e" in body or "n" in body or "i" in body:
        return False
    digits = body.replace(".", "").lstrip("0")
    return len(digits) <= 15 and len(body.replace(".", "")) <= 22


def ev_froundtrip(col, case, tmp):
    import numpy as np
    from bionumpy.io.strops import str_to_float, float_to_strings
    ds = [float.fromhex(h) for h in case["hex"]]
    col.case(case, contract="float_to_strings;str_to_float")
    arr = np.array(ds, dtype=float)
    txt = col.guarded(lambda: float_to_strings(arr), "float_to_strings", case)
    if txt is None:
        return
    rows = _rows(txt)
    if not col.check(len(rows) == len(ds), "float_to_strings:row-count", case, "got %d" % len(rows)):
        return
    for d, s in zip(ds, rows):
        try:
            ok = _bits(float(s)) == _bits(d) or (d == 0 and float(s) == 0)
        except ValueError:
            ok = False
        if not ok:
            col.fail("float_to_strings:text-does-not-denote-the-double", case, "%r formatted as %r" % (d, s))
    back = col.guarded(lambda: str_to_float(txt).tolist(), "float_roundtrip:parse", case)
    if back is None:
        return
    for d, s, b in zip(ds, rows, back):
        if b != d:
            if b == b and ulps(b, d) <= ULP_TOL:
                sub = "plain-decimal<=15-digits" if _plain_short(s) else "within-%dulp:17-digit-or-scientific-text" % ULP_TOL
            else:
                sub = "far-off:" + float_class(s, b, d)
            col.fail("float_roundtrip:not-identity:" + sub, case, "%r -> %r -> %r" % (d, s, b))


def ev_bdg(col, case, tmp):
    """float column of a bedGraph file read, then written and re-read as text"""
    import bionumpy as bnp
    texts = case["values"]
    col.case(case, contract="read+write:float-column")
    p = _bed_path(tmp, col, ".bdg")
    with open(p, "w") as f:
        for i, t in enumerate(texts):
            f.write("c%d\t%d\t%d\t%s\n" % (i, i, 10 ** (i % 19), t))

    def rd():
        fh = bnp.open(p)
        try:
            d = fh.read()
            return d, d.value.tolist(), d.stop.tolist()
        finally:
            fh.close()
    r = col.guarded(rd, "bdg_read:float-column", case)
    if r is None:
        return
    d, got, stops = r
    if not col.check(len(got) == len(texts), "bdg_read:row-count", case, "got %d" % len(got)):
        return
    col.check(stops == [10 ** (i % 19) for i in range(len(texts))], "bdg_read:int-column:wrong-value", case, "stop column %r" % (stops,))
    for t, g in zip(texts, got):
        e = float(t)
        if not (g == g and ulps(g, e) <= ULP_TOL):
            col.fail("bdg_read:float-column:" + float_class(t, g, e), case, "text %r parsed as %r expected %r" % (t, g, e))
    p2 = _bed_path(tmp, col, ".out.bdg")

    got = [float(t) for t in texts]   # the doubles to be written (a fresh object, so that the values are formatted)

    def wr():
        import numpy as np
        from bionumpy.datatypes import BedGraph
        n = len(got)
        fresh = BedGraph(["c%d" % i for i in range(n)], np.arange(n), np.arange(n) + 3, np.array(got, dtype=float))
        with bnp.open(p2, "w") as f:
            f.write(fresh)
        return open(p2).read()
    out = col.guarded(wr, "bdg_write:float-column", case)
    if out is None:
        return
    lines = out.split("\n")[:-1]
    if len(lines) != len(texts) or any(l.count("\t") != 3 for l in lines):
        col.fail("bdg_write:line-structure", case, repr(out[:200]))
        return
    for l, g in zip(lines, got):
        tok = l.split("\t")[3]
        try:
            ok = float(tok) == g
        except ValueError:
            ok = False
        if not ok:
            col.fail("bdg_write:float-column:text-does-not-denote-the-double", case, "%r written as %r" % (g, tok))


def ev_reject(col, case, tmp):
    from bionumpy.io.strops import str_to_int, str_to_float
    from bionumpy.encoded_array import as_encoded_array
    fn, text = case["fn"], case["text"]
    col.case(case, contract="reject-non-numeric:" + fn)
    f = str_to_int if fn == "int" else str_to_float
    try:
        r = f(as_encoded_array([text])).tolist()
    except Exception:
        return
    ch = case["ch"]
    cls = "P-Y(digit+32)" if "P" <= ch <= "Y" else "other"
    col.fail("str_to_%s:non-digit-accepted-silently:%s" % (fn, cls), case, "text %r parsed as %r without an error" % (text, r))


# ----------------------------------------------------------------------------------------------- selections (views)
# A selection is a list of steps applied one after the other:
#   ["idx", [i, ...]]      fancy index with an integer array (rows re-ordered, dropped, repeated)
#   ["slice", a, b, s]     obj[a:b:s]  (None allowed)
#   ["mask", [0/1, ...]]   boolean mask
#   ["cols", a, b]         obj[:, a:b] (ragged arrays only: the same column slice of every row)
# The oracle applies the same steps to plain Python lists.

def sel_py(lst, steps):
    for st in steps:
        if st[0] == "idx":
            lst = [lst[i] for i in st[1]]
        elif st[0] == "slice":
            lst = lst[slice(st[1], st[2], st[3])]
        elif st[0] == "mask":
            lst = [x for x, m in zip(lst, st[1]) if m]
        elif st[0] == "cols":
            lst = [r[slice(st[1], st[2])] for r in lst]
        else:
            raise ValueError(st)
    return lst


def sel_lib(obj, steps):
    import numpy as np
    for st in steps:
        if st[0] == "idx":
            obj = obj[np.array(st[1], dtype=int)]
        elif st[0] == "slice":
            obj = obj[slice(st[1], st[2], st[3])]
        elif st[0] == "mask":
            obj = obj[np.array(st[1], dtype=bool)]
        elif st[0] == "cols":
            obj = obj[:, slice(st[1], st[2])]
        else:
            raise ValueError(st)
    return obj


def _ragged(rows):
    import numpy as np
    from npstructures import RaggedArray
    return RaggedArray(np.array([v for r in rows for v in r], dtype=np.int64), [len(r) for r in rows])


def ev_joinlists_sel(col, case, tmp):
    """int_lists_to_strings on a selection of the rows of another RaggedArray"""
    from bionumpy.io.strops import int_lists_to_strings
    rows, steps, sep, keep_last = case["rows"], case["sel"], case["sep"], case["keep_last"]
    col.case(case, contract="int_lists_to_strings:selection")
    tag = "int_lists_to_strings:non-contiguous-selection" + (":sep-empty" if sep == "" else "")
    sel_rows = sel_py(rows, steps)
    if sep == "":
        exp = ["".join(str(v) for v in r) for r in sel_rows]
    else:
        exp = ["".join(str(v) + sep for v in r) if keep_last else sep.join(str(v) for v in r) for r in sel_rows]
    base = _ragged(rows)
    view = col.guarded(lambda: sel_lib(base, steps), tag + ":select", case)
    if view is None:
        return
    kw = {"sep": ""} if sep == "" else {"sep": sep, "keep_last": keep_last}
    got = col.guarded(lambda: _rows(int_lists_to_strings(view, **kw)), tag, case)
    if got is None:
        return
    if got != exp:
        sub = "wrong-join"
        if len(got) != len(exp):
            sub = "row-count"
        elif sep:
            # every row splits into the right number of elements but one element is not the canonical text:
            # a defect of the integer formatter, not of the grouping into rows
            per_row = []
            for r, g in zip(sel_rows, got):
                parts = g.split(sep)
                if keep_last and parts and parts[-1] == "":
                    parts = parts[:-1]
                if r == [] and parts == [""]:
                    parts = []
                per_row.append(parts)
            if all(len(p) == len(r) for p, r in zip(per_row, sel_rows)):
                bad = [(v, t) for p, r in zip(per_row, sel_rows) for t, v in zip(p, r) if t != str(v)]
                if bad and all(_same_value(t, v) for v, t in bad):
                    sub = "element:" + fmt_class(bad[0][0], bad[0][1])
        col.fail(tag + ":" + sub, case, "got %r expected %r" % (got[:6], exp[:6]))
    # the selection and the array it was taken from keep their values; formatting again gives the same text
    after = col.guarded(lambda: (view.tolist(), base.tolist()), tag + ":input-after-call", case)
    if after is not None:
        col.check([list(map(int, r)) for r in after[0]] == sel_rows, tag + ":input-modified", case, "selection now %r expected %r" % (after[0][:6], sel_rows[:6]))
        col.check([list(map(int, r)) for r in after[1]] == rows, tag + ":selected-from-array-modified", case, "base now %r" % (after[1][:6],))
    got2 = col.guarded(lambda: _rows(int_lists_to_strings(view, **kw)), tag + ":second-call", case)
    if got2 is not None and got2 != got:
        col.fail(tag + ":second-call-differs", case, "first %r second %r" % (got[:6], got2[:6]))


def _int_view(vals, view):
    """(numpy view, expected python list, base array, python copy of the base) for a view description"""
    import numpy as np
    kind = view[0]
    if kind == "sel":                      # 1-D selection steps (slices give strided views)
        base = np.array(vals, dtype=np.int64)
        return sel_lib(base, view[1]), sel_py(list(vals), view[1]), base, list(vals)
    if kind == "matrix-col":               # column j of a C-ordered matrix with ncols columns
        ncols, j = view[1], view[2]
        m = [[(v if c == j else (c + 1) * 7 - i) for c in range(ncols)] for i, v in enumerate(vals)]
        base = np.array(m, dtype=np.int64).reshape(len(vals), ncols)
        return base[:, j], list(vals), base, m
    if kind == "matrix-row-F":             # row of a Fortran-ordered matrix
        nrows, i = view[1], view[2]
        m = [[(v if r == i else r * 11 + c) for c, v in enumerate(vals)] for r in range(nrows)]
        base = np.asfortranarray(np.array(m, dtype=np.int64).reshape(nrows, len(vals)))
        return base[i], list(vals), base, m
    if kind == "broadcast":                # stride-0 view: the same number n times
        n = view[1]
        base = np.array(vals[:1], dtype=np.int64)
        return np.broadcast_to(base[0], (n,)), [vals[0]] * n, base, [vals[0]]
    if kind == "ragged-col":               # column j of a RaggedArray whose rows have different lengths
        j = view[1]
        rows = [[(v if c == j else c - i) for c in range(j + 1 + i % 3)] for i, v in enumerate(vals)]
        base = _ragged(rows)
        return base[:, j], list(vals), base, rows
    raise ValueError(view)


def ev_fmt_view(col, case, tmp):
    """ints_to_strings on a non-contiguous / strided / derived view of an integer array"""
    import numpy as np
    from bionumpy.io.strops import ints_to_strings
    col.case(case, contract="ints_to_strings:view")
    tag = "ints_to_strings:non-contiguous-view"
    r = col.guarded(lambda: _int_view(case["vals"], case["view"]), tag + ":select", case)
    if r is None:
        return
    arr, exp_vals, base, base_py = r
    got = col.guarded(lambda: _rows(ints_to_strings(arr)), tag, case)
    if got is None:
        return
    check_int_rows(col, case, tag, [int(v) for v in exp_vals], got)
    col.check(np.asarray(arr).tolist() == exp_vals, tag + ":input-modified", case, "view now %r" % (np.asarray(arr).tolist()[:8],))
    col.check(base.tolist() == base_py, tag + ":selected-from-array-modified", case, "base now %r" % (base.tolist()[:8],))
    got2 = col.guarded(lambda: _rows(ints_to_strings(arr)), tag + ":second-call", case)
    if got2 is not None and got2 != got:
        col.fail(tag + ":second-call-differs", case, "first %r second %r" % (got[:6], got2[:6]))


def ev_parse_sel(col, case, tmp):
    """str_to_int on a selection of the rows of another EncodedRaggedArray"""
    import numpy as np
    from bionumpy.encoded_array import as_encoded_array
    from bionumpy.io.strops import str_to_int
    texts, steps = case["texts"], case["sel"]
    col.case(case, contract="str_to_int:selection")
    tag = "str_to_int:non-contiguous-selection"
    sel_texts = sel_py(list(texts), steps)
    base = as_encoded_array(list(texts))
    view = col.guarded(lambda: sel_lib(base, steps), tag + ":select", case)
    if view is None:
        return
    got = col.guarded(lambda: np.atleast_1d(str_to_int(view)).tolist(), tag, case)
    if got is None:
        return
    exp = [int(t) for t in sel_texts]
    if col.check(len(got) == len(exp), tag + ":row-count", case, "got %r" % (got[:8],)):
        for t, g, e in zip(sel_texts, got, exp):
            if g != e:
                col.fail(tag + ":wrong-value:" + text_variant(t), case, "text %r parsed as %r, expected %r" % (t, g, e))
    after = col.guarded(lambda: (_rows(view), _rows(base)), tag + ":input-after-call", case)
    if after is not None:
        col.check(after[0] == sel_texts, tag + ":input-modified", case, "selection now %r" % (after[0][:6],))
        col.check(after[1] == list(texts), tag + ":selected-from-array-modified", case, "base now %r" % (after[1][:6],))


def _matrix_view(m, view):
    import numpy as np
    a = np.array(m, dtype=np.int64).reshape(len(m), len(m[0]))
    if view == "T":
        return a.T, [list(r) for r in zip(*m)]
    if view == "F":
        return np.asfortranarray(a), [list(r) for r in m]
    if view == "rows-reversed":
        return a[::-1], [list(r) for r in m[::-1]]
    if view == "cols-reversed":
        return a[:, ::-1], [list(r[::-1]) for r in m]
    if view == "every-2nd-row":
        return a[::2], [list(r) for r in m[::2]]
    if view == "every-2nd-col":
        return a[:, ::2], [list(r[::2]) for r in m]
    if view == "inner":
        return a[1:, 1:], [list(r[1:]) for r in m[1:]]
    if view == "rows-permuted":
        idx = list(range(len(m)))[1:] + [0]
        return a[np.array(idx)], [list(m[i]) for i in idx]
    raise ValueError(view)


def ev_matrix_csv_view(col, case, tmp):
    from bionumpy.io.matrix_dump import matrix_to_csv
    m, view, sep = case["m"], case["view"], case["sep"]
    col.case(case, contract="matrix_to_csv:view")
    tag = "matrix_to_csv:non-contiguous-view"
    r = col.guarded(lambda: _matrix_view(m, view), tag + ":select", case)
    if r is None:
        return
    arr, em = r
    if not em or not em[0]:
        return
    header = ["col%d" % (10 ** j) for j in range(len(em[0]))] if case.get("header") else None
    got = col.guarded(lambda: matrix_to_csv(arr, header=header, sep=sep).to_string(), tag, case)
    if got is None:
        return
    exp = (sep.join(header) + "\n" if header is not None else "") + "".join(sep.join(str(v) for v in r_) + "\n" for r_ in em)
    if got != exp:
        sub = "structure"
        gl, el = got.split("\n"), exp.split("\n")
        if len(gl) == len(el) and all(len(g.split(sep)) == len(e.split(sep)) for g, e in zip(gl, el)):
            sub = "wrong-elements"
            bad = [(b, a) for g, e in zip(gl[(1 if header else 0):], el[(1 if header else 0):]) for a, b in zip(g.split(sep), e.split(sep)) if a != b]
            if bad and bad[0][1].lstrip("-").isdigit() and bad[0][1].lstrip("-").lstrip("0") == bad[0][0].lstrip("-").lstrip("0"):
                sub = "element:" + fmt_class(int(bad[0][0]), bad[0][1])
        col.fail(tag + ":" + sub, case, "got %r expected %r" % (got[:200], exp[:200]))
    col.check(arr.tolist() == em, tag + ":input-modified", case, "matrix now %r" % (arr.tolist()[:4],))


# tables: python rows  [i, start, stop]                                                    bed   (Interval)
#                      [i, start, stop, score]                                             bed6
#                      [i, start, stop, value (double)]                                    bdg   (BedGraph)
#                      [i, start, stop, score, thick_start, thick_end, sizes, starts]      bed12
# i identifies the string columns (chromosome c<i>, name n<i>, strand "+-"[i % 2]).
_TBL_INT = {"bed": {"start": 1, "stop": 2}, "bed6": {"start": 1, "stop": 2, "score": 3}, "bdg": {"start": 1, "stop": 2},
            "bed12": {"start": 1, "stop": 2, "score": 3, "thick_start": 4, "thick_end": 5}}
_TBL_LIST = {"bed12": {"block_sizes": 6, "block_starts": 7}}
_TBL_FLOAT = {"bdg": {"value": 3}}
_TBL_NTOK = {"bed": 3, "bed6": 6, "bdg": 4, "bed12": 12}


def _tbl_line(fmt, r):
    i = r[0]
    if fmt == "bed":
        return "c%d\t%d\t%d" % (i, r[1], r[2])
    if fmt == "bed6":
        return "c%d\t%d\t%d\tn%d\t%d\t%s" % (i, r[1], r[2], i, r[3], "+-"[i % 2])
    if fmt == "bdg":
        return "c%d\t%d\t%d\t%s" % (i, r[1], r[2], repr(float(r[3])))
    return "c%d\t%d\t%d\tn%d\t%d\t%s\t%d\t%d\t0,0,0\t%d\t%s\t%s" % (
        i, r[1], r[2], i, r[3], "+-"[i % 2], r[4], r[5], len(r[6]), ",".join(str(v) for v in r[6]), ",".join(str(v) for v in r[7]))


def _tbl_buffer_type(fmt):
    from bionumpy.io.delimited_buffers import Bed6Buffer, Bed12Buffer
    return {"bed6": Bed6Buffer, "bed12": Bed12Buffer}.get(fmt)


def _tbl_columns(fmt, rows):
    """name -> numpy / ragged / list column of python rows (all columns of the format, in constructor order)"""
    import numpy as np
    ints = lambda k: np.array([r[k] for r in rows], dtype=np.int64)
    idx = [r[0] for r in rows]
    cols = [("chromosome", ["c%d" % i for i in idx]), ("start", ints(1)), ("stop", ints(2))]
    if fmt == "bdg":
        cols.append(("value", np.array([float(r[3]) for r in rows], dtype=float)))
    if fmt in ("bed6", "bed12"):
        cols += [("name", ["n%d" % i for i in idx]), ("score", ints(3)), ("strand", ["+-"[i % 2] for i in idx])]
    if fmt == "bed12":
        cols += [("thick_start", ints(4)), ("thick_end", ints(5)), ("item_rgb", ["0,0,0"] * len(rows)),
                 ("block_count", np.array([len(r[6]) for r in rows], dtype=np.int64)),
                 ("block_sizes", _ragged([r[6] for r in rows])), ("block_starts", _ragged([r[7] for r in rows]))]
    return cols


def _tbl_class(fmt):
    from bionumpy import datatypes as dt
    return {"bed": dt.Interval, "bed6": dt.Bed6, "bdg": dt.BedGraph, "bed12": dt.Bed12}[fmt]


def _tbl_numeric_names(fmt):
    return list(_TBL_INT[fmt]) + list(_TBL_LIST.get(fmt, {})) + list(_TBL_FLOAT.get(fmt, {})) + (["block_count"] if fmt == "bed12" else [])


def ev_table_sel(col, case, tmp):
    """a table whose rows are a selection of another table, written to a file"""
    import bionumpy as bnp
    fmt, rows, steps, hist = case["fmt"], case["rows"], case["sel"], case["hist"]
    col.case(case, contract="write:selected-rows:%s:%s" % (fmt, hist))
    # signature class: the numbers are formatted from (selections of) arrays / the parsed text of the fields is moved
    tag = "%s_write:selected-rows:%s" % (fmt, "parsed-text-moved" if hist in ("read", "read-touch") else "columns-formatted")
    sel_rows = sel_py(rows, steps)
    bt = _tbl_buffer_type(fmt)
    kw = {"buffer_type": bt} if bt is not None else {}
    ext = {"bed": ".bed", "bed6": ".bed", "bed12": ".bed", "bdg": ".bdg"}[fmt]
    p_in = _bed_path(tmp, col, ".in" + ext)
    p_out = _bed_path(tmp, col, ".out" + ext)

    def read_all():
        with open(p_in, "w") as f:
            f.write("".join(_tbl_line(fmt, r) + "\n" for r in rows))
        fh = bnp.open(p_in, **kw)
        try:
            return fh.read()
        finally:
            fh.close()

    def produce():
        cls = _tbl_class(fmt)
        if hist == "fresh":                     # table built from arrays, then rows selected
            d = sel_lib(cls(*[c for _, c in _tbl_columns(fmt, rows)]), steps)
        elif hist == "fresh-from-selected-columns":   # every numeric column is itself a selection of a longer column
            full = dict(_tbl_columns(fmt, rows))
            part = _tbl_columns(fmt, sel_rows)
            num = set(_tbl_numeric_names(fmt))
            d = cls(*[(sel_lib(full[n], steps) if n in num else c) for n, c in part])
        elif hist == "read":                    # parsed table, rows selected (text of the fields is moved)
            d = sel_lib(read_all(), steps)
        elif hist == "read-touch":              # numeric columns parsed before the selection
            d = read_all()
            for n in _tbl_numeric_names(fmt):
                getattr(d, n)
            d = sel_lib(d, steps)
        elif hist == "read-set":                # numeric columns re-assigned before the selection
            d = read_all()
            full = dict(_tbl_columns(fmt, rows))
            for n in _tbl_numeric_names(fmt):
                setattr(d, n, full[n])
            d = sel_lib(d, steps)
        elif hist == "read-sel-set":            # rows selected, then numeric columns re-assigned with selected columns
            d = sel_lib(read_all(), steps)
            full = dict(_tbl_columns(fmt, rows))
            for n in _tbl_numeric_names(fmt):
                setattr(d, n, sel_lib(full[n], steps))
        else:
            raise ValueError(hist)
        with bnp.open(p_out, "w", **kw) as f:
            f.write(d)
        return open(p_out).read()
    out = col.guarded(produce, tag, case)
    for p in (p_in, p_out):
        if os.path.exists(p):
            os.remove(p)
    if out is None:
        return
    lines = out.split("\n")
    if not col.check(out.endswith("\n") and len(lines) == len(sel_rows) + 1, tag + ":line-count", case, repr(out[:200])):
        return
    ntok = _TBL_NTOK[fmt]
    for r, line in zip(sel_rows, lines):
        toks = line.split("\t")
        if len(toks) != ntok:
            col.fail(tag + ":line-structure", case, "line %r" % line)
            continue
        etoks = _tbl_line(fmt, r).split("\t")
        int_pos = {"bed": (1, 2), "bed6": (1, 2, 4), "bdg": (1, 2), "bed12": (1, 2, 4, 6, 7, 9)}[fmt]
        list_pos = (10, 11) if fmt == "bed12" else ()
        float_pos = (3,) if fmt == "bdg" else ()
        for k, (g, e) in enumerate(zip(toks, etoks)):
            if k in int_pos:
                if g != e:
                    col.fail(tag + ":int-column:" + fmt_class(int(e), g), case, "token %d: value %s written as %r (row %r)" % (k, e, g, r))
            elif k in list_pos:
                parts = g.split(",")
                if parts and parts[-1] == "":        # a trailing comma is permitted by the BED12 format
                    parts = parts[:-1]
                eparts = e.split(",")
                if parts != eparts:
                    sub = "wrong-join"
                    bad = [(int(b), a) for a, b in zip(parts, eparts) if a != b]
                    if len(parts) == len(eparts) and all(_same_value(a, b) for b, a in bad):
                        sub = "element:" + fmt_class(bad[0][0], bad[0][1])   # grouping right, an element not canonical
                    col.fail(tag + ":int-list:" + sub, case, "token %d: list %s written as %r" % (k, e, g))
            elif k in float_pos:
                try:
                    ok = float(g) == float(r[3])
                except ValueError:
                    ok = False
                if not ok:
                    col.fail(tag + ":float-column:text-does-not-denote-the-double", case, "%r written as %r" % (r[3], g))
            elif g != e:
                col.fail(tag + ":string-column", case, "token %d: %r expected %r" % (k, g, e))


EVAL = {"fmt": ev_fmt, "int_to_str": ev_int_to_str, "parse": ev_parse, "joinlists": ev_joinlists, "bed_read": ev_bed_read,
        "bed_write": ev_bed_write, "bed6": ev_bed6, "bed12": ev_bed12, "matrix_csv": ev_matrix_csv, "matrix_parse": ev_matrix_parse,
        "fparse": ev_fparse, "froundtrip": ev_froundtrip, "bdg": ev_bdg, "reject": ev_reject,
        "joinlists_sel": ev_joinlists_sel, "fmt_view": ev_fmt_view, "parse_sel": ev_parse_sel, "matrix_csv_view": ev_matrix_csv_view,
        "table_sel": ev_table_sel}


# ----------------------------------------------------------------------------------------------- scopes

def special_ints(kset=(-2, -1, 0, 1, 2), extra=True):
    vals = {0}
    for d in range(0, 19):
        for k in kset:
            v = 10 ** d + k
            if v >= 0:
                vals.add(v)
                vals.add(-v)
    for k in range(0, 3):
        vals.add(I64MAX - k)
        vals.add(I64MIN + k)
    if extra:
        for b in (7, 8, 15, 16, 31, 32, 53, 62):
            for k in (-1, 0, 1):
                vals.add(2 ** b + k)
                vals.add(-(2 ** b + k))
        for d in range(1, 19):
            vals.add(5 * 10 ** (d - 1))
            vals.add(int("1" * d))
            vals.add(-int("9" * d))
        vals.add(9 * 10 ** 18)
    return sorted(vals)


def reduced_ints():
    vals = {0, I64MAX, I64MIN, I64MIN + 1}
    for d in range(1, 19):
        for v in (10 ** d - 1, 10 ** d):
            vals.add(v)
            vals.add(-v)
    vals.add(1)
    vals.add(-1)
    return sorted(vals)


def int_text_variants(v, thorough):
    sign = "-" if v < 0 else ""
    digs = str(abs(v))
    out = [str(v)]
    if v >= 0:
        out.append("+" + digs)
        out.append("+0" + digs)
    out.append(sign + "0" + digs)
    out.append(sign + "00" + digs)
    for w in ((19, 20, 25, 40) if thorough else (19, 20)):
        if len(digs) < w:
            out.append(sign + digs.zfill(w))
    if v == 0:
        out += ["-0", "-00"]
    return out


def near_power_ints(thorough):
    """+-(10^d - k), d = 15..18: the integers that are within a few double ulps below a power of ten (10^16-1, 10^17-8..,
    10^18-64.. round UP to the power of ten as doubles), their mirror images above it, and 2^b +- k for b = 54..63"""
    ks = range(1, 131) if thorough else (1, 2, 3, 4, 5, 7, 8, 9, 15, 16, 17, 31, 32, 33, 63, 64, 65, 66, 127, 128, 129)
    vals = set()
    for d in range(15, 19):
        for k in ks:
            for v in (10 ** d - k, 10 ** d + k):
                vals.add(v)
                vals.add(-v)
    for b in range(54, 64):
        for k in ((-3, -2, -1, 0, 1, 2, 3) if thorough else (-1, 0, 1)):
            v = 2 ** b + k
            if v <= I64MAX:
                vals.add(v)
                if -v > I64MIN:
                    vals.add(-v)
    return sorted(vals)


def _dedupe(steps_list, n):
    """drop selections that pick no row, and repeated (kind, picked rows) pairs"""
    seen, out = set(), []
    for steps in steps_list:
        picked = sel_py(list(range(n)), [st for st in steps if st[0] != "cols"])
        if not picked:
            continue
        key = (tuple(st[0] for st in steps), tuple(picked), tuple(tuple(st[1:]) for st in steps if st[0] == "cols"))
        if key not in seen:
            seen.add(key)
            out.append(steps)
    return out


def row_selections(n, rng, level):
    """selections of the rows of an n-row array.  level 2: every ordered selection without repetition (n <= 4) or every
    permutation (n <= 6), every mask, every slice with step +-1, +-2, +-3, repeats, two selections chained;
    level 1: every mask and slice, the structured permutations + seeded ones; level 0: a fixed dozen"""
    out = []
    ident = list(range(n))
    perms = [ident[::-1], ident[1:] + ident[:1], ident[-1:] + ident[:-1], ident[::2] + ident[1::2], ident[1::2] + ident[::2]]
    if n >= 3:
        perms.append([1, 0] + ident[2:])
        perms.append(ident[:-2] + [n - 1, n - 2])
    if level == 0:
        out += [[["idx", q]] for q in perms[:4]]
        out += [[["slice", None, None, -1]], [["slice", 1, None, 1]], [["slice", n // 2, None, 1]], [["slice", None, None, 2]], [["slice", 1, n - 1, 1]]]
        out += [[["mask", [i % 2 for i in range(n)]]], [["mask", [int(i not in (0, n - 2)) for i in range(n)]]], [["mask", [int(i == n - 1) for i in range(n)]]]]
        out += [[["idx", ident[::-1]], ["slice", 1, None, 1]], [["mask", [int(i != 0) for i in range(n)]], ["slice", None, None, -1]]]
        return _dedupe(out, n)
    assert n <= 8, "exhaustive masks / slices are for small arrays"
    slices = [(a, b, st) for st in (1, -1, 2, -2, 3, -3) for a in [None] + list(range(n)) for b in [None] + list(range(n + 1))]
    masks = [[(m >> i) & 1 for i in range(n)] for m in range(1, 2 ** n)]
    if level >= 2 and n <= 4:
        out += [[["idx", q]] for q in sub_batches(ident)]
    elif level >= 2 and n <= 6:
        out += [[["idx", list(q)]] for q in itertools.permutations(ident)]
        out += [[["idx", list(q)]] for r in (1, 2, 3) for q in itertools.permutations(ident, r)]
    else:
        out += [[["idx", q]] for q in perms]
        for _ in range(12 if level == 1 else 40):
            q = list(ident)
            rng.shuffle(q)
            out.append([["idx", q[: rng.randint(max(1, n - 2), n)]]])
        out += [[["idx", [i]]] for i in ident]
    out += [[["idx", [i, j]]] for i in ident for j in ident if i == j or level >= 2]           # repeated rows
    out += [[["idx", [i, j, i]]] for i in ident[:3] for j in ident[-2:]]
    out += [[["slice", a, b, st]] for a, b, st in slices if level >= 2 or abs(st) <= 2]
    out += [[["mask", m]] for m in (masks if (n <= 6 or level >= 2) else masks[:: max(1, len(masks) // 40)])]
    # two selections chained
    firsts = [["idx", ident[::-1]], ["idx", ident[1:] + ident[:1]], ["slice", 1, None, 1], ["slice", None, None, -1], ["slice", None, None, 2],
              ["mask", [int(i != 1 % n) for i in range(n)]]]
    for f in firsts:
        m = len(sel_py(ident, [f]))
        if m == 0:
            continue
        seconds = [["slice", 1, None, 1], ["slice", None, None, -1], ["slice", None, m - 1, 1], ["idx", list(range(m))[::-1]],
                   ["idx", list(range(m))[1:] + [0]], ["mask", [i % 2 for i in range(m)]], ["mask", [int(i != 0) for i in range(m)]]]
        for g in seconds:
            out.append([f, g])
    return _dedupe(out, n)


def ragged_selections(rows, rng, level):
    """row selections plus column slices (the same slice of every row), alone and chained with a row selection"""
    n = len(rows)
    out = list(row_selections(n, rng, level))
    width = max(len(r) for r in rows)
    cols = [["cols", a, b] for a in [None] + list(range(1, width)) for b in [None, -1] + list(range(1, width))]
    keep = []
    for c in cols:
        if c[1] is None and c[2] is None:
            continue
        if sum(len(r) for r in sel_py(rows, [c])) == 0:
            continue
        keep.append(c)
    out += [[c] for c in keep]
    for c in keep[:: (1 if level >= 2 else 3)]:
        for rs in ([["idx", list(range(n))[::-1]]], [["slice", 1, None, 1]], [["mask", [int(i != 0) for i in range(n)]]]):
            if sum(len(r) for r in sel_py(rows, rs + [c])) > 0:
                out.append(rs + [c])
                out.append([c] + rs)
    # a selection must contain at least one number (an empty batch has nothing to convert)
    return [s for s in out if sum(len(r) for r in sel_py(rows, s)) > 0]


def list_bases(thorough):
    """RaggedArrays of integers with different text widths and row lengths"""
    bases = [
        [[1, 22, 333], [4444, 5], [66, 7, 88888, 9], [10], [1234567, -2], [0, 100, -1000]],
        [[7], [-42, 10 ** 9], [10 ** 18, 0, -5], [99, 100]],
        [[1, 20], [], [300, -4, 5], [60000]],
        [[10 ** 16 - 1, 5], [-(10 ** 17) + 3, 10 ** 18 - 1, 0], [7], [I64MAX, -(10 ** 15)]],
        [[11, 22], [33], [44, 55, 66]],                                  # equal widths: only the grouping can go wrong
        [[5], [-60], [700]],
    ]
    if thorough:
        bases += [
            [[-1], [10, -100, 1000, -10000], [I64MIN + 1, I64MAX], [0, 0], [12345678901]],
            [[10 ** w for w in range(i, 19, 5)] for i in range(5)],
            [[3, 1, 4, 1, 5, 9, 2, 6], [53], [58, 979], [3238462643383279, 50288], [-4, -19, -716939937510]],
            [[9], [98], [987], [9876], [98765], [987654], [9876543], [98765432]],
        ]
    return bases


def table_rows(fmt, n, variant):
    """n python rows of a table with numbers of different widths (variant 1: values just below powers of ten >= 10^15)"""
    rows = []
    for i in range(n):
        if variant == 0:
            start = (i * 37) % 11 * 10 ** ((i * 5) % 7)
            stop = start + 10 ** (i % 4) + i
            score = (-1) ** i * (10 ** (i % 6) - 1 + i)
        else:
            start = 10 ** (15 + i % 4) - (1 + 7 * (i % 3))
            stop = 10 ** (18 - i % 4) - 2 ** (i % 7)
            score = (-1) ** i * (10 ** (16 + i % 3) - 1 - (i % 2) * 63)
        r = [i, start, stop]
        if fmt == "bdg":
            r.append([1.5, -2e-5, 7.0, 0.001, 1e300, 123456.789, -0.0625, 3.0, 1e-7, 2.5e10][(i + variant * 3) % 10])
        if fmt in ("bed6", "bed12"):
            r.append(score)
        if fmt == "bed12":
            k = 1 + (i * 3 + variant) % 4
            sizes = [(10 ** ((i + j * (2 + variant)) % 7) + j) * (1 + (i + j) % 3) for j in range(k)]
            if variant:
                sizes[-1] = 10 ** (16 + i % 3) - 1 - i
            starts = [sum(sizes[:j]) + j * 10 ** (i % 3) for j in range(k)]
            r += [start + 1, stop - 1 if stop > start + 1 else stop, sizes, starts]
        rows.append(r)
    return rows


HISTS = ("fresh", "fresh-from-selected-columns", "read", "read-touch", "read-set", "read-sel-set")


def sub_batches(base):
    """every non-empty ordered selection without repetition (every permutation of every sub-batch)"""
    n = len(base)
    for r in range(1, n + 1):
        for idx in itertools.permutations(range(n), r):
            yield [base[i] for i in idx]


def rand_int(rng):
    w = rng.randint(1, 19)
    v = rng.randint(10 ** (w - 1) if w > 1 else 0, 10 ** w - 1)
    v = min(v, I64MAX)
    return -v if rng.random() < 0.5 else v


def int_base_batches(thorough):
    bases = [
        [7, -42, 10 ** 9, -(10 ** 18)],
        [0, 10, -100, 1000],
        [-1, 99, 10 ** 10 - 1, I64MAX],
        [I64MIN + 1, 5, -50, 500],
        [10 ** 18, 9, 10 ** 17, -9],
        [10 ** 14 - 1, 10 ** 14, -(10 ** 14), 1],
        [123, 123, -123, 0],
        [10 ** 5, 10 ** 4 - 1, -(10 ** 5), -(10 ** 4 - 1)],
        [10 ** 12 + 1, -3, 10 ** 3 - 2, -(10 ** 12) + 1],
        [I64MAX - 1, -(10 ** 2), 10 ** 1, 0],
        [10 ** 15 - 1, 3, -(10 ** 16 - 1), 10 ** 16],      # contains values of the log10-rounding zone
        [I64MIN, 1, -1, 10 ** 18],
    ]
    if thorough:
        bases += [b + [x] for b, x in zip(bases, [-(10 ** 7), 10 ** 18 + 2, -10, 10 ** 13, 0, -(10 ** 9) - 1, 99999, 10 ** 18, 7, 8, -8, 0])]
        bases += [[10 ** (w - 1) * (-1 if w % 2 else 1) for w in ws] for ws in
                  ((1, 19, 2, 18, 3), (19, 19, 1, 1, 10), (5, 6, 7, 8, 9), (11, 13, 17, 19, 2))]
    return bases


def float_digit_strings(thorough, rng):
    out = []
    for n in range(1, 18):
        pats = ["9" * n, "12345678912345678"[:n], ("1" + "0" * (n - 2) + "1") if n >= 2 else "1", ("7" + "0" * (n - 2) + "3") if n >= 2 else "5"]
        if thorough:
            for _ in range(3):
                pats.append(str(rng.randint(1, 9)) + "".join(rng.choice("0123456789") for _ in range(max(0, n - 2))) + (str(rng.randint(1, 9)) if n >= 2 else ""))
        seen = []
        for p in pats:
            if p not in seen:
                seen.append(p)
        out.append((n, seen))
    return out


E_QUICK = [-300, -299, -200, -101, -100, -99, -23, -22, -10, -9, -5, -1, 0, 1, 2, 5, 9, 10, 15, 16, 22, 23, 99, 100, 101, 200, 299, 300]


def exp_forms(e):
    out = [str(e)]
    if e >= 0:
        out.append("+%d" % e)
    if abs(e) < 10:
        out.append("%s%02d" % ("-" if e < 0 else "+", abs(e)))   # the form Python's repr uses: 1e-05, 1e+05 needs 2 digits
    return out


def float_texts(thorough, rng):
    """yield (group, text); every text denotes a value with magnitude in [1e-300, 1e301) or zero"""
    for n, pats in float_digit_strings(thorough, rng):
        for pi, digs in enumerate(pats):
            for sign in ("", "-"):
                # decimal forms: the point at every position
                for p in range(0, n + 1):
                    if p == 0:
                        yield "dec", sign + "." + digs
                        yield "dec", sign + "0." + digs
                    elif p == n:
                        yield "dec", sign + digs
                        yield "dec", sign + digs + "."
                        yield "dec", sign + digs + ".0"
                    else:
                        yield "dec", sign + digs[:p] + "." + digs[p:]
                for z in range(1, 6):
                    if z + n <= 22:
                        yield "dec", sign + "0." + "0" * z + digs
                for z in range(1, 4):
                    yield "dec", sign + digs + "0" * z
                yield "dec", sign + "00" + digs
                # scientific forms
                full = thorough and pi < 2 and n in (1, 2, 8, 15, 16, 17)
                es = range(-300, 301) if full else E_QUICK
                mants = [(digs[0] + ("." + digs[1:] if n > 1 else ""), 0)]
                mants.append((digs, n - 1))
                if n >= 3:
                    mants.append((digs[:2] + "." + digs[2:], 1))
                    mants.append(("0." + digs, -1))
                for m, shift in mants:
                    for e in es:
                        if not (-300 <= e + shift <= 300):
                            continue
                        forms = exp_forms(e) if (not full or e in E_QUICK) else [str(e)]
                        for ef in forms:
                            yield "sci", sign + m + "e" + ef
    for t in ("0", "-0", "0.0", "-0.0", "0.000", "0e0", "0.0e5", "0e-5", "00", "0.", ".0", "1", "-1", "10", "1.0", "1e0", "1e1", "1e-1"):
        yield "dec" if "e" not in t else "sci", t


def float_base_batches():
    return [
        ["1.5", "-22", "3e5", "-4.25e-7"],
        [".5", "123456789.123456789", "1e300", "7"],
        ["-0.001", "1e-300", "99999999999999999", "2.5"],
        ["12", "3.", "-4e+10", "5.0e-10"],
        ["1e5", "2e-5", "-3e0", "4e22"],
        ["0.1", "0.25", "-100.125", "17.000001"],
        ["1234567890123456.7", "1.2345678901234567e-100", "-8", "0.5"],
        ["0", "-0.0", "1e0", "9.9e-1"],
        ["6.02214076e23", "-1.602176634e-19", "299792458", "3.14159"],
        ["-.25", "1e+05", "1e-05", "100"],
    ]


def roundtrip_doubles(thorough, rng):
    """(group, list of doubles) - finite, magnitude 0 or in [1e-300, 1e300]"""
    short = []
    for k in list(range(0, 130)) + [999, 1000, 1001, 12345, 99999, 123456789, 10 ** 14 - 1, 10 ** 15 - 1]:
        for j in (0, 1, 2, 3, 4):
            if len(str(k)) + 0 <= 15:
                short.append(k / 10 ** j)
    short = sorted(set(short + [-x for x in short]))
    yield "short-decimal", short
    yield "powers-of-two", [s * 2.0 ** k for k in range(-996, 997, 1 if thorough else 7) for s in (1, -1)]
    yield "powers-of-ten", [s * float("1e%d" % k) for k in range(-300, 301) for s in (1, -1)]
    nb = []
    for x in (1.0, 2.0, 10.0, 0.1, 1e16, 1e22, 1e23, 1e-5, 1e-4, 1e15, 9007199254740992.0, 0.3, 1 / 3, 2 / 3, 100.0, 1e300, 1e-300):
        y = x
        for _ in range(4):
            y = math.nextafter(y, math.inf)
            nb.append(y)
        y = x
        for _ in range(4):
            y = math.nextafter(y, 0.0)
            nb.append(y)
    yield "neighbours", nb
    n = 20000 if thorough else 2000
    rnd = []
    for _ in range(n):
        m = rng.random() + 1.0
        e = rng.randint(-996, 995)
        rnd.append((m * 2.0 ** e) * (1 if rng.random() < 0.5 else -1))
    yield "random-17-digit", rnd
    yield "random-short", [round(rng.uniform(-1e6, 1e6), rng.randint(0, 6)) for _ in range(n)]
    yield "integers-as-doubles", [float(v) for v in special_ints(extra=False) if abs(v) < 2 ** 53]


# ----------------------------------------------------------------------------------------------- driver

def run(tier="quick", seed=0):
    thorough = tier != "quick"
    col = Collector(PID, tier, seed,
                    "exhaustive over the special integers (0, +-(10^d+k), int64 extremes, 2^b+-1) as singletons, every ordered pair of a "
                    "reduced set, whole-set batches in several orders, every permutation of every sub-batch of small base batches "
                    "(formatting, parsing with sign/'+'/leading zeros, through strops and through BED/BED6/BED12/bedGraph/matrix "
                    "files); float texts: 1..17 significant digits x digit patterns x sign x every point position x exponent grid; "
                    "doubles for the round trip; integers within 130 of 10^15..10^18 and within 3 of 2^54..2^63 through every integer "
                    "formatter; operation histories: each formatter / parser applied to a non-contiguous selection (every ordered "
                    "sub-selection / permutation, mask, slice with step +-1..3, repeated rows, column slices, two selections chained) of "
                    "ragged integer lists, integer arrays, matrices and BED/BED6/BED12/bedGraph tables (built fresh, from selected columns, "
                    "or read with columns touched / re-assigned before / after the selection); "
                    "seeded random values above the bounds. distinct = distinct (operation, input); "
                    "non-trivial = every case (each converts at least one number)")
    col.bounds = {"integers": "0, +-(10^d+k) d=0..18 k=-2..2, int64 min/max +-0..2, +-(2^b+k) b in {7,8,15,16,31,32,53,62}, 5*10^d, 1..1, -9..9",
                  "batch_sizes": "1, 2 (all ordered pairs of %d values), 4%s (all ordered sub-batches), whole set (~%d)" % (
                      len(reduced_ints()) if not thorough else len(special_ints((-1, 0, 1), False)), "/5" if thorough else "", len(special_ints())),
                  "int_text_variants": "canonical, '+', 1-2 leading zeros, zero-padded to 19/20%s, -0" % ("/25/40" if thorough else ""),
                  "float_sig_digits": "1..17", "float_exponents": "-300..300 (%s)" % ("all for 12 digit strings, grid of 28 otherwise" if thorough else "grid of 28"),
                  "float_tolerance_ulp": ULP_TOL, "random_batches": 5000 if thorough else 300, "list_rows": "1..3 rows x 0..3 elements",
                  "near_power_integers": "+-(10^d +- k) d=15..18 k=%s; +-(2^b + k) b=54..63 |k|<=%d" % ("1..130" if thorough else "1..9,15..17,31..33,63..66,127..129", 3 if thorough else 1),
                  "selections": "bases of 3..%d rows x 0..8 elements: %s; sorted / masked / reversed / tail / chained selections of random batches of %s rows; "
                                "tables of 4..6 rows x 6 column histories%s, 40%s random rows" % (
                                    8 if thorough else 6, "all ordered sub-selections (<=4 rows) / all permutations (<=6 rows), all masks, all slices step +-1..3, repeats, 42 chains, column slices" if thorough
                                    else "all masks, all slices step +-1,+-2, structured + 12 seeded permutations, repeats, 42 chains, column slices",
                                    "8..1000" if thorough else "8..200", " (exhaustive selections for 4 rows)" if thorough else " (a dozen selections each; BED12 lists: all masks/slices for 4 rows)", "..300" if thorough else ""),
                  "seed": seed}
    _single.clear()
    rng = col.rng
    V = special_ints()
    R = reduced_ints() if not thorough else special_ints((-1, 0, 1), False)
    stop = [False]

    with TmpDir() as tmp:
        def go(case):
            if stop[0]:
                return
            EVAL[case["k"]](col, case, tmp)
            if col.evaluations % 64 == 0 and col.out_of_time():
                stop[0] = True

        # ---- formatting integers
        for v in V:
            go({"k": "fmt", "vals": [v]})
            if v >= 0:
                go({"k": "int_to_str", "v": v})
        for u in R:
            for v in R:
                go({"k": "fmt", "vals": [u, v]})
        whole = [V, V[::-1], [v for v in V if v >= 0], [v for v in V if v < 0],
                 [10 ** (w - 1) for w in range(1, 20)], [10 ** (w - 1) for w in range(19, 0, -1)],
                 [(-1) ** w * 10 ** (w - 1) for w in range(1, 20)], [-(10 ** w - 1) for w in range(1, 19)],
                 [10 ** w - 1 for w in range(1, 15)], [5] * 7, [-(10 ** 18)] * 3, [0, 0]]
        for _ in range(3):
            s = list(V)
            rng.shuffle(s)
            whole.append(s)
        for b in whole:
            go({"k": "fmt", "vals": b})
        for base in int_base_batches(thorough):
            for sb in sub_batches(base):
                go({"k": "fmt", "vals": sb})

        # ---- parsing integers
        for v in V:
            for t in int_text_variants(v, thorough):
                go({"k": "parse", "texts": [t], "path": "ragged"})
            go({"k": "parse", "texts": [str(v)], "path": "with_missing"})
            if v >= 0:
                go({"k": "parse", "texts": [str(v)], "path": "1d"})
        if thorough:
            T = [str(v) for v in R]
        else:   # one text of every width 1..19 and of every signed width 2..19, plus the extremes
            T = [str(10 ** (w - 1)) for w in range(1, 20)] + [str(-(10 ** w - 1)) for w in range(1, 19)] + ["0", str(I64MAX), str(I64MIN)]
        T += ["+" + str(10 ** d) for d in (0, 5, 18)] + ["007", "-007", "+0", "-0", "0000000000000000000", "-00000000000000000009", str(I64MAX).zfill(25)]
        for a in T:
            for b in T:
                go({"k": "parse", "texts": [a, b], "path": "ragged"})
        wholeT = [[str(v) for v in b] for b in whole]
        wholeT.append([t for v in V for t in int_text_variants(v, thorough)])
        wholeT.append([t for v in V[::-1] for t in int_text_variants(v, thorough)[::-1]])
        for b in wholeT:
            go({"k": "parse", "texts": b, "path": "ragged"})
            go({"k": "parse", "texts": b, "path": "with_missing"})
        for w in (1, 2, 5, 18, 19, 20, 25):
            grp = [str(v).zfill(w) for v in V if v >= 0 and len(str(v)) <= w]
            go({"k": "parse", "texts": grp, "path": "2d"})
            go({"k": "parse", "texts": grp[::-1], "path": "2d"})
            for t in grp[:: max(1, len(grp) // 12)]:
                go({"k": "parse", "texts": [t], "path": "2d"})
        for base in int_base_batches(thorough):
            tb = [str(v) for v in base]
            tb[1] = ("+" + tb[1]) if base[1] >= 0 else tb[1][0] + "00" + tb[1][1:]
            tb[2] = ("0" + tb[2]) if base[2] >= 0 else tb[2]
            for sb in sub_batches(tb):
                go({"k": "parse", "texts": sb, "path": "ragged"})

        # ---- lists of integers joined
        elems = [0, 7, -7, 10, 99, -100, 10 ** 9, -(10 ** 18), 10 ** 18, I64MAX, 10 ** 14 - 1]
        rowsets = []
        for a in elems:
            rowsets.append([[a]])
            for b in elems[:: (1 if thorough else 2)]:
                rowsets.append([[a, b]])
                rowsets.append([[a], [b]])
                rowsets.append([[a, b], [b]])
                rowsets.append([[a], [b, a, b]])
        rowsets += [[[1, 20], [300]], [[1, 20, 300], [4], [50, 6]], [[-1, 0, 10 ** 18], [10 ** 18], [0]], [[0], [0], [0]],
                    [list(range(0, 25))], [[10 ** w for w in range(0, 19)], [-(10 ** w) for w in range(18, -1, -1)]],
                    [[1, 20], [], [300]], [[], [5]], [[5], []]]
        for rows in rowsets:
            for sep in (",", ";"):
                for kl in (False, True):
                    go({"k": "joinlists", "rows": rows, "sep": sep, "keep_last": kl})
        for rows in ([[0, 1, 1], [1]], [[1], [0, 0, 1, 0]], [[0], [1], [1, 1]], [[1, 0, 1, 0, 1, 1]]):
            go({"k": "joinlists", "rows": rows, "sep": "", "keep_last": False})

        # ---- files: integer columns
        NN = [v for v in R if v >= 0]
        for i, u in enumerate(NN):
            for j, v in enumerate(NN):
                if thorough or (i + j) % 3 == 0 or u in (0, I64MAX) or v in (0, I64MAX):
                    go({"k": "bed_read", "rows": [[str(u), str(v)], [str(v), str(u)]]})
        Rq = reduced_ints()
        for i, u in enumerate(Rq):
            for j, v in enumerate(Rq):
                if thorough or (i + 2 * j) % 5 == 0:
                    go({"k": "bed_write", "starts": [u, v], "stops": [v, u]})
        for b in whole:
            nn = [abs(v) if v != I64MIN else 0 for v in b]
            go({"k": "bed_read", "rows": [[str(v), str(w)] for v, w in zip(nn, nn[::-1])]})
            go({"k": "bed_read", "rows": [[str(v), str(w)] for v, w in zip(b, nn)]})
            go({"k": "bed_read", "rows": [[("+" if v >= 0 and i % 2 else "") + str(v), str(w).zfill(3)] for i, (v, w) in enumerate(zip(b, nn))]})
            go({"k": "bed_write", "starts": b, "stops": b[::-1]})
            go({"k": "bed6", "scores": [str(v) for v in b]})
        for v in V:
            go({"k": "bed_read", "rows": [[str(abs(v)) if v != I64MIN else "0", str(v)]]})
            go({"k": "bed_write", "starts": [v], "stops": [-v if v != I64MIN else 0]})
            if thorough:
                go({"k": "bed6", "scores": [str(v)]})
        for base in int_base_batches(False)[: (12 if thorough else 4)]:
            for sb in sub_batches(base):
                go({"k": "bed_read", "rows": [[str(abs(v)) if v != I64MIN else "1", str(v)] for v in sb]})
                go({"k": "bed_write", "starts": sb, "stops": sb[::-1]})

        # ---- files: lists of integers (BED12), matrices
        lst = [[1], [20, 3], [300, 4, 50], [10 ** 9, 0], [0], [7, 10 ** 18, 12], [99, 100, 101, 102]]
        for trailing in (False, True):
            for a in lst:
                go({"k": "bed12", "sizes": [a], "starts": [a[::-1]], "trailing": trailing})
                for b in lst:
                    go({"k": "bed12", "sizes": [a, b], "starts": [[0] * len(a), list(range(len(b)))], "trailing": trailing})
                    if thorough:
                        for c in lst[:4]:
                            go({"k": "bed12", "sizes": [a, b, c], "starts": [a, b, c], "trailing": trailing})
            go({"k": "bed12", "sizes": lst, "starts": lst[::-1][:0] + [list(range(len(x))) for x in lst], "trailing": trailing})
        mats = [[[1]], [[-1, 20]], [[1], [-20]], [[1, 20], [-3, 400]], [[0, 0, 0], [10 ** 18, -(10 ** 18), I64MAX]],
                [[10 ** w for w in range(0, 6)], [-(10 ** w) + 1 for w in range(6, 12)]], [[10 ** 14 - 1, 10 ** 14], [10 ** 3 - 1, 10 ** 3]]]
        for m in mats:
            for sep in (",", "\t"):
                go({"k": "matrix_csv", "m": m, "header": None, "sep": sep})
                go({"k": "matrix_csv", "m": m, "header": ["col%d" % (10 ** j) for j in range(len(m[0]))], "sep": sep})
            for rn in (True, False):
                go({"k": "matrix_parse", "rows": [[str(v) for v in r] for r in m], "type": "int", "rownames": rn})
                go({"k": "matrix_parse", "rows": [[str(v) + (".5" if i % 2 else "e-2") for i, v in enumerate(r)] for r in m if all(abs(v) < 10 ** 15 for v in r)] or [["1.5"]],
                    "type": "float", "rownames": rn})

        # ---- rejection of bytes that are not part of a number
        for c in range(33, 127):
            ch = chr(c)
            if ch not in "0123456789+-":
                go({"k": "reject", "fn": "int", "text": "1" + ch + "2", "ch": ch})
            if ch not in "0123456789+-.e":
                go({"k": "reject", "fn": "float", "text": "1" + ch + "2", "ch": ch})

        # ---- float texts
        texts = {"dec": [], "sci": []}
        seen = set()
        for g, t in float_texts(thorough, rng):
            if t not in seen:
                seen.add(t)
                texts[g].append(t)
        B = 250
        for g in ("dec", "sci"):
            L = texts[g]
            for i in range(0, len(L), B):
                go({"k": "fparse", "texts": L[i:i + B]})
        mixed = texts["dec"] + texts["sci"]
        rng.shuffle(mixed)
        nmix = min(len(mixed), 50000) if thorough else 2400
        for i in range(0, nmix, 40):
            go({"k": "fparse", "texts": mixed[i:i + 40], "indep": True})
        # singletons and pairs: every decimal form for the boundary digit counts, a sample of the rest
        single_set = [t for t in texts["dec"] if len(t.replace("-", "").replace(".", "").strip("0")) in (1, 2, 16, 17)]
        if not thorough:
            single_set = single_set[::7]
        single_set += rng.sample(texts["sci"], min(len(texts["sci"]), 6000 if thorough else 400))
        for t in single_set:
            go({"k": "fparse", "texts": [t]})
        pair_set = ["5", "-5", "1.5", "-.5", "123.", "1e5", "-2.5e-5", "12345678.12345678", "1.2345678901234567e+300", "7e-300", "0.0001", "100000000000000000000"]
        for a in pair_set:
            for b in pair_set:
                go({"k": "fparse", "texts": [a, b], "indep": True})
        for base in float_base_batches():
            for sb in sub_batches(base):
                go({"k": "fparse", "texts": sb, "indep": True})
        for vals in (["1.5", "-2e-5", "7", "0.001", "1e300"], ["3"], ["-0.5", "1e-300"], texts["dec"][5:400:9], texts["sci"][3:4000:57]):
            go({"k": "bdg", "values": vals})
        for i in range(0, len(mixed), 997 if thorough else 4999):
            go({"k": "bdg", "values": mixed[i:i + 30]})

        # ---- float round trip
        for g, ds in roundtrip_doubles(thorough, rng):
            for d in ds[:: max(1, len(ds) // (200 if thorough else 40))]:
                go({"k": "froundtrip", "group": g, "hex": [d.hex()]})
            for i in range(0, len(ds), 200):
                go({"k": "froundtrip", "group": g, "hex": [d.hex() for d in ds[i:i + 200]]})

        # ---- integers just below / above a power of ten >= 10^15 (round to the power as doubles), 2^b +- k: every formatter
        NP = near_power_ints(thorough)
        for v in NP:
            go({"k": "fmt", "vals": [v]})
            if v >= 0:
                go({"k": "int_to_str", "v": v})
        small = [0, -7, 42, -(10 ** 5), 10 ** 9 + 1, -(10 ** 12)]
        np_batches = [NP, NP[::-1], [v for v in NP if v >= 0], [x for i, v in enumerate(NP) for x in ([v, small[i % len(small)]] if i % 3 == 0 else [v])]]
        for b in np_batches:
            go({"k": "fmt", "vals": b})
            go({"k": "parse", "texts": [str(v) for v in b], "path": "ragged"})
            go({"k": "parse", "texts": [str(v) for v in b], "path": "with_missing"})
            go({"k": "bed_write", "starts": b, "stops": b[::-1]})
            go({"k": "bed6", "scores": [str(v) for v in b]})
            nn = [abs(v) for v in b]
            go({"k": "bed_read", "rows": [[str(v), str(w)] for v, w in zip(nn, b)]})
        go({"k": "parse", "texts": [str(v).zfill(19) for v in NP if v >= 0], "path": "2d"})
        step = 1 if thorough else 5
        for i, v in enumerate(NP[::step]):
            go({"k": "parse", "texts": [str(v)], "path": "ragged"})
            if thorough and i % 4 and abs(10 ** len(str(abs(v))) - abs(v)) > 9 and abs(v) - 10 ** (len(str(abs(v))) - 1) > 9:
                continue          # thorough: pairs and one-line files for every 4th value and for all within 9 of the power
            go({"k": "bed_write", "starts": [v], "stops": [-v]})
            for u in small[:3]:
                go({"k": "fmt", "vals": [u, v]})
                go({"k": "fmt", "vals": [v, u]})
        for width in (1, 2, 3):
            for off in range(width):
                chunk = [NP[i:i + width] for i in range(off, len(NP), width)]
                go({"k": "joinlists", "rows": chunk, "sep": ",", "keep_last": bool(off % 2)})
                pos = [[abs(v) for v in r] for r in chunk]
                for i in range(0, len(pos), 40):
                    go({"k": "bed12", "sizes": pos[i:i + 40], "starts": [r[::-1] for r in pos[i:i + 40]], "trailing": False})
        for v in NP[::step]:
            go({"k": "joinlists", "rows": [[v]], "sep": ",", "keep_last": False})
            go({"k": "joinlists", "rows": [[7, v], [v, -30, v]], "sep": ";", "keep_last": False})
        for ncol in (1, 3, 4):
            m = [NP[i:i + ncol] for i in range(0, len(NP) - ncol + 1, ncol)]
            for i in range(0, len(m), 30):
                go({"k": "matrix_csv", "m": m[i:i + 30], "header": None, "sep": ","})
                go({"k": "matrix_csv", "m": m[i:i + 30], "header": ["col%d" % (10 ** j) for j in range(ncol)], "sep": "\t"})

        # ---- formatters / parsers applied to a non-contiguous selection of another array
        lvl = 2 if thorough else 1
        for bi, rows in enumerate(list_bases(thorough)):
            sels = ragged_selections(rows, rng, lvl if (len(rows) <= 4 or thorough) else 1)
            for steps in sels:
                go({"k": "joinlists_sel", "rows": rows, "sel": steps, "sep": ",", "keep_last": False})
            for steps in sels[:: (2 if thorough else 5)]:
                go({"k": "joinlists_sel", "rows": rows, "sel": steps, "sep": ",", "keep_last": True})
                go({"k": "joinlists_sel", "rows": rows, "sel": steps, "sep": ";", "keep_last": False})
        digit_rows = [[0, 1, 1], [1], [9, 8, 7, 6], [5, 0], [2, 3, 4, 5, 6]]
        for steps in ragged_selections(digit_rows, rng, 1):
            go({"k": "joinlists_sel", "rows": digit_rows, "sel": steps, "sep": "", "keep_last": False})
        # sort / filter a larger batch, as one does before writing a file
        for nrows in ((8, 30, 200) if not thorough else (8, 9, 30, 31, 200, 201, 1000)):
            for rep in range(2 if not thorough else 6):
                rows = [[rand_int(rng) for _ in range(rng.randint(1, 5))] for _ in range(nrows)]
                order = sorted(range(nrows), key=lambda i: (rows[i][0], i))                    # stable sort by the first element
                bylen = sorted(range(nrows), key=lambda i: (len(rows[i]), i))
                mask = [int(rng.random() < 0.6) for _ in range(nrows)]
                mask[rng.randrange(nrows)] = 1
                for steps in ([["idx", order]], [["idx", bylen]], [["mask", mask]], [["slice", None, None, -1]], [["slice", nrows // 3, None, 1]],
                              [["idx", order], ["mask", mask]], [["mask", mask], ["slice", None, None, -1]], [["cols", 1, None], ["idx", order]]):
                    if sum(len(r) for r in sel_py(rows, steps)) > 0:
                        go({"k": "joinlists_sel", "rows": rows, "sel": steps, "sep": ",", "keep_last": bool(rep % 2)})

        # ints_to_strings / str_to_int on strided and derived views
        view_vals = [V, [v for v in NP if v != I64MIN][:: (1 if thorough else 3)], [7, -42, 10 ** 9, -(10 ** 18), 0, 10 ** 16 - 1, 123, -5],
                     [(-1) ** w * (10 ** w - 1) for w in range(1, 19)]]
        for vals in view_vals:
            vals = [v for v in vals if v != I64MIN]        # the int64 minimum is a known defect with its own signature
            n = len(vals)
            views = [["sel", [["slice", None, None, -1]]], ["sel", [["slice", None, None, 2]]], ["sel", [["slice", 1, None, 2]]],
                     ["sel", [["slice", None, None, 3]]], ["sel", [["slice", None, None, -2]]], ["sel", [["slice", 2, n - 2, 1]]],
                     ["sel", [["slice", None, None, -1], ["slice", 1, None, 2]]], ["sel", [["mask", [i % 3 != 0 for i in range(n)]]]],
                     ["sel", [["idx", list(range(n))[::-1]], ["slice", None, None, 2]]],
                     ["matrix-col", 2, 0], ["matrix-col", 2, 1], ["matrix-col", 5, 3], ["matrix-row-F", 3, 1], ["ragged-col", 0], ["ragged-col", 2]]
            for vw in views:
                go({"k": "fmt_view", "vals": vals, "view": vw})
            texts = [str(v) for v in vals]
            for steps in row_selections(n, rng, 0):
                go({"k": "parse_sel", "texts": texts, "sel": steps})
        for v in (0, 5, -5, 10 ** 18, -(10 ** 18), 10 ** 17 - 1, I64MAX):
            for n in (1, 2, 5):
                go({"k": "fmt_view", "vals": [v], "view": ["broadcast", n]})
        for base in int_base_batches(False):
            texts = [str(v) for v in base]
            texts[1] = ("+" + texts[1]) if base[1] >= 0 else texts[1][0] + "00" + texts[1][1:]
            for steps in row_selections(len(base), rng, lvl):
                go({"k": "parse_sel", "texts": texts, "sel": steps})
            b5 = [v for v in base if v != I64MIN] + [10 ** 17 - 1]
            for steps in row_selections(len(b5), rng, 1):
                if any(st[0] == "slice" for st in steps):
                    go({"k": "fmt_view", "vals": b5, "view": ["sel", steps]})

        # matrices that are views
        vmats = [[[1, -20, 300], [-4000, 5, 60], [7, 80000, -9], [10 ** 18, 0, -(10 ** 17) + 1]],
                 [[10 ** (r + 3 * c) - r for c in range(4)] for r in range(5)],
                 [[10 ** 16 - 1, 2], [3, 10 ** 17 - 8], [-(10 ** 18) + 64, 5]]]
        for m in vmats:
            for view in ("T", "F", "rows-reversed", "cols-reversed", "every-2nd-row", "every-2nd-col", "inner", "rows-permuted"):
                for sep in (",", "\t"):
                    go({"k": "matrix_csv_view", "m": m, "view": view, "sep": sep, "header": sep == "\t"})

        # tables (files): rows selected from another table, with every history of the columns
        for fmt in ("bed", "bed6", "bed12", "bdg"):
            for variant, n in ((0, 6), (1, 5), (0, 4)):
                rows = table_rows(fmt, n, variant)
                for hist in HISTS:
                    # the histories in which numbers are formatted from a selection get the larger selection sets
                    formats = hist in ("fresh", "fresh-from-selected-columns", "read-set")
                    if thorough:
                        if n == 4:
                            level = 2 if (fmt == "bed12" and formats) or hist == "fresh" else 1
                        else:
                            level = 1 if (fmt == "bed12" and formats) else 0
                    else:
                        level = 1 if (fmt == "bed12" and formats and n == 4) else 0
                        if fmt != "bed12" and hist in ("read", "read-touch") and n != 6:
                            continue
                    for steps in row_selections(n, rng, level):
                        go({"k": "table_sel", "fmt": fmt, "rows": rows, "sel": steps, "hist": hist})
        for nrows in ((40,) if not thorough else (40, 41, 300)):
            for fmt in ("bed12", "bed6", "bed", "bdg"):
                rows = table_rows(fmt, nrows, 0)
                for r in rows:
                    r[1] = abs(rand_int(rng)) // 4
                    r[2] = r[1] + abs(rand_int(rng)) // 4
                    if fmt == "bed12":
                        r[4], r[5] = r[1], r[2]
                order = sorted(range(nrows), key=lambda i: (rows[i][1], i))
                mask = [int(rng.random() < 0.5) for _ in range(nrows)]
                mask[0] = 1
                for steps in ([["idx", order]], [["mask", mask]], [["slice", None, None, -1]], [["slice", 7, None, 1]], [["idx", order], ["mask", mask]]):
                    for hist in HISTS:
                        go({"k": "table_sel", "fmt": fmt, "rows": rows, "sel": steps, "hist": hist})

        # ---- sampling above the bounds (seeded)
        for _ in range(5000 if thorough else 300):
            n = rng.randint(1, 40)
            b = [rand_int(rng) for _ in range(n)]
            go({"k": "fmt", "vals": b})
            tb = [rng.choice(int_text_variants(v, True)) for v in b]
            go({"k": "parse", "texts": tb, "path": "ragged"})
            if _ % 10 == 0:
                go({"k": "bed_write", "starts": b, "stops": b[::-1]})
                go({"k": "bed_read", "rows": [[str(abs(v)), t] for v, t in zip(b, tb)]})
                k = rng.randint(1, 4)
                go({"k": "joinlists", "rows": [b[i:i + k] for i in range(0, len(b), k)], "sep": ",", "keep_last": bool(_ % 20)})
    return col.result()


def replay(case):
    col = Collector(PID, "quick", 0, "replay")
    _single.clear()
    with TmpDir() as tmp:
        EVAL[case["k"]](col, case, tmp)
    if col.failures:
        return False, "; ".join(f["signature"] + ": " + f["message"] for f in col.failures)
    return True, "ok"
