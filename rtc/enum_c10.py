"""C10 bounded stand-in: genome-wide operations respect chromosome boundaries.

Run-time contracts on the real bionumpy functions; oracle = the single-contig operation written in plain Python
(rtc/refmodels/c10_ref.py) applied to each chromosome's entries alone.

Case groups (every case is JSON and replayable through GROUPS[case["k"]]):
  offset   GlobalOffset: local<->global bijection on every valid position, interval round trip, rejection of
           positions/intervals outside a chromosome (they would land in the neighbour)
  sets     aggregate operations on a set of intervals: get_mask, get_pileup, merged(d), sorted, array / sequence
           extraction under (stranded) intervals, boolean-mask indexing, Geometry.{get_mask,get_pileup,
           merge_intervals,sort,jaccard}
  elem     element-wise operations with all intervals of the genome at once: clip, extended_to_size, get_location,
           Geometry.{clip,extend_to_size}
  loc      locations: get_windows(flank / window_size), sorted, extract_locations, BinnedGenome.count, map_locations
  array    GenomicArray from_dict/to_dict/[name]/get_data, Genome.get_track / Geometry.get_track from a bedgraph
  spill    an interval that leaves its chromosome: must be rejected or must not change any other chromosome
  fasta    Genome.from_file(.fa / chrom.sizes, default filter) + read_sequence()[stranded intervals]
  many     genomes with more than 256 contigs (and > 65536 for GlobalOffset alone): entries on the contigs around every
           multiple of 256 must be attributed to their own contig by every operation above
  hist     histories on stranded intervals: sorted / indexing / clip / extended_to_size / merged / concatenate / windows
           around the 5' ends (1..2 steps), then a strand-aware step on the result == that step on the rows by hand
  cross    two genome objects over the same chromosomes that number them differently (other order, sort_names, other
           filter, with_ignored_added, one more / fewer chromosome): entries made by one (chromosome column already
           encoded) used with arrays / Geometry / GlobalOffset / map_locations / BinnedGenome of the other must be
           refused or answered for the chromosome NAMED by the entry
"""
import itertools
import os

from .common import Collector, TmpDir
from .refmodels import c10_ref as R

PID = "C10"
ALPH = "ACGT"

# failure classes observed on the unchanged library (judged genuine, see the final report).  Used ONLY to order the
# failure list (new classes first); nothing is skipped or loosened because of this list.
ON_UNCHANGED_TREE = {
    "merged:d=0:exception:AttributeError",
    "merged:d>0:no-entries:exception:IndexError",
    "merged:d>0:chromosome-without-entries:exception:AttributeError",
    "merged:d>0:entries-on-underscore-contig",
    "Geometry.merge_intervals:adjacent-across-boundary:exception:AssertionError",
    "Geometry.get_track:genome-end-not-covered:exception:AssertionError",
    "map_locations:location-mapped-to-interval-ending-at-previous-chromosome-end",
    "get_location:unstranded:stop:wrong-position",
    "GenomicSequence[intervals]:stranded:no-entries:exception:ValueError",
    "GenomicSequence[intervals]:stranded:all-intervals-length-1:exception:AttributeError",
    "history:extended_to_size:result-not-stranded",
    "cross-genome:GenomicArray[mask-of-other-genome]:values-of-other-chromosome",
}


# ----------------------------------------------------------------------------------------------- helpers

def seq_of(ci, n):
    """deterministic, non-periodic, non-palindromic sequence of chromosome number ci"""
    return "".join(ALPH[(i * i + 3 * i * (ci + 1) + ci + (i // 3)) % 4] for i in range(n))


def vals_of(pattern, genome_inc):
    """per-chromosome integer arrays. 'distinct': every genome position has its own value; 'const': one value
    everywhere (one run across all boundaries); 'edge': last value of a chromosome equals first of the next"""
    out = {}
    for ci, (n, s) in enumerate(genome_inc):
        if pattern == "distinct":
            out[n] = [10 * (ci + 1) + i for i in range(s)]
        elif pattern == "const":
            out[n] = [7] * s
        else:  # edge
            out[n] = [100 + ci if i == 0 else (100 + ci + 1 if i == s - 1 else 10 * (ci + 1) + i) for i in range(s)]
            if s == 1:
                out[n] = [100 + ci + 1] if ci % 2 == 0 else [100 + ci]
    return out


_LABELS = {}


def names(x):
    import numpy as np
    from bionumpy.encoded_array import EncodedArray
    enc = getattr(x, "encoding", None)
    if isinstance(x, EncodedArray) and type(enc).__name__ == "StringEncoding":
        hit = _LABELS.get(id(enc))
        if hit is None or hit[0] is not enc:       # decoding all labels of a many-contig genome on every call is slow
            if len(_LABELS) > 16:
                _LABELS.clear()
            hit = _LABELS[id(enc)] = (enc, enc.get_labels())
        labels = hit[1]
        return [labels[int(i)] for i in np.atleast_1d(x.raw())]
    r = x.tolist()
    return r if isinstance(r, list) else [r]


def ivs(x):
    """intervals-like -> [(name, start, stop)]"""
    import numpy as np
    return [(n, int(s), int(e)) for n, s, e in zip(names(x.chromosome), np.atleast_1d(x.start), np.atleast_1d(x.stop))]


def rows(ragged):
    import numpy as np
    out = []
    for r in ragged:
        if hasattr(r, "to_array"):
            r = r.to_array()
        out.append(np.asarray(r).tolist())
    return out


def dict_py(d):
    import numpy as np
    return {k: np.asarray(v).tolist() for k, v in d.items()}


def make_genome(genome, filt, case=None):
    from bionumpy.genomic_data.genome import Genome
    from bionumpy.genomic_data.genome_context import ignore_underscores
    case = case or {}
    d = {n: s for n, s in (case["genome"] if case.get("sort_names") else genome)}   # sort_names: dict in the given order
    kw = {"sort_names": True} if case.get("sort_names") else {}
    if filt == "ign":
        g = Genome.from_dict(d, filter_function=ignore_underscores, **kw)
    else:
        g = Genome.from_dict(d, **kw)
    if case.get("extra_ignored"):
        g = g.with_ignored_added(list(case["extra_ignored"]))
    return g


def make_intervals(entries, strands=None):
    from bionumpy.datatypes import Interval, StrandedInterval
    if not entries:
        return StrandedInterval.empty() if strands is not None else Interval.empty()
    c = [e[0] for e in entries]
    s = [e[1] for e in entries]
    e_ = [e[2] for e in entries]
    if strands is None:
        return Interval(c, s, e_)
    return StrandedInterval(c, s, e_, list(strands))


def make_array(genome_inc, values, ctx):
    import numpy as np
    from bionumpy.genomic_data.genomic_track import GenomicArrayGlobal
    from bionumpy.arithmetics.intervals import GenomicRunLengthArray
    return GenomicArrayGlobal.from_dict(
        {n: GenomicRunLengthArray.from_array(np.array(values[n], dtype=int)) for n, _ in genome_inc}, ctx)


def us(genome, inc):
    """signature qualifier: an included chromosome has '_' in its name (known weak spot of the streamed path)"""
    return ":underscore-contig-included" if any("_" in n for n in inc) else ""


def merged_q(kept, genome, inc):
    """signature qualifier for merged(d>0), which runs through the per-chromosome stream"""
    if not kept:
        return ":no-entries"
    if any("_" in c for c, _, _ in kept):
        return ":entries-on-underscore-contig"
    if any(all(c != n for c, _, _ in kept) for n in inc if "_" not in n):
        return ":chromosome-without-entries"
    return ""


def seq_q(kept):
    if not kept:
        return ":no-entries"
    if all(e - s == 1 for _, s, e in kept):
        return ":all-intervals-length-1"
    return ""


def adjacency(kept, genome_inc, d):
    """do two intervals on different chromosomes come within distance d in concatenated coordinates?"""
    off = dict(zip([n for n, _ in genome_inc], R.offsets([s for _, s in genome_inc])))
    g = sorted((off[c] + s, off[c] + e, c) for c, s, e in kept)
    for (s1, e1, c1), (s2, e2, c2) in itertools.combinations(g, 2):
        if c1 != c2 and s2 <= e1 + d:
            return True
    return False


def parse(case):
    genome = [(n, int(s)) for n, s in case["genome"]]
    if case.get("sort_names"):
        genome = sorted(genome)
    filt = case["filter"]
    inc = R.included_names(genome, filt)
    genome_inc = [(n, s) for n, s in genome if n in inc]
    return genome, filt, inc, genome_inc, dict(genome)


def sorted_ok(got, src, order):
    """genome order: non-decreasing (chromosome rank, start); same multiset as the input"""
    keys = [(order[c], s) for c, s, e in got]
    return keys == sorted(keys) and sorted(got) == sorted(src)


# ----------------------------------------------------------------------------------------------- group: offset

def chk_offset(col, case):
    import numpy as np
    from bionumpy.datatypes import Interval
    genome, filt, inc, genome_inc, sizes = parse(case)
    g = col.guarded(lambda: make_genome(genome, filt, case), "Genome.from_dict", case)
    if g is None:
        return
    go = g.get_genome_context().global_offset
    total = sum(s for _, s in genome_inc)
    col.case({"c": "size", **case}, contract="genome size")
    col.check(int(g.size) == total and int(go.total_size()) == total, "size:not-sum-of-included", case,
              "got %r/%r expected %r" % (g.size, go.total_size(), total))
    _offset_contracts(col, {"via": "genome", **case}, case, go, inc, genome_inc, sizes)
    # the same object built directly from a {name: size} dict of the included chromosomes
    from bionumpy.genomic_data.global_offset import GlobalOffset
    go2 = col.guarded(lambda: GlobalOffset({n: s for n, s in genome_inc}), "GlobalOffset(dict)", case)
    if go2 is not None:
        _offset_contracts(col, {"via": "dict", **case}, case, go2, inc, genome_inc, sizes)


def _offset_contracts(col, descr, case, go, inc, genome_inc, sizes):
    import numpy as np
    off = dict(zip(inc, R.offsets([s for _, s in genome_inc])))
    total = sum(s for _, s in genome_inc)
    valid = [(n, x) for n, s in genome_inc for x in range(s)]

    # local -> global, all positions in one call and one by one
    col.case({"c": "from_local", **descr}, contract="from_local_coordinates")
    exp = [off[n] + x for n, x in valid]
    got = col.guarded(lambda: np.asarray(go.from_local_coordinates([n for n, _ in valid], np.array([x for _, x in valid]))).tolist(),
                      "from_local_coordinates", case)
    if got is not None:
        col.check(got == exp, "from_local_coordinates:not-offset-plus-local", case, "got %r expected %r" % (got, exp))
        col.check(sorted(got) == list(range(total)), "from_local_coordinates:not-bijective", case, "got %r" % (got,))
    for n, x in valid:
        col.case({"c": "from_local1", "n": n, "x": x, **descr}, contract="from_local_coordinates")
        g1 = col.guarded(lambda: np.asarray(go.from_local_coordinates([n], np.array([x]))).tolist(), "from_local_coordinates", case)
        if g1 is not None:
            col.check(g1 == [off[n] + x], "from_local_coordinates:not-offset-plus-local", case, "%s:%d -> %r expected %r" % (n, x, g1, off[n] + x))

    # global -> local
    col.case({"c": "to_local", **descr}, contract="to_local_coordinates")
    r = col.guarded(lambda: go.to_local_coordinates(np.arange(total)), "to_local_coordinates", case)
    if r is not None:
        got = list(zip(names(r[0]), np.asarray(r[1]).tolist()))
        col.check(got == valid, "to_local_coordinates:not-inverse", case, "got %r expected %r" % (got, valid))
    for gpos, (n, x) in enumerate(valid):
        col.case({"c": "to_local1", "g": gpos, **descr}, contract="to_local_coordinates")
        r = col.guarded(lambda: go.to_local_coordinates(np.array([gpos])), "to_local_coordinates", case)
        if r is not None:
            got = list(zip(names(r[0]), np.asarray(r[1]).tolist()))
            col.check(got == [(n, x)], "to_local_coordinates:not-inverse", case, "%d -> %r expected %r" % (gpos, got, (n, x)))

    # a position one past the end of a chromosome is not valid: it must not be mapped into the neighbour
    for n, s in genome_inc:
        col.case({"c": "from_local_oob", "n": n, **descr}, contract="from_local_coordinates rejects")
        try:
            r = go.from_local_coordinates([n], np.array([s]))
            col.fail("from_local_coordinates:position-past-chromosome-end-accepted", case, "%s:%d -> %r" % (n, s, r))
        except Exception:
            pass

    # intervals: every [a,b) inside a chromosome, all at once, there and back
    all_iv = [(n, a, b) for n, s in genome_inc for a in range(s) for b in range(a + 1, s + 1)]
    col.case({"c": "interval_roundtrip", **descr}, contract="from_local_interval/to_local_interval")
    gi = col.guarded(lambda: go.from_local_interval(make_intervals(all_iv)), "from_local_interval", case)
    if gi is not None:
        got = list(zip(np.asarray(gi.start).tolist(), np.asarray(gi.stop).tolist()))
        exp = [(off[n] + a, off[n] + b) for n, a, b in all_iv]
        col.check(got == exp, "from_local_interval:not-offset-plus-local", case, "got %r expected %r" % (got, exp))
        back = col.guarded(lambda: ivs(go.to_local_interval(gi)), "to_local_interval", case)
        if back is not None:
            col.check(back == all_iv, "to_local_interval:not-inverse", case, "got %r expected %r" % (back, all_iv))
    # start_ends with clipping: stops beyond the end are cut at the chromosome's own end
    col.case({"c": "start_ends_clip", **descr}, contract="start_ends_from_intervals(do_clip)")
    over = [(n, a, b + 2) for n, a, b in all_iv]
    r = col.guarded(lambda: go.start_ends_from_intervals(make_intervals(over), do_clip=True), "start_ends_from_intervals:clip", case)
    if r is not None:
        got = list(zip(np.asarray(r[0]).tolist(), np.asarray(r[1]).tolist()))
        exp = [(off[n] + a, off[n] + min(b, sizes[n])) for n, a, b in over]
        col.check(got == exp, "start_ends_from_intervals:clip-not-at-own-chromosome-end", case, "got %r expected %r" % (got, exp))
    for n, s in genome_inc:
        for bad in ((n, s, s + 1), (n, s - 1, s + 1)):
            col.case({"c": "interval_oob", "iv": bad, **descr}, contract="from_local_interval rejects")
            try:
                r = go.from_local_interval(make_intervals([bad]))
                col.fail("from_local_interval:interval-past-chromosome-end-accepted", case, "%r -> %r,%r" % (bad, r.start, r.stop))
            except BaseException as e:
                if not isinstance(e, Exception):
                    raise


# ----------------------------------------------------------------------------------------------- group: sets

def chk_sets(col, case):
    import numpy as np
    from bionumpy.genomic_data.geometry import Geometry
    from bionumpy.genomic_data import GenomicSequence
    genome, filt, inc, genome_inc, sizes = parse(case)
    order = {n: i for i, n in enumerate(inc)}
    entries = [(c, int(s), int(e)) for c, s, e in case["entries"]]
    strands = case.get("strands")
    parts = case.get("parts", "US")
    kept = [e for e in entries if e[0] in inc]
    kept_strands = None if strands is None else "".join(st for e, st in zip(entries, strands) if e[0] in inc)
    per = {n: [(s, e) for c, s, e in kept if c == n] for n in inc}
    u = us(genome, inc)

    g = col.guarded(lambda: make_genome(genome, filt, case), "Genome.from_dict", case)
    if g is None:
        return
    ctx = g.get_genome_context()
    values = vals_of(case.get("values", "distinct"), genome_inc)
    seqs = {n: seq_of(i, s) for i, (n, s) in enumerate(genome)}
    ga = col.guarded(lambda: make_array(genome_inc, values, ctx), "GenomicArray.from_dict", case)

    if "U" in parts:
        gi = col.guarded(lambda: g.get_intervals(make_intervals(entries)), "get_intervals", case)
        if gi is None:
            return
        col.case({"c": "kept", **case}, contract="get_intervals keeps exactly the entries of included chromosomes")
        got = col.guarded(lambda: ivs(gi), "get_intervals:read-back", case)
        if got is not None:
            col.check(got == kept, "get_intervals:entries-not-those-of-included-chromosomes", case, "got %r expected %r" % (got, kept))

        exp_mask = {n: R.mask(per[n], sizes[n]) for n in inc}
        exp_pile = {n: R.pileup(per[n], sizes[n]) for n in inc}
        col.case({"c": "mask", **case}, contract="get_mask")
        m = col.guarded(lambda: gi.get_mask(), "get_mask", case)
        if m is not None:
            got = col.guarded(lambda: dict_py(m.to_dict()), "get_mask:to_dict", case)
            if got is not None:
                col.check(got == exp_mask, "get_mask:wrong-per-chromosome-result", case, "got %r expected %r" % (got, exp_mask))
            col.case({"c": "mask_not", **case}, contract="~mask")
            got = col.guarded(lambda: dict_py((~m).to_dict()), "mask-complement", case)
            if got is not None:
                exp = {n: [not b for b in v] for n, v in exp_mask.items()}
                col.check(got == exp, "mask-complement:wrong-per-chromosome-result", case, "got %r expected %r" % (got, exp))
            col.case({"c": "mask_data", **case}, contract="mask.get_data")
            got = col.guarded(lambda: ivs(m.get_data()), "mask.get_data", case)
            if got is not None:
                exp = [(n, s, e) for n in inc for s, e in R.merge(per[n], 0)]
                col.check(got == exp, "mask.get_data:not-per-chromosome-runs", case, "got %r expected %r" % (got, exp))
            if ga is not None:
                col.case({"c": "array_by_mask", **case}, contract="GenomicArray[mask]")
                got = col.guarded(lambda: np.asarray(ga[m]).tolist(), "GenomicArray[mask]", case)
                if got is not None:
                    exp = [v for n in inc for v, b in zip(values[n], exp_mask[n]) if b]
                    col.check(got == exp, "GenomicArray[mask]:wrong-values", case, "got %r expected %r" % (got, exp))
        col.case({"c": "pileup", **case}, contract="get_pileup")
        got = col.guarded(lambda: dict_py(gi.get_pileup().to_dict()), "get_pileup", case)
        if got is not None:
            col.check(got == exp_pile, "get_pileup:wrong-per-chromosome-result", case, "got %r expected %r" % (got, exp_pile))

        for d in case.get("distances", (0, 1)):
            exp = [(n, s, e) for n in inc for s, e in R.merge(per[n], d)]
            col.case({"c": "merged", "d": d, **case}, contract="merged")
            sig = "merged:d=0" if d == 0 else "merged:d>0" + merged_q(kept, genome, inc)
            if sig.endswith(":entries-on-underscore-contig"):
                # one defect, several manifestations (entries dropped / GenomeError / AttributeError): one signature
                try:
                    got = ivs(gi.merged(d))
                    col.check(got == exp, sig, case, "d=%d got %r expected %r" % (d, got, exp))
                except Exception as e:
                    col.fail(sig, case, "d=%d expected %r, raised %s: %s" % (d, exp, type(e).__name__, e))
                continue
            got = col.guarded(lambda: ivs(gi.merged(d)), sig, case)
            if got is not None:
                col.check(got == exp, sig + ":wrong-per-chromosome-result", case, "d=%d got %r expected %r" % (d, got, exp))

        for pname, perm in perms(len(entries), case.get("all_perms", False)):
            src = [entries[i] for i in perm]
            col.case({"c": "sorted", "perm": pname, **case}, contract="sorted")
            got = col.guarded(lambda: ivs(g.get_intervals(make_intervals(src)).sorted()), "sorted", case)
            if got is not None:
                col.check(sorted_ok(got, kept, order), "sorted:not-genome-order", case, "input %r got %r" % (src, got))

        if ga is not None:
            col.case({"c": "extract_unstranded", **case}, contract="GenomicArray[intervals]")
            got = col.guarded(lambda: rows(ga[gi]), "GenomicArray[intervals]:unstranded", case)
            if got is not None:
                exp = [values[c][s:e] for c, s, e in kept]
                col.check(got == exp, "GenomicArray[intervals]:unstranded:wrong-values", case, "got %r expected %r" % (got, exp))

        # Geometry works on plain Interval data; its context ignores '_' names, entries there are outside its domain
        geo_inc = [n for n, _ in genome if "_" not in n]
        if all(c in geo_inc for c, _, _ in entries) and entries:
            geo = col.guarded(lambda: Geometry({n: s for n, s in genome}), "Geometry", case)
            if geo is not None:
                gper = {n: [(s, e) for c, s, e in entries if c == n] for n in geo_inc}
                ggen = [(n, sizes[n]) for n in geo_inc]
                gorder = {n: i for i, n in enumerate(geo_inc)}
                iv = make_intervals(entries)
                gm = {n: R.mask(gper[n], sizes[n]) for n in geo_inc}
                col.case({"c": "geo_mask", **case}, contract="Geometry.get_mask")
                got = col.guarded(lambda: dict_py(geo.get_mask(iv).to_dict()), "Geometry.get_mask", case)
                if got is not None:
                    col.check(got == gm, "Geometry.get_mask:wrong-per-chromosome-result", case, "got %r expected %r" % (got, gm))
                col.case({"c": "geo_pileup", **case}, contract="Geometry.get_pileup")
                got = col.guarded(lambda: dict_py(geo.get_pileup(iv).to_dict()), "Geometry.get_pileup", case)
                if got is not None:
                    exp = {n: R.pileup(gper[n], sizes[n]) for n in geo_inc}
                    col.check(got == exp, "Geometry.get_pileup:wrong-per-chromosome-result", case, "got %r expected %r" % (got, exp))
                for d in case.get("distances", (0, 1)):
                    exp = [(n, s, e) for n in geo_inc for s, e in R.merge(gper[n], d)]
                    adj = adjacency(entries, ggen, d)
                    sig = "Geometry.merge_intervals:" + ("adjacent-across-boundary" if adj else "separated")
                    col.case({"c": "geo_merge", "d": d, **case}, contract="Geometry.merge_intervals")
                    got = col.guarded(lambda: ivs(geo.merge_intervals(iv, d)), sig, case)
                    if got is not None:
                        col.check(got == exp, sig + ":wrong-per-chromosome-result", case, "d=%d got %r expected %r" % (d, got, exp))
                for pname, perm in perms(len(entries), False):
                    src = [entries[i] for i in perm]
                    col.case({"c": "geo_sort", "perm": pname, **case}, contract="Geometry.sort")
                    got = col.guarded(lambda: ivs(geo.sort(make_intervals(src))), "Geometry.sort", case)
                    if got is not None:
                        col.check(sorted_ok(got, entries, gorder), "Geometry.sort:not-genome-order", case, "input %r got %r" % (src, got))
                # jaccard against the set "first base of every chromosome"
                other = [(n, 0, 1) for n in geo_inc]
                om = {n: R.mask([(0, 1)], sizes[n]) for n in geo_inc}
                inter = sum(1 for n in geo_inc for a, b in zip(gm[n], om[n]) if a and b)
                union = sum(1 for n in geo_inc for a, b in zip(gm[n], om[n]) if a or b)
                col.case({"c": "geo_jaccard", **case}, contract="Geometry.jaccard")
                got = col.guarded(lambda: float(geo.jaccard(iv, make_intervals(other))), "Geometry.jaccard", case)
                if got is not None:
                    col.check(abs(got - inter / union) < 1e-12, "Geometry.jaccard:wrong-value", case, "got %r expected %r" % (got, inter / union))

    if "S" in parts and strands is not None:
        gs = col.guarded(lambda: g.get_intervals(make_intervals(entries, strands), stranded=True), "get_intervals:stranded", case)
        if gs is None:
            return
        if ga is not None:
            col.case({"c": "extract_stranded", **case}, contract="GenomicArray[stranded intervals]")
            got = col.guarded(lambda: rows(ga[gs]), "GenomicArray[intervals]:stranded", case)
            if got is not None:
                exp = [values[c][s:e] if st == "+" else values[c][s:e][::-1] for (c, s, e), st in zip(kept, kept_strands)]
                col.check(got == exp, "GenomicArray[intervals]:stranded:wrong-values", case, "got %r expected %r" % (got, exp))
        sq = col.guarded(lambda: GenomicSequence.from_dict(seqs), "GenomicSequence.from_dict", case)
        if sq is not None:
            col.case({"c": "seq_stranded", **case}, contract="GenomicSequence[stranded intervals]")
            got = col.guarded(lambda: [str(x) for x in sq[gs].tolist()], "GenomicSequence[intervals]:stranded" + seq_q(kept), case)
            if got is not None:
                exp = [seqs[c][s:e] if st == "+" else R.revcomp(seqs[c][s:e]) for (c, s, e), st in zip(kept, kept_strands)]
                col.check([x.upper() for x in got] == exp, "GenomicSequence[intervals]:stranded:wrong-sequence", case, "got %r expected %r" % (got, exp))


def perms(n, all_perms):
    """named permutations of range(n) used as unsorted inputs"""
    if n <= 1:
        return [("id", list(range(n)))]
    if all_perms and n <= 4:
        return [("p" + "".join(map(str, p)), list(p)) for p in itertools.permutations(range(n))]
    out = [("rev", list(range(n))[::-1])]
    if n > 2:
        out.append(("rot", list(range(1, n)) + [0]))
        out.append(("evenodd", list(range(0, n, 2)) + list(range(1, n, 2))[::-1]))
    return out


# ----------------------------------------------------------------------------------------------- group: elem

def chk_elem(col, case):
    import numpy as np
    from bionumpy.genomic_data.geometry import Geometry
    genome, filt, inc, genome_inc, sizes = parse(case)
    entries = [(c, int(s), int(e)) for c, s, e in case["entries"]]
    strands = case["strands"]
    kept = [(e, st) for e, st in zip(entries, strands) if e[0] in inc]
    kiv = [e for e, _ in kept]
    kst = [st for _, st in kept]
    g = col.guarded(lambda: make_genome(genome, filt, case), "Genome.from_dict", case)
    if g is None:
        return
    geo_ok = all("_" not in c for c, _, _ in entries)
    geo = Geometry({n: s for n, s in genome}) if geo_ok else None
    gs = col.guarded(lambda: g.get_intervals(make_intervals(entries, strands), stranded=True), "get_intervals:stranded", case)
    gu = col.guarded(lambda: g.get_intervals(make_intervals(entries)), "get_intervals", case)
    if gs is None or gu is None:
        return

    # clip: intervals pushed out of their chromosome on either side by dl / dr
    for dl, dr in case.get("shifts", ((0, 0), (1, 0), (0, 1), (2, 2), (0, 3))):
        src = [(c, s - dl, e + dr) for c, s, e in entries]
        exp = [(c,) + R.clip((s - dl, e + dr), sizes[c]) for c, s, e in kiv]
        col.case({"c": "clip", "dl": dl, "dr": dr, **case}, contract="clip")
        got = col.guarded(lambda: ivs(g.get_intervals(make_intervals(src)).clip()), "clip", case)
        if got is not None:
            col.check(got == exp, "clip:not-clipped-to-own-chromosome", case, "input %r got %r expected %r" % (src, got, exp))
        if geo is not None:
            col.case({"c": "geo_clip", "dl": dl, "dr": dr, **case}, contract="Geometry.clip")
            got = col.guarded(lambda: ivs(geo.clip(make_intervals(src))), "Geometry.clip", case)
            if got is not None:
                exp2 = [(c,) + R.clip((s - dl, e + dr), sizes[c]) for c, s, e in entries]
                col.check(got == exp2, "Geometry.clip:not-clipped-to-own-chromosome", case, "input %r got %r expected %r" % (src, got, exp2))

    for L in case["lengths"]:
        exp = [(c,) + R.extend_to_size((s, e), st, L, sizes[c]) for (c, s, e), st in kept]
        col.case({"c": "extend", "L": L, **case}, contract="extended_to_size")
        got = col.guarded(lambda: ivs(gs.extended_to_size(L)), "extended_to_size", case)
        if got is not None:
            col.check(got == exp, "extended_to_size:wrong-interval", case, "L=%d strands %s got %r expected %r" % (L, "".join(kst), got, exp))
        if geo is not None:
            col.case({"c": "geo_extend", "L": L, **case}, contract="Geometry.extend_to_size")
            got = col.guarded(lambda: ivs(geo.extend_to_size(make_intervals(entries, strands), L)), "Geometry.extend_to_size", case)
            if got is not None:
                exp2 = [(c,) + R.extend_to_size((s, e), st, L, sizes[c]) for (c, s, e), st in zip(entries, strands)]
                col.check(got == exp2, "Geometry.extend_to_size:wrong-interval", case, "L=%d got %r expected %r" % (L, got, exp2))

    for where in ("start", "stop", "center"):
        for stranded in (True, False):
            col.case({"c": "location", "where": where, "stranded": stranded, **case}, contract="get_location")
            src = gs if stranded else gu
            sig = "get_location:%s:%s" % ("stranded" if stranded else "unstranded", where)
            loc = col.guarded(lambda: src.get_location(where), sig, case)
            if loc is None:
                continue
            got = col.guarded(lambda: list(zip(names(loc.chromosome), np.asarray(loc.position).tolist())), sig, case)
            if got is None:
                continue
            ok = len(got) == len(kept) and all(
                gc == c and gp in R.location((s, e), st if stranded else None, where)
                for (gc, gp), ((c, s, e), st) in zip(got, kept))
            col.check(ok, sig + ":wrong-position", case, "intervals %r strands %s got %r" % (kiv, "".join(kst), got))


# ----------------------------------------------------------------------------------------------- group: loc

def chk_loc(col, case):
    import numpy as np
    from bionumpy.datatypes import LocationEntry
    from bionumpy.genomic_data.genomic_intervals import GenomicLocation
    from bionumpy.genomic_data.binned_genome import BinnedGenome
    genome, filt, inc, genome_inc, sizes = parse(case)
    order = {n: i for i, n in enumerate(inc)}
    locs = [(c, int(p)) for c, p in case["locs"]]
    kept = [l for l in locs if l[0] in inc]
    strands = "".join("+-"[i % 2] for i in range(len(locs)))
    g = col.guarded(lambda: make_genome(genome, filt, case), "Genome.from_dict", case)
    if g is None or not locs:
        return
    ctx = g.get_genome_context()
    entry = LocationEntry([c for c, _ in locs], [p for _, p in locs])
    gl = col.guarded(lambda: g.get_locations(entry), "get_locations", case)
    if gl is None:
        return
    col.case({"c": "kept", **case}, contract="get_locations keeps exactly the entries of included chromosomes")
    got = col.guarded(lambda: list(zip(names(gl.chromosome), np.asarray(gl.position).tolist())), "get_locations:read-back", case)
    if got is not None:
        col.check(got == kept, "get_locations:entries-not-those-of-included-chromosomes", case, "got %r expected %r" % (got, kept))
    gls = col.guarded(lambda: GenomicLocation.from_fields(ctx, [c for c, _ in locs], [p for _, p in locs], list(strands)),
                      "GenomicLocation.from_fields:stranded", case)

    for stranded, src in ((False, gl), (True, gls)):
        if src is None:
            continue
        tag = "stranded" if stranded else "unstranded"
        for f in case["flanks"]:
            col.case({"c": "windows_flank", "f": f, "stranded": stranded, **case}, contract="get_windows(flank)")
            got = col.guarded(lambda: ivs(src.get_windows(flank=f)), "get_windows:flank:" + tag, case)
            if got is not None:
                ok = len(got) == len(kept) and all(gc == c and (a, b) in R.windows_flank(p, f, sizes[c]) for (gc, a, b), (c, p) in zip(got, kept))
                col.check(ok, "get_windows:flank:wrong-window", case, "flank=%d locations %r got %r" % (f, kept, got))
        for w in case["window_sizes"]:
            col.case({"c": "windows_size", "w": w, "stranded": stranded, **case}, contract="get_windows(window_size)")
            got = col.guarded(lambda: ivs(src.get_windows(window_size=w)), "get_windows:window_size:" + tag, case)
            if got is not None:
                ok = len(got) == len(kept) and all(gc == c and (a, b) in R.windows_size(p, w, sizes[c]) for (gc, a, b), (c, p) in zip(got, kept))
                col.check(ok, "get_windows:window_size:wrong-window", case, "window_size=%d locations %r got %r" % (w, kept, got))

    for pname, perm in perms(len(locs), case.get("all_perms", False)):
        src = [locs[i] for i in perm]
        col.case({"c": "sorted", "perm": pname, **case}, contract="GenomicLocation.sorted")
        got = col.guarded(lambda: (lambda s: list(zip(names(s.chromosome), np.asarray(s.position).tolist())))(
            g.get_locations(LocationEntry([c for c, _ in src], [p for _, p in src])).sorted()), "locations.sorted", case)
        if got is not None:
            keys = [(order[c], p) for c, p in got]
            col.check(keys == sorted(keys) and sorted(got) == sorted(kept), "locations.sorted:not-genome-order", case, "input %r got %r" % (src, got))

    for pattern in ("distinct", "edge"):
        values = vals_of(pattern, genome_inc)
        ga = col.guarded(lambda: make_array(genome_inc, values, ctx), "GenomicArray.from_dict", case)
        if ga is None:
            continue
        col.case({"c": "extract_locations", "values": pattern, **case}, contract="GenomicArray.extract_locations")
        got = col.guarded(lambda: np.asarray(ga.extract_locations(gl)).tolist(), "extract_locations", case)
        if got is not None:
            exp = [values[c][p] for c, p in kept]
            col.check(got == exp, "extract_locations:wrong-values", case, "got %r expected %r" % (got, exp))

    # BinnedGenome: entries on included chromosomes only (its documented use: chunks of a file on the genome)
    for b in case["bin_sizes"]:
        col.case({"c": "binned", "bin": b, **case}, contract="BinnedGenome.count")
        exp = {n: [0] * ((s + b - 1) // b) for n, s in genome_inc}
        for c, p in kept:
            exp[c][p // b] += 1

        def run_binned():
            bg = BinnedGenome(ctx, bin_size=b)
            half = len(kept) // 2
            for part in (kept[:half], kept[half:]):      # two chunks, counts accumulate
                if part:
                    bg.count(LocationEntry([c for c, _ in part], [p for _, p in part]))
            return dict_py(bg.count_dict), {n: np.asarray(bg[n]).tolist() for n in inc}
        got = col.guarded(run_binned, "BinnedGenome.count", case)
        if got is not None:
            col.check(got[0] == exp, "BinnedGenome.count:bin-outside-own-chromosome", case, "bin=%d locations %r got %r expected %r" % (b, kept, got[0], exp))
            col.check(got[1] == exp, "BinnedGenome.__getitem__:wrong-bins", case, "bin=%d got %r expected %r" % (b, got[1], exp))

    # map_locations: sorted locations (genome order) against intervals; pairs (location, interval) on the same
    # chromosome with start <= p < stop are required, p == stop is tolerated (single-contig convention of
    # find_indices), anything else - in particular a pair on two different chromosomes - is a violation
    for iname, intervals in interval_menus(genome_inc):
        if not kept or not intervals:
            continue
        col.case({"c": "map_locations", "intervals": iname, **case}, contract="map_locations")
        sl = sorted(kept, key=lambda l: (order[l[0]], l[1]))

        def run_map():
            gi = g.get_intervals(make_intervals(intervals))
            r = gi.map_locations(LocationEntry([c for c, _ in sl], [p for _, p in sl]))
            return [(int(str(n)), int(p)) for n, p in zip(r.chromosome.tolist(), np.asarray(r.position).tolist())]
        got = col.guarded(run_map, "map_locations", case)
        if got is None:
            continue
        off = dict(zip(inc, R.offsets([sz for _, sz in genome_inc])))
        required, allowed, cross = [], [], []
        for j, (ic, s, e) in enumerate(intervals):
            for c, p in sl:
                if c == ic and s <= p < e:
                    required.append((j, p - s))
                if c == ic and s <= p <= e:
                    allowed.append((j, p - s))
                if c != ic and off[c] + p == off[ic] + e:
                    cross.append((j, p - s))
        keys = set(got) | set(required)
        missing = [x for x in keys if got.count(x) < required.count(x)]
        extra = [x for x in keys if got.count(x) > allowed.count(x)]
        col.check(not missing, "map_locations:missing-pair", case,
                  "intervals %r locations %r got %r missing %r" % (intervals, sl, got, missing))
        if extra and all(got.count(x) <= allowed.count(x) + cross.count(x) for x in extra):
            col.fail("map_locations:location-mapped-to-interval-ending-at-previous-chromosome-end", case,
                     "intervals %r locations %r got (interval number, offset) %r; allowed %r; pairs only explained by a location and an "
                     "interval on two different chromosomes %r" % (intervals, sl, got, allowed, extra))
        elif extra:
            col.fail("map_locations:location-mapped-to-interval-not-containing-it", case,
                     "intervals %r locations %r got %r extra %r" % (intervals, sl, got, extra))


def interval_menus(genome_inc):
    whole = [(n, 0, s) for n, s in genome_inc]
    every = [(n, a, b) for n, s in genome_inc for a in range(s) for b in range(a + 1, s + 1)]
    lastbase = [(n, s - 1, s) for n, s in genome_inc]
    return [("whole", whole), ("lastbase", lastbase), ("every", every)]


# ----------------------------------------------------------------------------------------------- group: array

def chk_array(col, case):
    import numpy as np
    from bionumpy.datatypes import BedGraph
    from bionumpy.genomic_data.geometry import Geometry
    genome, filt, inc, genome_inc, sizes = parse(case)
    g = col.guarded(lambda: make_genome(genome, filt, case), "Genome.from_dict", case)
    if g is None:
        return
    ctx = g.get_genome_context()
    values = vals_of(case["values"], genome_inc)
    skip = set(case.get("zero", ()))          # chromosomes without any bedgraph entry / all-zero
    for n in skip:
        if n in values:
            values[n] = [0] * sizes[n]
    ga = col.guarded(lambda: make_array(genome_inc, values, ctx), "GenomicArray.from_dict", case)
    if ga is not None:
        col.case({"c": "to_dict", **case}, contract="GenomicArray.to_dict")
        got = col.guarded(lambda: dict_py(ga.to_dict()), "GenomicArray.to_dict", case)
        if got is not None:
            col.check(got == values, "GenomicArray.to_dict:wrong-per-chromosome-values", case, "got %r expected %r" % (got, values))
        for n in inc:
            col.case({"c": "getitem", "n": n, **case}, contract="GenomicArray[name]")
            got = col.guarded(lambda: np.asarray(ga[n].to_array()).tolist(), "GenomicArray[name]", case)
            if got is not None:
                col.check(got == values[n], "GenomicArray[name]:wrong-values", case, "%s got %r expected %r" % (n, got, values[n]))
        col.case({"c": "get_data", **case}, contract="GenomicArray.get_data")
        bg = col.guarded(lambda: ga.get_data(), "GenomicArray.get_data", case)
        if bg is not None:
            ents = [(c, s, e, int(v)) for (c, s, e), v in zip(ivs(bg), np.asarray(bg.value).tolist())]
            rebuilt = {n: [None] * s for n, s in genome_inc}
            inside = True
            for c, s, e, v in ents:
                if c not in rebuilt or not (0 <= s < e <= sizes[c]):
                    inside = False
                    continue
                for p in range(s, e):
                    rebuilt[c][p] = v
            col.check(inside, "GenomicArray.get_data:entry-outside-its-chromosome", case, "entries %r" % (ents,))
            col.check(rebuilt == values, "GenomicArray.get_data:entries-do-not-reproduce-values", case, "entries %r expected %r" % (ents, values))
        col.case({"c": "sum", **case}, contract="GenomicArray.sum")
        got = col.guarded(lambda: int(ga.sum()), "GenomicArray.sum", case)
        if got is not None:
            col.check(got == sum(sum(v) for v in values.values()), "GenomicArray.sum:wrong", case, "got %r" % (got,))

    # bedgraph (sorted in genome order, zero runs left out) -> track
    bed = [(n, s, e, v) for n in inc for s, e, v in R.runs(values[n]) if v != 0]
    if not bed:
        return
    mk = lambda: BedGraph([b[0] for b in bed], [b[1] for b in bed], [b[2] for b in bed], [b[3] for b in bed])
    col.case({"c": "get_track", **case}, contract="Genome.get_track")
    got = col.guarded(lambda: dict_py(g.get_track(mk()).to_dict()), "Genome.get_track", case)
    if got is not None:
        col.check(got == values, "Genome.get_track:wrong-per-chromosome-values", case, "bedgraph %r got %r expected %r" % (bed, got, values))
    if all("_" not in b[0] for b in bed):
        geo_inc = [(n, s) for n, s in genome if "_" not in n]
        gvals = {n: (values[n] if n in values else [0] * s) for n, s in geo_inc}
        last_n, last_s = geo_inc[-1]
        covered = bed[-1][0] == last_n and bed[-1][2] == last_s
        sig = "Geometry.get_track" + ("" if covered else ":genome-end-not-covered")
        col.case({"c": "geo_get_track", **case}, contract="Geometry.get_track")
        got = col.guarded(lambda: dict_py(Geometry({n: s for n, s in genome}).get_track(mk()).to_dict()), sig, case)
        if got is not None:
            col.check(got == gvals, sig + ":wrong-per-chromosome-values", case, "bedgraph %r got %r expected %r" % (bed, got, gvals))


# ----------------------------------------------------------------------------------------------- group: spill

def chk_spill(col, case):
    """one entry leaves its chromosome on the right (stop > size, or start >= size).  The single-contig operation
    rejects it; the genome-wide one must reject it too or, if it answers, every OTHER chromosome must be exactly
    what its own entries give."""
    import numpy as np
    genome, filt, inc, genome_inc, sizes = parse(case)
    entries = [(c, int(s), int(e)) for c, s, e in case["entries"]]
    bad_chrom = case["bad"]
    if bad_chrom not in inc:
        return
    per = {n: [(s, e) for c, s, e in entries if c == n] for n in inc}
    kept = [e for e in entries if e[0] in inc]
    g = make_genome(genome, filt, case)
    ctx = g.get_genome_context()
    values = vals_of("distinct", genome_inc)
    for op in ("get_mask", "get_pileup"):
        col.case({"c": op, **case}, contract="%s: no spill into the neighbour" % op)
        try:
            got = dict_py(getattr(g.get_intervals(make_intervals(entries)), op)().to_dict())
        except Exception:
            continue
        ref = R.mask if op == "get_mask" else R.pileup
        others = {n: ref(per[n], sizes[n]) for n in inc if n != bad_chrom}
        col.check(all(got.get(n) == v for n, v in others.items()), op + ":interval-spills-into-neighbouring-chromosome", case,
                  "entries %r got %r; other chromosomes expected %r" % (entries, got, others))
    ga = make_array(genome_inc, values, ctx)
    col.case({"c": "extract", **case}, contract="GenomicArray[intervals]: no values of the neighbour")
    try:
        got = rows(ga[g.get_intervals(make_intervals(entries))])
    except Exception:
        return
    for (c, s, e), r in zip(kept, got):
        own = set(values[c])
        col.check(all(v in own for v in r), "GenomicArray[intervals]:values-of-neighbouring-chromosome-returned", case,
                  "interval %r -> %r, chromosome has %r" % ((c, s, e), r, values[c]))


# ----------------------------------------------------------------------------------------------- group: fasta

def chk_fasta(col, case):
    import numpy as np
    from bionumpy.genomic_data.genome import Genome
    genome, filt, inc, genome_inc, sizes = parse(case)     # filt is 'ign' here: Genome.from_file default
    entries = [(c, int(s), int(e)) for c, s, e in case["entries"]]
    strands = case["strands"]
    width = case["width"]
    seqs = {n: seq_of(i, s) for i, (n, s) in enumerate(genome)}
    kept = [(e, st) for e, st in zip(entries, strands) if e[0] in inc]
    with TmpDir() as tmp:
        fa = os.path.join(tmp, "g.fa")
        with open(fa, "w") as f:
            for n, s in genome:
                f.write(">%s\n" % n)
                for i in range(0, s, width):
                    f.write(seqs[n][i:i + width] + "\n")
        if case.get("source") == "sizes":
            src = os.path.join(tmp, "g.chrom.sizes")
            with open(src, "w") as f:
                for n, s in genome:
                    f.write("%s\t%d\n" % (n, s))
        else:
            src = fa
        g = col.guarded(lambda: Genome.from_file(src), "Genome.from_file", case)
        if g is None:
            return
        col.case({"c": "from_file", **case}, contract="Genome.from_file sizes / default filter")
        got = col.guarded(lambda: {k: int(v) for k, v in g.get_genome_context().chrom_sizes.items()}, "Genome.from_file:chrom_sizes", case)
        if got is not None:
            col.check(list(got.items()) == genome_inc, "Genome.from_file:chrom-sizes-differ", case, "got %r expected %r" % (got, genome_inc))
        gs = col.guarded(lambda: g.get_intervals(make_intervals(entries, strands), stranded=True), "get_intervals:stranded", case)
        gu = col.guarded(lambda: g.get_intervals(make_intervals(entries)), "get_intervals", case)
        sq = col.guarded(lambda: g.read_sequence(fa), "read_sequence", case)
        if sq is None:
            return
        try:
            if gs is not None:
                col.case({"c": "seq_stranded", **case}, contract="GenomicSequence(fasta)[stranded intervals]")
                got = col.guarded(lambda: [str(x).upper() for x in sq[gs].tolist()], "GenomicSequence(fasta)[intervals]:stranded" + seq_q([e for e, _ in kept]), case)
                if got is not None:
                    exp = [seqs[c][s:e] if st == "+" else R.revcomp(seqs[c][s:e]) for (c, s, e), st in kept]
                    col.check(got == exp, "GenomicSequence(fasta)[intervals]:stranded:wrong-sequence", case, "got %r expected %r" % (got, exp))
            if gu is not None:
                col.case({"c": "seq_unstranded", **case}, contract="GenomicSequence(fasta)[intervals]")
                got = col.guarded(lambda: [str(x).upper() for x in sq[gu].tolist()], "GenomicSequence(fasta)[intervals]:unstranded" + seq_q([e for e, _ in kept]), case)
                if got is not None:
                    exp = [seqs[c][s:e] for (c, s, e), st in kept]
                    col.check(got == exp, "GenomicSequence(fasta)[intervals]:unstranded:wrong-sequence", case, "got %r expected %r" % (got, exp))
                col.case({"c": "seq_by_mask", **case}, contract="GenomicSequence(fasta)[mask]")
                got = col.guarded(lambda: sq[gu.get_mask()].to_string().upper(), "GenomicSequence(fasta)[mask]", case)
                if got is not None:
                    exp = "".join(ch for n in inc for ch, b in zip(seqs[n], R.mask([(s, e) for (c, s, e), _ in kept if c == n], sizes[n])) if b)
                    col.check(got == exp, "GenomicSequence(fasta)[mask]:wrong-sequence", case, "got %r expected %r" % (got, exp))
            for n in inc:
                col.case({"c": "seq_chrom", "n": n, **case}, contract="GenomicSequence(fasta)[name]")
                got = col.guarded(lambda: sq[n].to_string().upper(), "GenomicSequence(fasta)[name]", case)
                if got is not None:
                    col.check(got == seqs[n], "GenomicSequence(fasta)[name]:wrong-sequence", case, "%s got %r expected %r" % (n, got, seqs[n]))
        finally:
            try:
                sq._fasta._f_obj.close()
            except Exception:
                pass


# ----------------------------------------------------------------------------------------------- group: many
# genomes with more than 256 (and, for the coordinate conversion alone, more than 65536) sequence names: the contig
# number of an entry no longer fits in one (two) byte(s); every operation must still attribute an entry on contig
# number k to contig k - not to k-256 / k-65536 - and use k's own offset and size

MANY = "many-contigs:"


def many_genome(case):
    n = int(case["n"])
    base, mul, mod = case["size_rule"]
    ue = int(case.get("underscore_every", 0))
    out = []
    for i in range(n):
        name = "%s%d" % (case["prefix"], i + 1)          # scf1, scf10, scf100 ...: names that are prefixes of others
        if ue and i % ue == ue - 1:
            name += "_alt"
        out.append((name, base + (i * mul) % mod))
    return out


def seq_many(ci, n):
    """as seq_of, but the sequences of contigs k, k-256 and k-65536 differ in their first base"""
    return seq_of(ci + ci // 256 + ci // 65536, n)


def _many_offset(col, descr, case, go, genome_inc, off, sizes, probes):
    import numpy as np
    total = sum(s for _, s in genome_inc)
    valid = [(n, x) for n in probes for x in range(sizes[n])]
    exp = [off[n] + x for n, x in valid]
    col.case({"c": "from_local", **descr}, contract="from_local_coordinates (many contigs)")
    got = col.guarded(lambda: np.asarray(go.from_local_coordinates([n for n, _ in valid], np.array([x for _, x in valid]))).tolist(),
                      MANY + "from_local_coordinates", case)
    if got is not None:
        col.check(got == exp, MANY + "from_local_coordinates:not-own-offset-plus-local", case, "positions %r got %r expected %r" % (valid, got, exp))
    col.case({"c": "to_local", **descr}, contract="to_local_coordinates (many contigs)")
    r = col.guarded(lambda: go.to_local_coordinates(np.array(exp)), MANY + "to_local_coordinates", case)
    if r is not None:
        got = list(zip(names(r[0]), np.asarray(r[1]).tolist()))
        col.check(got == valid, MANY + "to_local_coordinates:not-inverse", case, "global %r got %r expected %r" % (exp, got, valid))
    if total <= 6000 and case.get("whole"):
        col.case({"c": "to_local_all", **descr}, contract="to_local_coordinates (many contigs)")
        r = col.guarded(lambda: go.to_local_coordinates(np.arange(total)), MANY + "to_local_coordinates", case)
        if r is not None:
            got = list(zip(names(r[0]), np.asarray(r[1]).tolist()))
            allv = [(n, x) for n, s in genome_inc for x in range(s)]
            col.check(got == allv, MANY + "to_local_coordinates:not-inverse", case, "all %d positions: first difference at %r" % (
                total, next((i for i, (a, b) in enumerate(zip(got, allv)) if a != b), None)))
        col.case({"c": "from_local_all", **descr}, contract="from_local_coordinates (many contigs)")
        allv = [(n, x) for n, s in genome_inc for x in range(s)]
        got = col.guarded(lambda: np.asarray(go.from_local_coordinates([n for n, _ in allv], np.array([x for _, x in allv]))).tolist(),
                          MANY + "from_local_coordinates", case)
        if got is not None:
            col.check(got == list(range(total)), MANY + "from_local_coordinates:not-bijective", case, "first difference at %r" % (
                next((i for i, (a, b) in enumerate(zip(got, range(total))) if a != b), None),))
    for n in probes:
        col.case({"c": "from_local_oob", "n": n, **descr}, contract="from_local_coordinates rejects (many contigs)")
        try:
            r = go.from_local_coordinates([n], np.array([sizes[n]]))
            col.fail(MANY + "from_local_coordinates:position-past-contig-end-accepted", case, "%s:%d -> %r" % (n, sizes[n], r))
        except Exception:
            pass
    all_iv = [(n, a, b) for n in probes for a in range(sizes[n]) for b in range(a + 1, sizes[n] + 1)]
    col.case({"c": "interval_roundtrip", **descr}, contract="from_local_interval/to_local_interval (many contigs)")
    gi = col.guarded(lambda: go.from_local_interval(make_intervals(all_iv)), MANY + "from_local_interval", case)
    if gi is not None:
        got = list(zip(np.asarray(gi.start).tolist(), np.asarray(gi.stop).tolist()))
        exp = [(off[n] + a, off[n] + b) for n, a, b in all_iv]
        col.check(got == exp, MANY + "from_local_interval:not-own-offset-plus-local", case, "got %r expected %r" % (got, exp))
        back = col.guarded(lambda: ivs(go.to_local_interval(gi)), MANY + "to_local_interval", case)
        if back is not None:
            col.check(back == all_iv, MANY + "to_local_interval:not-inverse", case, "got %r expected %r" % (back, all_iv))
    col.case({"c": "start_ends_clip", **descr}, contract="start_ends_from_intervals(do_clip) (many contigs)")
    over = [(n, a, b + 7) for n, a, b in all_iv]
    r = col.guarded(lambda: go.start_ends_from_intervals(make_intervals(over), do_clip=True), MANY + "start_ends_from_intervals:clip", case)
    if r is not None:
        got = list(zip(np.asarray(r[0]).tolist(), np.asarray(r[1]).tolist()))
        exp = [(off[n] + a, off[n] + min(b, sizes[n])) for n, a, b in over]
        col.check(got == exp, MANY + "start_ends_from_intervals:clip-not-at-own-contig-end", case, "got %r expected %r" % (got, exp))
    for n in probes:
        s = sizes[n]
        bad = (n, s - 1, s + 1)
        col.case({"c": "interval_oob", "iv": bad, **descr}, contract="from_local_interval rejects (many contigs)")
        try:
            r = go.from_local_interval(make_intervals([bad]))
            col.fail(MANY + "from_local_interval:interval-past-contig-end-accepted", case, "%r -> %r,%r" % (bad, r.start, r.stop))
        except BaseException as e:
            if not isinstance(e, Exception):
                raise


def chk_many(col, case):
    import numpy as np
    from bionumpy.datatypes import BedGraph, LocationEntry
    from bionumpy.genomic_data.geometry import Geometry
    from bionumpy.genomic_data.global_offset import GlobalOffset
    from bionumpy.genomic_data import GenomicSequence
    genome = many_genome(case)
    filt = case["filter"]
    inc = R.included_names(genome, filt)
    incset = set(inc)
    genome_inc = [(n, s) for n, s in genome if n in incset]
    sizes = dict(genome)
    all_names = [n for n, _ in genome]
    order = {n: i for i, n in enumerate(inc)}
    off = dict(zip(inc, R.offsets([s for _, s in genome_inc])))
    picks = [(int(i), int(s), int(e), st) for i, s, e, st in case["picks"]]
    entries = [(all_names[i], s, e) for i, s, e, _ in picks]
    strands = "".join(p[3] for p in picks)
    kept = [e for e in entries if e[0] in incset]
    kept_strands = "".join(st for e, st in zip(entries, strands) if e[0] in incset)
    probes = []
    for c, _, _ in kept:
        if c not in probes:
            probes.append(c)

    # coordinate conversion built from the {name: size} dict alone (cheap for any number of contigs)
    go2 = None
    if case.get("whole") or case.get("level") == "offset":
        go2 = col.guarded(lambda: GlobalOffset({n: s for n, s in genome_inc}), MANY + "GlobalOffset(dict)", case)
    if go2 is not None:
        _many_offset(col, {"via": "dict", **case}, case, go2, genome_inc, off, sizes, probes)
    if case.get("level") == "offset":
        return

    g = col.guarded(lambda: make_genome(genome, filt), MANY + "Genome.from_dict", case)
    if g is None:
        return
    ctx = g.get_genome_context()
    total = sum(s for _, s in genome_inc)
    col.case({"c": "size", **case}, contract="genome size (many contigs)")
    col.check(int(g.size) == total, MANY + "size:not-sum-of-included", case, "got %r expected %r" % (g.size, total))
    _many_offset(col, {"via": "genome", **case}, case, ctx.global_offset, genome_inc, off, sizes, probes)

    per = {}
    for c, s, e in kept:
        per.setdefault(c, []).append((s, e))
    values = {n: [1000 * (ci + 1) + i for i in range(s)] for ci, (n, s) in enumerate(genome_inc)}

    def diff(got, exp):
        bad = [n for n in exp if got.get(n) != exp[n]] + [n for n in got if n not in exp]
        return "contigs that differ: %r; got %r expected %r" % (bad[:6], {n: got.get(n) for n in bad[:6]}, {n: exp.get(n) for n in bad[:6]})

    gi = col.guarded(lambda: g.get_intervals(make_intervals(entries)), MANY + "get_intervals", case)
    gs = col.guarded(lambda: g.get_intervals(make_intervals(entries, strands), stranded=True), MANY + "get_intervals:stranded", case)
    if gi is None or gs is None:
        return
    col.case({"c": "kept", **case}, contract="get_intervals (many contigs)")
    got = col.guarded(lambda: ivs(gi), MANY + "get_intervals:read-back", case)
    if got is not None:
        col.check(got == kept, MANY + "get_intervals:entries-not-on-their-own-contig", case, "got %r expected %r" % (got, kept))

    exp_mask = {n: R.mask(per.get(n, []), s) for n, s in genome_inc}
    exp_pile = {n: R.pileup(per.get(n, []), s) for n, s in genome_inc}
    col.case({"c": "mask", **case}, contract="get_mask (many contigs)")
    m = col.guarded(lambda: gi.get_mask(), MANY + "get_mask", case)
    if m is not None:
        got = col.guarded(lambda: dict_py(m.to_dict()), MANY + "get_mask:to_dict", case)
        if got is not None:
            col.check(got == exp_mask, MANY + "get_mask:entry-attributed-to-other-contig", case, diff(got, exp_mask))
        got = None
        if case.get("whole"):
            col.case({"c": "mask_data", **case}, contract="mask.get_data (many contigs)")
            got = col.guarded(lambda: ivs(m.get_data()), MANY + "mask.get_data", case)
        if got is not None:
            exp = [(n, s, e) for n in inc if n in per for s, e in R.merge(per[n], 0)]
            col.check(got == exp, MANY + "mask.get_data:not-per-contig-runs", case, "got %r expected %r" % (got, exp))
    col.case({"c": "pileup", **case}, contract="get_pileup (many contigs)")
    got = col.guarded(lambda: dict_py(gi.get_pileup().to_dict()), MANY + "get_pileup", case)
    if got is not None:
        col.check(got == exp_pile, MANY + "get_pileup:entry-attributed-to-other-contig", case, diff(got, exp_pile))

    for pname, perm in perms(len(entries), False):
        src = [entries[i] for i in perm]
        col.case({"c": "sorted", "perm": pname, **case}, contract="sorted (many contigs)")
        got = col.guarded(lambda: ivs(g.get_intervals(make_intervals(src)).sorted()), MANY + "sorted", case)
        if got is not None:
            col.check(sorted_ok(got, kept, order), MANY + "sorted:not-genome-order", case, "input %r got %r" % (src, got))

    if kept and not adjacency(kept, genome_inc, 0):
        # merged(0) needs entries sorted in genome order; entries touching across a contig boundary are the known
        # defect class of the small-genome cases and are left to them
        sk = sorted(kept, key=lambda e: (order[e[0]], e[1], e[2]))
        col.case({"c": "merged", **case}, contract="merged (many contigs)")
        got = col.guarded(lambda: ivs(g.get_intervals(make_intervals(sk)).merged(0)), MANY + "merged:d=0", case)
        if got is not None:
            exp = [(n, s, e) for n in inc if n in per for s, e in R.merge(per[n], 0)]
            col.check(got == exp, MANY + "merged:d=0:wrong-per-contig-result", case, "got %r expected %r" % (got, exp))

    geo = None
    if all("_" not in c for c, _, _ in entries):
        geo = col.guarded(lambda: Geometry({n: s for n, s in genome}), MANY + "Geometry", case)
    for dl, dr in ((0, 0), (0, 7), (2, 2)):
        src = [(c, s - dl, e + dr) for c, s, e in entries]
        exp = [(c,) + R.clip((s - dl, e + dr), sizes[c]) for c, s, e in kept]
        col.case({"c": "clip", "dl": dl, "dr": dr, **case}, contract="clip (many contigs)")
        got = col.guarded(lambda: ivs(g.get_intervals(make_intervals(src)).clip()), MANY + "clip", case)
        if got is not None:
            col.check(got == exp, MANY + "clip:not-clipped-to-own-contig", case, "input %r got %r expected %r" % (src, got, exp))
        if geo is not None:
            col.case({"c": "geo_clip", "dl": dl, "dr": dr, **case}, contract="Geometry.clip (many contigs)")
            got = col.guarded(lambda: ivs(geo.clip(make_intervals(src))), MANY + "Geometry.clip", case)
            if got is not None:
                exp2 = [(c,) + R.clip((s - dl, e + dr), sizes[c]) for c, s, e in entries]
                col.check(got == exp2, MANY + "Geometry.clip:not-clipped-to-own-contig", case, "input %r got %r expected %r" % (src, got, exp2))
    if geo is not None and case.get("whole"):
        gnames = [n for n, _ in genome if "_" not in n]
        col.case({"c": "geo_mask", **case}, contract="Geometry.get_mask (many contigs)")
        got = col.guarded(lambda: dict_py(geo.get_mask(make_intervals(entries)).to_dict()), MANY + "Geometry.get_mask", case)
        if got is not None:
            gper = {}
            for c, s, e in entries:
                gper.setdefault(c, []).append((s, e))
            exp = {n: R.mask(gper.get(n, []), sizes[n]) for n in gnames}
            col.check(got == exp, MANY + "Geometry.get_mask:entry-attributed-to-other-contig", case, diff(got, exp))

    for L in (1, 3, 8):
        exp = [(c,) + R.extend_to_size((s, e), st, L, sizes[c]) for (c, s, e), st in zip(kept, kept_strands)]
        col.case({"c": "extend", "L": L, **case}, contract="extended_to_size (many contigs)")
        got = col.guarded(lambda: ivs(gs.extended_to_size(L)), MANY + "extended_to_size", case)
        if got is not None:
            col.check(got == exp, MANY + "extended_to_size:not-limited-by-own-contig", case, "L=%d strands %s got %r expected %r" % (L, kept_strands, got, exp))

    for where in ("start", "stop"):
        col.case({"c": "location", "where": where, **case}, contract="get_location (many contigs)")
        got = col.guarded(lambda: (lambda loc: list(zip(names(loc.chromosome), np.asarray(loc.position).tolist())))(gs.get_location(where)),
                          MANY + "get_location:stranded:" + where, case)
        if got is not None:
            exp = [(c, R.location((s, e), st, where)[0]) for (c, s, e), st in zip(kept, kept_strands)]
            col.check(got == exp, MANY + "get_location:stranded:%s:wrong-position" % where, case, "got %r expected %r" % (got, exp))

    # locations: last base of every entry; windows must be cut at the entry's own contig end
    locs = [(c, e - 1) for c, s, e in entries]
    klocs = [l for l in locs if l[0] in incset]
    gl = col.guarded(lambda: g.get_locations(LocationEntry([c for c, _ in locs], [p for _, p in locs])), MANY + "get_locations", case)
    if gl is not None and locs:
        for f in (0, 2, 9):
            col.case({"c": "windows_flank", "f": f, **case}, contract="get_windows(flank) (many contigs)")
            got = col.guarded(lambda: ivs(gl.get_windows(flank=f)), MANY + "get_windows:flank", case)
            if got is not None:
                exp = [(c,) + R.windows_flank(p, f, sizes[c])[0] for c, p in klocs]
                col.check(got == exp, MANY + "get_windows:flank:not-cut-at-own-contig-end", case, "flank=%d locations %r got %r expected %r" % (f, klocs, got, exp))
        col.case({"c": "loc_sorted", **case}, contract="GenomicLocation.sorted (many contigs)")
        got = col.guarded(lambda: (lambda s: list(zip(names(s.chromosome), np.asarray(s.position).tolist())))(
            g.get_locations(LocationEntry([c for c, _ in locs[::-1]], [p for _, p in locs[::-1]])).sorted()), MANY + "locations.sorted", case)
        if got is not None:
            keys = [(order[c], p) for c, p in got]
            col.check(keys == sorted(keys) and sorted(got) == sorted(klocs), MANY + "locations.sorted:not-genome-order", case, "got %r" % (got,))

    ga = col.guarded(lambda: make_array(genome_inc, values, ctx), MANY + "GenomicArray.from_dict", case)
    if ga is not None:
        col.case({"c": "extract_unstranded", **case}, contract="GenomicArray[intervals] (many contigs)")
        got = col.guarded(lambda: rows(ga[gi]), MANY + "GenomicArray[intervals]:unstranded", case)
        if got is not None:
            exp = [values[c][s:e] for c, s, e in kept]
            col.check(got == exp, MANY + "GenomicArray[intervals]:unstranded:values-of-other-contig", case, "intervals %r got %r expected %r" % (kept, got, exp))
        col.case({"c": "extract_stranded", **case}, contract="GenomicArray[stranded intervals] (many contigs)")
        got = col.guarded(lambda: rows(ga[gs]), MANY + "GenomicArray[intervals]:stranded", case)
        if got is not None:
            exp = [values[c][s:e] if st == "+" else values[c][s:e][::-1] for (c, s, e), st in zip(kept, kept_strands)]
            col.check(got == exp, MANY + "GenomicArray[intervals]:stranded:values-of-other-contig", case, "intervals %r got %r expected %r" % (kept, got, exp))
        if m is not None:
            col.case({"c": "array_by_mask", **case}, contract="GenomicArray[mask] (many contigs)")
            got = col.guarded(lambda: np.asarray(ga[m]).tolist(), MANY + "GenomicArray[mask]", case)
            if got is not None:
                exp = [v for n in inc if n in per for v, b in zip(values[n], exp_mask[n]) if b]
                col.check(got == exp, MANY + "GenomicArray[mask]:wrong-values", case, "got %r expected %r" % (got, exp))
        if gl is not None and locs:
            col.case({"c": "extract_locations", **case}, contract="GenomicArray.extract_locations (many contigs)")
            got = col.guarded(lambda: np.asarray(ga.extract_locations(gl)).tolist(), MANY + "extract_locations", case)
            if got is not None:
                exp = [values[c][p] for c, p in klocs]
                col.check(got == exp, MANY + "extract_locations:values-of-other-contig", case, "got %r expected %r" % (got, exp))
        for n in probes:
            col.case({"c": "getitem", "n": n, **case}, contract="GenomicArray[name] (many contigs)")
            got = col.guarded(lambda: np.asarray(ga[n].to_array()).tolist(), MANY + "GenomicArray[name]", case)
            if got is not None:
                col.check(got == values[n], MANY + "GenomicArray[name]:values-of-other-contig", case, "%s got %r expected %r" % (n, got, values[n]))
        if case.get("whole"):
            col.case({"c": "to_dict", **case}, contract="GenomicArray.to_dict (many contigs)")
            got = col.guarded(lambda: dict_py(ga.to_dict()), MANY + "GenomicArray.to_dict", case)
            if got is not None:
                col.check(got == values, MANY + "GenomicArray.to_dict:wrong-per-contig-values", case, diff(got, values))

    if case.get("whole"):
        # bedgraph with one value per contig (its number), every contig covered -> track
        bed = [(n, 0, s, ci + 1) for ci, (n, s) in enumerate(genome_inc)]
        col.case({"c": "get_track", **case}, contract="Genome.get_track (many contigs)")
        tr = col.guarded(lambda: g.get_track(BedGraph([b[0] for b in bed], [b[1] for b in bed], [b[2] for b in bed], [b[3] for b in bed])),
                         MANY + "Genome.get_track", case)
        if tr is not None:
            got = col.guarded(lambda: dict_py(tr.to_dict()), MANY + "Genome.get_track:to_dict", case)
            exp = {n: [ci + 1] * s for ci, (n, s) in enumerate(genome_inc)}
            if got is not None:
                col.check(got == exp, MANY + "Genome.get_track:wrong-per-contig-values", case, diff(got, exp))
            col.case({"c": "track_extract", **case}, contract="track[intervals] (many contigs)")
            got = col.guarded(lambda: rows(tr[gi]), MANY + "track[intervals]", case)
            if got is not None:
                exp = [[order[c] + 1] * (e - s) for c, s, e in kept]
                col.check(got == exp, MANY + "track[intervals]:values-of-other-contig", case, "intervals %r got %r expected %r" % (kept, got, exp))

    seqs = {n: seq_many(i, s) for i, (n, s) in enumerate(genome)}
    sq = col.guarded(lambda: GenomicSequence.from_dict(seqs), MANY + "GenomicSequence.from_dict", case)
    if sq is not None and kept and not seq_q(kept):
        col.case({"c": "seq_stranded", **case}, contract="GenomicSequence[stranded intervals] (many contigs)")
        got = col.guarded(lambda: [str(x).upper() for x in sq[gs].tolist()], MANY + "GenomicSequence[intervals]:stranded", case)
        if got is not None:
            exp = [seqs[c][s:e] if st == "+" else R.revcomp(seqs[c][s:e]) for (c, s, e), st in zip(kept, kept_strands)]
            col.check(got == exp, MANY + "GenomicSequence[intervals]:stranded:sequence-of-other-contig", case, "intervals %r got %r expected %r" % (kept, got, exp))


# ----------------------------------------------------------------------------------------------- group: hist
# histories on STRANDED in-memory intervals: a re-ordering / re-shaping step (sorted, indexing, clip, extended_to_size,
# merged, concatenate, windows around the 5' ends), then a strand-aware step on the RESULT (array values reversed and
# sequence reverse-complemented under '-' rows, get_location('start'/'stop')).  Oracle: the rows (contig, start, stop,
# strand) transformed by hand, then the single-contig strand-aware step on those rows.

HIST = "history:"
OPNAME = {"sorted": "sorted", "perm": "getitem", "mask": "getitem", "slice": "getitem", "clip": "clip",
          "extend": "extended_to_size", "merged": "merged", "concat": "concatenate", "windows": "get_location.get_windows"}


def hist_mask(op, rws):
    if op[1] == "even":
        return [i % 2 == 0 for i in range(len(rws))]
    if op[1] == "odd":
        return [i % 2 == 1 for i in range(len(rws))]
    return [r[3] == "-" for r in rws]          # "minus"


def hist_perm(op, n):
    return dict(perms(n, False)).get(op[1], list(range(n)))


def hist_applicable(op, rws, stranded, sizes, order):
    inb = all(0 <= s < e <= sizes[c] for c, s, e, _ in rws)
    if not rws:
        return False
    if op[0] in ("extend", "windows"):
        return stranded and inb
    if op[0] == "merged":
        keys = [(order[c], s) for c, s, e, _ in rws]
        return inb and keys == sorted(keys)
    if op[0] == "mask":
        return any(hist_mask(op, rws))
    if op[0] == "slice":
        return len(rws) > 1
    return True


def hist_model(op, rws, stranded, sizes, order):
    """the rows after the step, by hand; None for 'sorted' (any valid genome order of the same rows is accepted)"""
    k = op[0]
    if k == "sorted":
        return None, stranded
    if k == "perm":
        return [rws[i] for i in hist_perm(op, len(rws))], stranded
    if k == "mask":
        return [r for r, b in zip(rws, hist_mask(op, rws)) if b], stranded
    if k == "slice":
        return rws[1:], stranded
    if k == "clip":
        return [(c,) + R.clip((s, e), sizes[c]) + (st,) for c, s, e, st in rws], stranded
    if k == "extend":
        return [(c,) + R.extend_to_size((s, e), st, op[1], sizes[c]) + (st,) for c, s, e, st in rws], stranded
    if k == "concat":
        return rws + rws, stranded
    if k == "windows":
        out = []
        for c, s, e, st in rws:
            p = R.location((s, e), st, "start")[0]
            out.append((c,) + R.windows_flank(p, op[1], sizes[c])[0] + (st,))
        return out, stranded
    if k == "merged":
        out = []
        for n in sorted({c for c, _, _, _ in rws}, key=lambda c: order[c]):
            out += [(n, s, e, None) for s, e in R.merge([(s, e) for c, s, e, _ in rws if c == n], 0)]
        return out, False
    raise ValueError(op)


def hist_do(op, x, rws):
    import numpy as np
    k = op[0]
    if k == "sorted":
        return x.sorted()
    if k == "perm":
        return x[np.array(hist_perm(op, len(rws)), dtype=int)]
    if k == "mask":
        return x[np.array(hist_mask(op, rws), dtype=bool)]
    if k == "slice":
        return x[1:]
    if k == "clip":
        return x.clip()
    if k == "extend":
        return x.extended_to_size(op[1])
    if k == "concat":
        return np.concatenate([x, x])
    if k == "windows":
        return x.get_location("start").get_windows(flank=op[1])
    if k == "merged":
        return x.merged(0)
    raise ValueError(op)


def hist_step(col, case, env, state, op, path):
    """apply one step to (object, rows, stranded); evaluate the contracts on the result; returns the new state or None"""
    import numpy as np
    x, rws, stranded = state
    sizes, order, values, seqs, ga, sq, genome_inc = env
    if not hist_applicable(op, rws, stranded, sizes, order):
        return None
    name = OPNAME[op[0]]
    path = path + [op]
    descr = {"c": "hist", "path": path, **{k: v for k, v in case.items() if k not in ("first", "second")}}
    if op[0] == "merged" and adjacency([r[:3] for r in rws], genome_inc, 0):
        return None        # rows touching across a chromosome boundary: the known merged(0) class of the 'sets' group
    y = col.guarded(lambda: hist_do(op, x, rws), HIST + name, case)
    if y is None:
        return None
    exp, exp_stranded = hist_model(op, rws, stranded, sizes, order)

    # 1. the rows of the result
    col.case({"o": "rows", **descr}, contract="history: rows after " + name)

    def read_back():
        d = y.get_data()
        st = d.strand.tolist() if exp_stranded else [None] * len(d)
        return [(c, s, e, t) for (c, s, e), t in zip(ivs(y), st)]
    got = col.guarded(read_back, HIST + name + ":read-back", case)
    if got is None:
        return None
    if exp is None:      # sorted
        keys = [(order[c], s) for c, s, e, _ in got]
        ok = keys == sorted(keys) and sorted(got) == sorted(rws)
        if not col.check(ok, HIST + "sorted:not-genome-order-or-rows-changed", case, "path %r rows %r got %r" % (path, rws, got)):
            return None
        exp = got
    elif not col.check(got == exp, HIST + name + ":wrong-rows", case, "path %r rows %r got %r expected %r" % (path, rws, got, exp)):
        return None

    # 2. a stranded table stays a stranded table (merged() yields strand-less rows)
    col.case({"o": "stranded", **descr}, contract="history: strandedness after " + name)
    flag = col.guarded(lambda: bool(y.is_stranded()), HIST + name + ":is_stranded", case)
    if flag is None:
        return None
    if flag != exp_stranded:
        def consequence():
            loc = y.get_location("start")
            return np.asarray(loc.position).tolist()
        try:
            seen = consequence()
        except Exception as e:
            seen = "%s: %s" % (type(e).__name__, e)
        want = [R.location((s, e), st if exp_stranded else None, "start")[0] for c, s, e, st in exp]
        col.fail(HIST + name + (":result-not-stranded" if exp_stranded else ":result-stranded"), case,
                 "path %r: the result of %s on stranded intervals has is_stranded()=%r; rows %r; e.g. get_location('start') on it gives %r, "
                 "the strand-aware step on these rows gives %r" % (path, name, flag, exp, seen, want))
        return None

    # 3. strand-aware steps on the result == the same steps on the rows by hand
    ok = True
    if exp_stranded:
        for where in ("start", "stop"):
            col.case({"o": "location:" + where, **descr}, contract="history: get_location after " + name)
            sig = HIST + name + ":get_location:" + where
            got = col.guarded(lambda: (lambda loc: list(zip(names(loc.chromosome), np.asarray(loc.position).tolist())))(y.get_location(where)), sig, case)
            if got is None:
                ok = False
                continue
            want = [(c, R.location((s, e), st, where)[0]) for c, s, e, st in exp]
            ok &= col.check(got == want, sig + ":not-strand-aware-position-of-the-rows", case, "path %r rows %r got %r expected %r" % (path, exp, got, want))
    inb = all(0 <= s < e <= sizes[c] for c, s, e, _ in exp)
    if inb and ga is not None:
        col.case({"o": "array", **descr}, contract="history: GenomicArray[result] after " + name)
        sig = HIST + name + ":GenomicArray[intervals]"
        got = col.guarded(lambda: rows(ga[y]), sig, case)
        if got is None:
            ok = False
        else:
            want = [values[c][s:e][::-1] if st == "-" else values[c][s:e] for c, s, e, st in exp]
            ok &= col.check(got == want, sig + ":not-values-of-the-rows-reversed-on-minus", case, "path %r rows %r got %r expected %r" % (path, exp, got, want))
    if inb and sq is not None:
        q = seq_q([r[:3] for r in exp]) if exp_stranded else ""
        col.case({"o": "sequence", **descr}, contract="history: GenomicSequence[result] after " + name)
        # all rows of length 1 / no rows: the known class of the 'sets' group (same call, same signature)
        sig = ("GenomicSequence[intervals]:stranded" + q) if q else HIST + name + ":GenomicSequence[intervals]"
        got = col.guarded(lambda: [str(v).upper() for v in sq[y].tolist()], sig, case)
        if got is None:
            ok = ok and bool(q)
        else:
            want = [R.revcomp(seqs[c][s:e]) if st == "-" else seqs[c][s:e] for c, s, e, st in exp]
            ok &= col.check(got == want, HIST + name + ":GenomicSequence[intervals]:not-sequence-of-the-rows-revcomp-on-minus", case,
                            "path %r rows %r got %r expected %r" % (path, exp, got, want))
    if not ok:
        return None
    return (y, exp, exp_stranded)


def chk_hist(col, case):
    from bionumpy.genomic_data import GenomicSequence
    genome, filt, inc, genome_inc, sizes = parse(case)
    order = {n: i for i, n in enumerate(inc)}
    dl, dr = case.get("shift", (0, 0))
    entries = [(c, int(s) - dl, int(e) + dr) for c, s, e in case["entries"]]
    strands = case["strands"]
    rws = [(c, s, e, st) for (c, s, e), st in zip(entries, strands) if c in inc]
    g = col.guarded(lambda: make_genome(genome, filt, case), "Genome.from_dict", case)
    if g is None or not rws:
        return
    ctx = g.get_genome_context()
    values = vals_of("distinct", genome_inc)
    seqs = {n: seq_of(i, s) for i, (n, s) in enumerate(genome)}
    ga = col.guarded(lambda: make_array(genome_inc, values, ctx), "GenomicArray.from_dict", case)
    sq = col.guarded(lambda: GenomicSequence.from_dict(seqs), "GenomicSequence.from_dict", case)
    gs = col.guarded(lambda: g.get_intervals(make_intervals(entries, strands), stranded=True), "get_intervals:stranded", case)
    if gs is None:
        return
    env = (sizes, order, values, seqs, ga, sq, genome_inc)
    s0 = (gs, rws, True)
    for first in case["first"]:
        s1 = hist_step(col, case, env, s0, first, [])
        if s1 is None:
            continue
        for second in case["second"]:
            hist_step(col, case, env, s1, second, [first])


# ----------------------------------------------------------------------------------------------- group: cross
# two genome contexts that NUMBER the chromosomes differently (other order of the same chrom.sizes, sort_names=True,
# other filter - ignored names are numbered last -, with_ignored_added, one more / one fewer chromosome).  Entries made
# by genome B (Genome.get_intervals / get_locations: the chromosome column is already encoded, with B's numbers) are
# handed to objects of genome A: GenomicArray[...], extract_locations, Geometry.*, GlobalOffset.*, Genome.get_intervals,
# map_locations, BinnedGenome.count, GenomicSequence[...].  Contract: the operation is refused (any exception) or its
# result is the one of the chromosome NAMED by each entry - never the one that has the same number in the other genome.

CROSS = "cross-genome:"


def cross_parse(spec):
    genome, filt, inc, genome_inc, sizes = parse(spec)
    extra = set(spec.get("extra_ignored", ()))
    inc = [n for n in inc if n not in extra]
    genome_inc = [(n, s) for n, s in genome_inc if n not in extra]
    return genome, filt, inc, genome_inc, sizes


def cross_try(col, case, c, contract, sig, run, ok):
    """one contract: run() on the real objects; an exception is a refusal (accepted); otherwise ok(result) -> (bool, expected)"""
    col.case({"c": c, **case}, contract=contract)
    try:
        got = run()
    except BaseException as e:
        if not isinstance(e, Exception):
            raise
        return
    good, exp = ok(got)
    col.check(good, CROSS + sig, case, "entries made by genome %r used with genome %r: got %r expected (by chromosome name) %r, or a refusal" % (
        case["b"]["genome"], case["genome"], got, exp))


def chk_cross(col, case):
    import numpy as np
    from bionumpy.bnpdataclass import replace
    from bionumpy.datatypes import LocationEntry
    from bionumpy.genomic_data.geometry import Geometry
    from bionumpy.genomic_data.global_offset import GlobalOffset
    from bionumpy.genomic_data.binned_genome import BinnedGenome
    from bionumpy.genomic_data import GenomicSequence
    genome, filt, inc, genome_inc, sizes = cross_parse(case)
    bspec = case["b"]
    bgenome, bfilt, binc, bgenome_inc, bsizes = cross_parse(bspec)
    entries = [(c, int(s), int(e)) for c, s, e in case["entries"]]
    strands = case["strands"]
    if not entries or any(c not in inc or c not in binc for c, _, _ in entries):
        return                                   # entries on chromosomes that both genomes include
    eq = lambda exp: (lambda got: (got == exp, exp))
    order = {n: i for i, n in enumerate(inc)}
    off = dict(zip(inc, R.offsets([s for _, s in genome_inc])))
    A = col.guarded(lambda: make_genome(genome, filt, case), "Genome.from_dict", case)
    B = col.guarded(lambda: make_genome(bgenome, bfilt, bspec), "Genome.from_dict", case)
    if A is None or B is None:
        return
    ctx = A.get_genome_context()
    values = vals_of("distinct", genome_inc)
    ga = col.guarded(lambda: make_array(genome_inc, values, ctx), "GenomicArray.from_dict", case)
    gi = col.guarded(lambda: B.get_intervals(make_intervals(entries)), "get_intervals", case)
    gs = col.guarded(lambda: B.get_intervals(make_intervals(entries, strands), stranded=True), "get_intervals:stranded", case)
    locs = [(c, s) for c, s, e in entries] + [(c, e - 1) for c, s, e in entries]
    gl = col.guarded(lambda: B.get_locations(LocationEntry([c for c, _ in locs], [p for _, p in locs])), "get_locations", case)
    if ga is None or gi is None or gs is None or gl is None:
        return
    # the entries as genome B sees them (control: B must not have changed them)
    col.case({"c": "control", **case}, contract="cross-genome: entries of the other genome read back")
    got = col.guarded(lambda: (ivs(gi), ivs(gs), list(zip(names(gl.chromosome), np.asarray(gl.position).tolist()))), "get_intervals:read-back", case)
    if got is None or not col.check(got == (entries, entries, locs), "get_intervals:entries-not-those-of-included-chromosomes", case,
                                    "got %r expected %r" % (got, (entries, entries, locs))):
        return
    d, ds, dl = gi.get_data(), gs.get_data(), gl.data
    dr = case.get("over", 2)
    over = [(c, s, e + dr) for c, s, e in entries]
    d_over = B.get_intervals(make_intervals(over)).get_data()

    # --- array values
    exp_rows = [values[c][s:e] for c, s, e in entries]
    cross_try(col, case, "array_unstranded", "cross-genome: GenomicArray[intervals of the other genome]",
              "GenomicArray[intervals]:unstranded:values-of-other-chromosome", lambda: rows(ga[gi]), eq(exp_rows))
    cross_try(col, case, "array_stranded", "cross-genome: GenomicArray[stranded intervals of the other genome]",
              "GenomicArray[intervals]:stranded:values-of-other-chromosome", lambda: rows(ga[gs]),
              eq([r if st == "+" else r[::-1] for r, st in zip(exp_rows, strands)]))
    cross_try(col, case, "extract_locations", "cross-genome: GenomicArray.extract_locations(locations of the other genome)",
              "extract_locations:values-of-other-chromosome", lambda: np.asarray(ga.extract_locations(gl)).tolist(),
              eq([values[c][p] for c, p in locs]))
    # a mask of genome B selects, chromosome by chromosome, the values under B's entries (either genome's order)
    per = {n: [(s, e) for c, s, e in entries if c == n] for n in set(inc) | set(binc)}
    sel = {n: [v for v, b in zip(values[n], R.mask(per[n], sizes[n])) if b] for n in inc}
    by_mask = [[v for n in o if n in sel for v in sel[n]] for o in (inc, binc)]
    cross_try(col, case, "array_by_mask", "cross-genome: GenomicArray[mask of the other genome]",
              "GenomicArray[mask-of-other-genome]:values-of-other-chromosome", lambda: np.asarray(ga[gi.get_mask()]).tolist(),
              lambda got: (got in by_mask, by_mask[0]))

    # --- coordinate conversion of genome A (from the context and from the {name: size} dict alone)
    for via, go in (("genome", ctx.global_offset), ("dict", col.guarded(lambda: GlobalOffset({n: s for n, s in genome_inc}), "GlobalOffset(dict)", case))):
        if go is None or via not in case.get("vias", ("genome", "dict")):
            continue
        sub = dict(case, via=via)
        cross_try(col, sub, "get_offset", "cross-genome: GlobalOffset.get_offset", "GlobalOffset.get_offset:offset-of-other-chromosome",
                  lambda: np.asarray(go.get_offset(d.chromosome)).tolist(), eq([off[c] for c, _, _ in entries]))
        cross_try(col, sub, "get_size", "cross-genome: GlobalOffset.get_size", "GlobalOffset.get_size:size-of-other-chromosome",
                  lambda: np.asarray(go.get_size(d.chromosome)).tolist(), eq([sizes[c] for c, _, _ in entries]))
        cross_try(col, sub, "from_local", "cross-genome: from_local_coordinates", "from_local_coordinates:offset-of-other-chromosome",
                  lambda: np.asarray(go.from_local_coordinates(dl.chromosome, dl.position)).tolist(), eq([off[c] + p for c, p in locs]))
        cross_try(col, sub, "from_local_interval", "cross-genome: from_local_interval", "from_local_interval:offset-of-other-chromosome",
                  lambda: (lambda r: list(zip(np.asarray(r.start).tolist(), np.asarray(r.stop).tolist())))(go.from_local_interval(d)),
                  eq([(off[c] + s, off[c] + e) for c, s, e in entries]))
        cross_try(col, sub, "start_ends_clip", "cross-genome: start_ends_from_intervals(do_clip)",
                  "start_ends_from_intervals:clip-at-end-of-other-chromosome",
                  lambda: (lambda r: list(zip(np.asarray(r[0]).tolist(), np.asarray(r[1]).tolist())))(go.start_ends_from_intervals(d_over, do_clip=True)),
                  eq([(off[c] + s, off[c] + min(e, sizes[c])) for c, s, e in over]))

    # --- re-wrapping B's rows in genome A
    cross_try(col, case, "rewrap_intervals", "cross-genome: Genome.get_intervals(rows of the other genome)",
              "Genome.get_intervals:rows-moved-to-other-chromosome", lambda: ivs(A.get_intervals(d)), eq(entries))
    cross_try(col, case, "rewrap_locations", "cross-genome: Genome.get_locations(rows of the other genome)",
              "Genome.get_locations:rows-moved-to-other-chromosome",
              lambda: (lambda x: list(zip(names(x.chromosome), np.asarray(x.position).tolist())))(A.get_locations(dl)), eq(locs))

    # --- Geometry of genome A ('_' names are outside its domain)
    if all("_" not in n for n, _ in genome) and not case.get("extra_ignored"):
        geo = col.guarded(lambda: Geometry({n: s for n, s in genome}), "Geometry", case)
        if geo is not None:
            for op, ref in (("get_mask", R.mask), ("get_pileup", R.pileup)):
                exp = {n: ref(per[n], sizes[n]) for n in inc}
                cross_try(col, case, "geo_" + op, "cross-genome: Geometry." + op, "Geometry.%s:coverage-on-other-chromosome" % op,
                          lambda: dict_py(getattr(geo, op)(d).to_dict()), eq(exp))
            cross_try(col, case, "geo_clip", "cross-genome: Geometry.clip", "Geometry.clip:clipped-to-other-chromosome",
                      lambda: ivs(geo.clip(d_over)), eq([(c,) + R.clip((s, e), sizes[c]) for c, s, e in over]))
            for L in case.get("lengths", (1, 3)):
                cross_try(col, dict(case, L=L), "geo_extend", "cross-genome: Geometry.extend_to_size",
                          "Geometry.extend_to_size:limited-by-other-chromosome", lambda: ivs(geo.extend_to_size(ds, L)),
                          eq([(c,) + R.extend_to_size((s, e), st, L, sizes[c]) for (c, s, e), st in zip(entries, strands)]))
            cross_try(col, case, "geo_sort", "cross-genome: Geometry.sort", "Geometry.sort:not-genome-order-or-rows-changed",
                      lambda: ivs(geo.sort(d)), lambda got: (sorted_ok(got, entries, order), "the rows in the order of %r" % (inc,)))

    # --- locations of B mapped to / counted on genome A
    sl = sorted(set(locs), key=lambda l: (order[l[0]], l[1]))
    whole = [(n, 0, s) for n, s in genome_inc]

    def run_map():
        src = B.get_locations(LocationEntry([c for c, _ in sl], [p for _, p in sl])).data
        r = A.get_intervals(make_intervals(whole)).map_locations(src)
        return sorted((int(str(n)), int(p)) for n, p in zip(r.chromosome.tolist(), np.asarray(r.position).tolist()))
    required = sorted((order[c], p) for c, p in sl)
    # (a location at position 0 may in addition be paired with the interval that ends there: tolerated, see group 'loc')
    tolerated = required + [(order[c] - 1, 0) for c, p in sl if p == 0 and order[c] > 0]

    def map_ok(got):
        keys = set(got) | set(required)
        return (all(required.count(x) <= got.count(x) <= tolerated.count(x) for x in keys), required)
    cross_try(col, case, "map_locations", "cross-genome: map_locations(locations of the other genome)",
              "map_locations:location-mapped-to-other-chromosome", run_map, map_ok)
    for b in case.get("bin_sizes", (1, 2)):
        exp = {n: [0] * ((s + b - 1) // b) for n, s in genome_inc}
        for c, p in locs:
            exp[c][p // b] += 1

        def run_binned():
            bg = BinnedGenome(ctx, bin_size=b)
            bg.count(dl)
            return dict_py(bg.count_dict)
        cross_try(col, dict(case, bin=b), "binned", "cross-genome: BinnedGenome.count(locations of the other genome)",
                  "BinnedGenome.count:counted-on-other-chromosome", run_binned, eq(exp))

    # --- sequence (a dict of sequences has no numbering of its own: looked up by name)
    seqs = {n: seq_of(i, s) for i, (n, s) in enumerate(sorted(genome))}
    sq = col.guarded(lambda: GenomicSequence.from_dict(seqs), "GenomicSequence.from_dict", case)
    if sq is not None:
        cross_try(col, case, "seq_stranded", "cross-genome: GenomicSequence[stranded intervals of the other genome]",
                  "GenomicSequence[intervals]:stranded:sequence-of-other-chromosome", lambda: [str(x).upper() for x in sq[gs].tolist()],
                  eq([seqs[c][s:e] if st == "+" else R.revcomp(seqs[c][s:e]) for (c, s, e), st in zip(entries, strands)]))


GROUPS = {"offset": chk_offset, "sets": chk_sets, "elem": chk_elem, "loc": chk_loc, "array": chk_array,
          "spill": chk_spill, "fasta": chk_fasta, "many": chk_many, "hist": chk_hist, "cross": chk_cross}


# ----------------------------------------------------------------------------------------------- enumeration

def all_intervals(s):
    return [(a, b) for a in range(s) for b in range(a + 1, s + 1)]


def subsets_upto(items, k):
    for r in range(k + 1):
        for c in itertools.combinations(items, r):
            yield list(c)


def boundary_menu(s):
    """interval sets that touch the ends of a chromosome of size s (and the empty set)"""
    m = [[], [(0, 1)], [(s - 1, s)], [(0, s)], [(0, 1), (s - 1, s)]]
    out = []
    for x in m:
        if x not in out:
            out.append(x)
    return out


def strand_patterns(n, tier):
    pats = ["".join("+-"[(i + p) % 2] for i in range(n)) for p in (0, 1)]
    if tier == "thorough":
        pats += ["+" * n, "-" * n]
    out = []
    for p in pats:
        if p not in out:
            out.append(p)
    return out or [""]


def genomes_full(S):
    """(genome, filter) for every size vector, 1..2 chromosomes; names: one a prefix of the other"""
    for s in range(1, S + 1):
        yield [("chr1", s)], "keep"
    for s1, s2 in itertools.product(range(1, S + 1), repeat=2):
        yield [("chr1", s1), ("chr10", s2)], "keep"


def genomes_multi(S, tier):
    """3..4 chromosomes: prefix names in both orders, '_' names ignored (default filter of from_file) or kept"""
    if tier == "thorough":
        sizes3 = list(itertools.product((1, 2, S), repeat=3))
        sizes4 = [(2, 3, 1, 2), (1, 2, 3, 1), (S, 1, 2, S), (1, 1, 1, 1), (2, S, 2, 1)]
        other = sizes4[:3]
    else:
        sizes3 = [(1, 1, 1), (2, 1, 3), (3, 2, 1), (2, 2, 2)]
        sizes4 = [(2, 3, 1, 2), (1, 2, 3, 1)]
        other = sizes4[:1]
    for sz in sizes3:
        yield [("chr10", sz[0]), ("chr1", sz[1]), ("chr2", sz[2])], "keep"
    for sz in sizes4:
        for filt in ("ign", "keep"):
            yield [("chr1", sz[0]), ("chr1_alt", sz[1]), ("chr10", sz[2]), ("chr2", sz[3])], filt
    for sz in other:
        yield [("chrUn_x", sz[0]), ("chr2", sz[1]), ("chr2_r", sz[2]), ("chr21", sz[3])], "ign"
        yield [("2", sz[0]), ("21", sz[1]), ("X", sz[2]), ("212", sz[3])], "keep"


def small_menu(s):
    m = [[], [(0, s)], [(0, 1), (s - 1, s)]] if s > 1 else [[], [(0, 1)]]
    return m



def many_cases(tier):
    """> 256 contigs (quick: 257, 300, 520; '_' names every 64th, ignored or kept), > 65536 for the coordinate conversion;
    entries (first base, last base, whole contig; both strands) on the contigs around every multiple of 256 / 65536,
    alone, together with the contig 256 / 65536 places before, and all at once"""
    thorough = tier == "thorough"
    rule = [2, 7, 5]                 # sizes 2..6; contigs k, k-256 and k-65536 always have different sizes
    configs = [(257, 0, "keep"), (300, 0, "keep"), (520, 0, "keep"), (300, 64, "ign"), (300, 64, "keep")]
    if thorough:
        configs += [(256, 0, "keep"), (258, 0, "keep"), (1030, 0, "keep"), (520, 100, "ign"), (600, 3, "ign")]
    big = [65600] + ([65537, 70000, 131100] if thorough else [])

    def trio(i, j, size):
        a, b = ("+", "-") if j % 2 == 0 else ("-", "+")
        return [[i, 0, size, b], [i, size - 1, size, a], [i, 0, 1, b]]

    for n, ue, filt in configs + [(n, 0, "keep") for n in big]:
        base = {"k": "many", "n": n, "prefix": "scf", "size_rule": rule, "underscore_every": ue, "filter": filt}
        if n > 60000:
            base["level"] = "offset"
        size = lambda i: rule[0] + (i * rule[1]) % rule[2]
        ignored = lambda i: filt == "ign" and ue and i % ue == ue - 1
        included = [i for i in range(n) if not ignored(i)]
        marks = set()
        for m in range(256, len(included) + 1, 256):
            if m > 1024 and m % 65536 and (m - 256) % 65536:
                continue
            for j in (m - 2, m - 1, m, m + 1):
                if 0 <= j < len(included):
                    marks.add(included[j])         # contig number j in the order of the genome context
        for i in (0, 1, n - 2, n - 1) + ((255, 256) if ue else ()):
            if 0 <= i < n:
                marks.add(i)
        high = sorted(i for i in marks if i >= 254)
        pos = {i: j for j, i in enumerate(included)}
        partners = set()
        for i in high:
            for d in (256, 65536):
                if i in pos and pos[i] - d >= 0:
                    partners.add(included[pos[i] - d])
        everything = sorted(marks | partners)
        yield {**base, "picks": [p for j, i in enumerate(everything) for p in trio(i, j, size(i))], "whole": True}
        if n > 60000:
            continue                 # coordinate conversion only: element-wise, one case with all probes is enough
        if thorough and (n, ue, filt) in configs[:7]:
            singles = sorted(set(high) | set(range(250, min(n, 262))))
        else:       # the contigs number 255, 256, 512, 1024 and the last one (in the order of the genome context)
            singles = [i for i in high if pos.get(i, i) in (255, 256, 512, 1024, len(included) - 1)]
        for i in singles:
            yield {**base, "picks": trio(i, 0, size(i))}
            if i in pos:
                for d in (256, 65536):
                    if pos[i] - d >= 0:
                        p = included[pos[i] - d]
                        yield {**base, "picks": trio(p, 1, size(p)) + trio(i, 0, size(i))}
                        if thorough:
                            yield {**base, "picks": trio(i, 1, size(i)) + trio(p, 0, size(p))}


def hist_cases(tier, S):
    thorough = tier == "thorough"
    core = [["extend", 2], ["sorted"], ["perm", "rev"], ["mask", "minus"], ["clip"], ["merged"], ["windows", 1]]
    more = [["perm", "rot"], ["perm", "evenodd"], ["mask", "even"], ["mask", "odd"], ["slice"], ["concat"], ["extend", 1], ["extend", S + 1],
            ["windows", 0]]
    firsts = core + more
    seconds = firsts if thorough else core
    A = [("chr1", S), ("chr10", S)]
    inputs = [(A, "keep", "all", (0, 0)), (A, "keep", "all", (1, 2)), (A, "keep", "noleft", (0, 0)),
              ([("chr10", 2), ("chr1", 1), ("chr2", S)], "keep", "all", (0, 0)),
              ([("chr1", 2), ("chr1_alt", 3), ("chr10", 1), ("chr2", 2)], "ign", "all", (0, 0)),
              ([("chr1", 2), ("chr1_alt", 3), ("chr10", 1), ("chr2", 2)], "keep", "noleft", (0, 0))]
    if thorough:
        inputs += [([("chr1", S)], "keep", "all", (0, 0)),
                   ([("chr10", S), ("chr1", 1), ("chr2", 2)], "keep", "noleft", (2, 1)),
                   ([("chrUn_x", 2), ("chr2", 3), ("chr2_r", 1), ("chr21", 2)], "ign", "all", (0, 0)),
                   ([("2", 1), ("21", 2), ("X", 3), ("212", 1)], "keep", "all", (0, 1))]
    for gi_, (genome, filt, which, shift) in enumerate(inputs):
        entries = [(n, a, b) for ci, (n, s) in enumerate(genome) for a, b in all_intervals(s)
                   if which == "all" or ci == 0 or a > 0]
        # not in genome order: even positions forwards, then odd positions backwards
        k = len(entries)
        entries = [entries[i] for i in list(range(0, k, 2)) + list(range(1, k, 2))[::-1]]
        pats = strand_patterns(k, tier)
        if not thorough and gi_ > 0:
            pats = pats[gi_ % 2:][:1]
        elif thorough and gi_ > 0:      # alternating and, for the first inputs, one-strand-only patterns
            pats = [pats[gi_ % 2]] + ([pats[2 + gi_ % 2]] if gi_ <= 5 else [])
        for st in pats:
            for first in firsts:
                yield {"k": "hist", "genome": genome, "filter": filt, "entries": entries, "strands": st, "shift": list(shift),
                       "first": [first], "second": seconds}


def cross_cases(tier, S):
    """pairs (genome A, genome B) over the same chrom.sizes with different chromosome numbers x entry sets made by B"""
    thorough = tier == "thorough"
    pairs = []
    three = [(3, 2, 3), (2, 3, 1)] + ([(S, S, S), (1, 2, S)] if thorough else [])
    for sz in three:
        file_order = [("chr1", sz[0]), ("chr2", sz[1]), ("chr10", sz[2])]
        firsts = [file_order] + ([[file_order[2], file_order[0], file_order[1]]] if thorough and sz == three[0] else [])
        for a in firsts:
            for p in itertools.permutations(range(3)):            # identity: a second object with the same numbers
                if not thorough and sz != three[0] and p not in ((0, 2, 1), (2, 1, 0)):
                    continue
                if not thorough and sz != three[0]:
                    pairs.append(({"genome": a, "filter": "keep", "sort_names": p == (0, 2, 1)}, {"genome": [a[i] for i in p], "filter": "keep"}))
                    continue
                pairs.append(({"genome": a, "filter": "keep"}, {"genome": [a[i] for i in p], "filter": "keep"}))
            if thorough or sz == three[0]:
                pairs.append(({"genome": a, "filter": "keep"}, {"genome": a, "filter": "keep", "sort_names": True}))
                pairs.append(({"genome": a, "filter": "keep", "sort_names": True}, {"genome": a, "filter": "keep"}))
    # other filter (ignored names are numbered after the included ones), with_ignored_added, one more / one fewer chromosome
    for sz in [(2, 3, 1, 2)] + ([(S, 1, 2, S)] if thorough else []):
        u = [("chr1", sz[0]), ("chr1_alt", sz[1]), ("chr10", sz[2]), ("chr2", sz[3])]
        plain = [(n, s) for n, s in u if "_" not in n]
        pairs += [({"genome": u, "filter": "keep"}, {"genome": u, "filter": "ign"}),
                  ({"genome": u, "filter": "ign"}, {"genome": u, "filter": "keep"}),
                  ({"genome": plain, "filter": "keep"}, {"genome": u, "filter": "keep"}),
                  ({"genome": u, "filter": "keep"}, {"genome": plain, "filter": "keep"}),
                  ({"genome": plain, "filter": "keep"}, {"genome": plain, "filter": "keep", "extra_ignored": ["chr1"]}),
                  ({"genome": plain, "filter": "keep", "extra_ignored": ["chr10"]}, {"genome": plain, "filter": "keep"}),
                  ({"genome": plain, "filter": "keep"}, {"genome": [("chr0", 2)] + plain, "filter": "keep"}),
                  ({"genome": plain, "filter": "keep"}, {"genome": plain[1:], "filter": "keep"}),
                  ({"genome": plain, "filter": "keep"}, {"genome": plain + [("chr3", 2)], "filter": "keep"}),
                  ({"genome": plain + [("chr3", 2)], "filter": "keep"}, {"genome": plain, "filter": "keep"})]
    for pi, (a, b) in enumerate(pairs):
        inc_a, inc_b = cross_parse(a)[2], cross_parse(b)[2]
        sizes = dict(a["genome"])
        common = [n for n in inc_a if n in inc_b]
        smallest = min(s for n, s in a["genome"] + b["genome"])
        sets = []
        for n in common:           # one interval alone: it fits in the chromosome that has its number in the other genome, or not
            if thorough:
                menu = all_intervals(sizes[n])
            elif pi < 8:
                menu = [(0, 1), (sizes[n] - 1, sizes[n])]
            else:
                menu = [(0, sizes[n])] if n == common[pi % len(common)] else []
            sets += [[(n, x, y)] for x, y in dict.fromkeys(menu)]
        sets.append([(n, x, y) for n in common for x, y in all_intervals(smallest)])      # fit into every chromosome
        sets.append([(n, 0, 1) for n in common])
        sets.append([(n, sizes[n] - 1, sizes[n]) for n in common][::-1])
        if thorough:
            sets.append([(n, x, y) for n in common for x, y in all_intervals(sizes[n])])
            sets += [[(n, 0, smallest), (m, 0, smallest)] for n, m in itertools.permutations(common, 2)]
        for k, entries in enumerate(sets):
            pats = strand_patterns(len(entries), "quick")
            for st in (pats if thorough and len(entries) > 2 else [pats[k % len(pats)]]):
                c = {"k": "cross", **a, "b": b, "entries": entries, "strands": st, "over": 1 + k % 2}
                if not thorough:       # one fragment length / bin size per case, GlobalOffset from the dict alone every other case
                    c.update({"lengths": [1 + 2 * (k % 2)], "bin_sizes": [1 + (k + 1) % 2], "vias": ["genome", "dict"][:1 + k % 2]})
                yield c


def gen_cases(tier):
    S = 3 if tier == "quick" else 4
    thorough = tier == "thorough"
    # --- offset: every genome
    seen = []
    for genome, filt in itertools.chain(genomes_full(S), genomes_multi(S, tier)):
        yield {"k": "offset", "genome": genome, "filter": filt}
        seen.append((genome, filt))

    # --- elem / loc / array / spill: all entries of a genome at once
    for genome, filt in seen:
        entries = [(n, a, b) for n, s in genome for a, b in all_intervals(s)]
        for st in strand_patterns(len(entries), tier):
            yield {"k": "elem", "genome": genome, "filter": filt, "entries": entries, "strands": st,
                   "lengths": list(range(1, S + 2))}
        locs = [(n, p) for n, s in genome for p in range(s)]
        common = {"flanks": list(range(0, S + 1)), "window_sizes": list(range(1, S + 3)), "bin_sizes": list(range(1, S + 2))}
        yield {"k": "loc", "genome": genome, "filter": filt, "locs": locs, **common}
        # chromosomes without entries; only the last / first base of every chromosome
        for skip in range(len(genome)):
            yield {"k": "loc", "genome": genome, "filter": filt, "locs": [l for l in locs if l[0] != genome[skip][0]], **common}
        yield {"k": "loc", "genome": genome, "filter": filt, "locs": [(n, s - 1) for n, s in genome], **common}
        yield {"k": "loc", "genome": genome, "filter": filt, "locs": [(n, 0) for n, s in genome], **common}
        if len(genome) <= 2 or thorough:
            for n, p in locs:
                yield {"k": "loc", "genome": genome, "filter": filt, "locs": [(n, p)], **common}
        for pattern in ("distinct", "const", "edge"):
            yield {"k": "array", "genome": genome, "filter": filt, "values": pattern}
            for n, _ in genome:
                yield {"k": "array", "genome": genome, "filter": filt, "values": pattern, "zero": [n]}
        # spill: one interval leaves chromosome i on the right, its neighbours carry boundary intervals
        inc = R.included_names(genome, filt)
        for i, (n, s) in enumerate(genome):
            if n not in inc:
                continue
            for bad in ((s - 1, s + 1), (0, s + 1), (s, s + 1)):
                entries = []
                for j, (m, t) in enumerate(genome):
                    if j == i:
                        entries.append((m,) + bad)
                    elif abs(j - i) == 1:
                        entries.append((m, t - 1, t))
                yield {"k": "spill", "genome": genome, "filter": filt, "entries": entries, "bad": n}

    # --- sets, exhaustive: 1..2 chromosomes, every subset of <= K intervals per chromosome.
    #     quick: sizes 1..2 with <=2 intervals, sizes 1..3 with <=1 interval, sizes 1..3 boundary menus
    def two(genome, menus, extra=None):
        for choice in itertools.product(*menus):
            entries = [(genome[i][0], a, b) for i, ch in enumerate(choice) for a, b in ch]
            for k, st in enumerate(strand_patterns(len(entries), "quick")):
                c = {"k": "sets", "genome": genome, "filter": "keep", "entries": entries, "strands": st,
                     "parts": "US" if k == 0 else "S", "all_perms": thorough and len(entries) <= 3}
                if extra:
                    c.update(extra)
                yield c
    done = set()
    for genome, filt in genomes_full(S):
        plans = []
        if len(genome) == 1:
            plans.append(3)
        elif thorough:
            plans.append(2)
        else:
            plans.append(2 if max(s for _, s in genome) <= 2 else 1)
        for K in plans:
            yield from two(genome, [list(subsets_upto(all_intervals(s), K)) for _, s in genome])
        if len(genome) == 2 and not thorough:
            for c in two(genome, [boundary_menu(s) for _, s in genome]):
                key = (str(c["genome"]), str(c["entries"]), c["strands"])
                if key not in done and (len(c["entries"]) > 2 or max(s for _, s in genome) > 2):
                    done.add(key)
                    yield c
    # duplicates and nested intervals on both sides of one boundary
    for s1, s2 in itertools.product(range(1, S + 1), repeat=2):
        genome = [("chr1", s1), ("chr10", s2)]
        e = [("chr1", 0, s1), ("chr1", s1 - 1, s1), ("chr1", s1 - 1, s1), ("chr10", 0, 1), ("chr10", 0, 1), ("chr10", 0, s2)]
        yield {"k": "sets", "genome": genome, "filter": "keep", "entries": e, "strands": "+-+-+-", "parts": "US", "distances": [0, 1, 2]}

    # --- sets, 3..4 chromosomes: boundary menu per chromosome (first base, last base, whole, both ends, nothing);
    #     quick uses {nothing, whole, both ends} for 4 chromosomes
    for genome, filt in genomes_multi(S, tier):
        full = thorough or len(genome) == 3
        menus = [boundary_menu(s) if full else small_menu(s) for _, s in genome]
        for i, choice in enumerate(itertools.product(*menus)):
            entries = [(genome[i][0], a, b) for i, ch in enumerate(choice) for a, b in ch]
            st = strand_patterns(len(entries), "quick")[i % 2 if len(entries) else 0]
            yield {"k": "sets", "genome": genome, "filter": filt, "entries": entries, "strands": st,
                   "parts": "US", "values": ("distinct", "edge", "const")[i % 3], "distances": [0, 1, 2] if i % 4 == 0 else [0, 1]}

    # --- options: sort_names=True (genome order = sorted names); with_ignored_added (entries on such contigs dropped)
    opt = [[("chr2", 2), ("chr10", 1), ("chr1", 3)], [("chr2", 1), ("chr1_alt", 2), ("chr1", 2)]]
    if thorough:
        opt += [[("chr2", S), ("chr10", S), ("chr1", S)], [("chrX", 1), ("chr2_r", 2), ("chr21", 3), ("chr2", 2)]]
    for genome in opt:
        for filt in ("keep", "ign"):
            o = {"genome": genome, "filter": filt, "sort_names": True}
            sg = sorted(genome)
            yield {"k": "offset", **o}
            entries = [(n, a, b) for n, s in sg for a, b in all_intervals(s)]
            yield {"k": "elem", **o, "entries": entries, "strands": strand_patterns(len(entries), "quick")[0], "lengths": list(range(1, S + 2))}
            yield {"k": "loc", **o, "locs": [(n, p) for n, s in sg for p in range(s)], "flanks": [0, 1, S], "window_sizes": [1, 2, S + 1],
                   "bin_sizes": [1, 2, S]}
            yield {"k": "array", **o, "values": "distinct"}
            for i, choice in enumerate(itertools.product(*[boundary_menu(s) for _, s in sg])):
                entries = [(sg[j][0], a, b) for j, ch in enumerate(choice) for a, b in ch]
                yield {"k": "sets", **o, "entries": entries, "strands": strand_patterns(len(entries), "quick")[i % 2 if entries else 0], "parts": "US"}
    for genome, filt in [([("chr1", 2), ("chr10", 3)], "keep"), ([("chr1", 3), ("chr1_alt", 2), ("chr2", 2)], "ign")] + \
            ([([("chr10", S), ("chr1", 1), ("chr2", S)], "keep")] if thorough else []):
        o = {"genome": genome, "filter": filt, "extra_ignored": ["chrM", "un_1"]}
        yield {"k": "offset", **o}
        for pos in range(len(genome) + 1):
            menu = boundary_menu if len(genome) == 2 or thorough else small_menu
            for i, choice in enumerate(itertools.product(*[menu(s) for _, s in genome])):
                per = [[(genome[j][0], a, b) for a, b in ch] for j, ch in enumerate(choice)]
                per.insert(pos, [("chrM", 0, 5), ("un_1", 1, 2)])
                entries = [e for grp in per for e in grp]
                yield {"k": "sets", **o, "entries": entries, "strands": strand_patterns(len(entries), "quick")[i % 2], "parts": "US"}
            locs = [[(n, p) for p in range(s)] for n, s in genome]
            locs.insert(pos, [("chrM", 7), ("un_1", 0)])
            yield {"k": "loc", **o, "locs": [l for grp in locs for l in grp], "flanks": [0, 1, S], "window_sizes": [1, 2, S + 1], "bin_sizes": [1, 2, S]}

    # --- fasta-backed sequence, default filter of Genome.from_file
    fasta_genomes = [([("chr1", 3), ("chr10", 2)], "ign"),
                     ([("chr1", 2), ("chr1_alt", 3), ("chr10", 1), ("chr2", 3)], "ign"),
                     ([("chr10", 3), ("chr1", 1), ("chr2", 2)], "ign")]
    if thorough:
        fasta_genomes += [([("chr1", S), ("chr10", S), ("chr2", S)], "ign"), ([("chrUn_x", 2), ("chr2", S), ("chr2_r", 1), ("chr21", 2)], "ign")]
    for genome, filt in fasta_genomes:
        every = [(n, a, b) for n, s in genome for a, b in all_intervals(s)]
        bound = [(n, a, b) for n, s in genome for a, b in ((0, 1), (s - 1, s), (0, s))]
        for width in (1, 2, 5):
            for source in ("fasta", "sizes"):
                for entries in (every, bound, every[::-1]):
                    for st in strand_patterns(len(entries), tier):
                        yield {"k": "fasta", "genome": genome, "filter": filt, "entries": entries, "strands": st, "width": width, "source": source}

    # --- more than 256 / 65536 sequence names; histories on stranded intervals followed by a strand-aware step
    yield from cross_cases(tier, S)
    yield from many_cases(tier)
    yield from hist_cases(tier, S)


class Col(Collector):
    """records the failing signature inside the stored case, so that replay() answers for THAT class only (a 'sets'
    case evaluates some twenty contracts and some of them fail on the unchanged tree for every input)"""

    def fail(self, signature, case, message):
        if isinstance(case, dict):
            case = dict(case, _sig=signature)
        super().fail(signature, case, message)


def norm(case):
    """JSON form (lists instead of tuples) so that replayed and live cases are identical"""
    import json
    return json.loads(json.dumps(case))


def run(tier="quick", seed=0):
    S = 3 if tier == "quick" else 4
    col = Col(PID, tier, seed,
                    "exhaustive: genomes of 1..4 chromosomes (sizes 1..%d; names chr1/chr10 prefix pairs in both orders, '_' names ignored "
                    "or kept) x {all valid positions / intervals at once for element-wise operations; every subset of <=2 intervals per "
                    "chromosome (<=3 for one chromosome) for 1..2 chromosomes; every combination of {none, first base, last base, whole, "
                    "both ends} per chromosome for 3..4 chromosomes} x strand patterns x parameters (distance, flank, window, bin, length); "
                    "distinct = distinct (genome, entries, operation, parameter); all cases non-trivial except the empty interval set; "
                    "plus genomes of 257..%d contigs (sizes 2..6, '_' names every 64th ignored or kept; %s contigs for GlobalOffset alone) "
                    "with entries on the contigs around every multiple of 256 / 65536; plus histories of 1..2 steps {sorted, index by "
                    "permutation / mask / slice, clip, extended_to_size, merged(0), concatenate, windows around 5' ends} on stranded "
                    "intervals (all intervals of 1..4 chromosomes, not in genome order, also sticking out of the chromosome) followed by "
                    "get_location / array / sequence extraction on the result; plus pairs of genome objects over the same 3..4 "
                    "chromosomes with different chromosome numbers (every order of chr1/chr2/chr10, sort_names, keep/ignore '_' names, "
                    "with_ignored_added, one chromosome more / fewer) x entry sets made by one genome (single intervals, all intervals "
                    "that fit into every chromosome, first / last bases) used with array / Geometry / GlobalOffset / map_locations / "
                    "BinnedGenome / sequence of the other: refused or answered by chromosome name"
                    % (S, 520 if tier == "quick" else 1030, "65600" if tier == "quick" else "65537..131100"))
    col.bounds = {"chromosomes": "1..4", "sizes": "1..%d" % S, "intervals_per_chromosome_exhaustive": "<=2 (<=3 single chromosome)",
                  "merge_distance": [0, 1, 2], "flank": "0..%d" % S, "window_size": "1..%d" % (S + 2), "bin_size": "1..%d" % (S + 1),
                  "fragment_length": "1..%d" % (S + 1), "fasta_line_width": [1, 2, 5],
                  "filters": ["keep all (Genome.from_dict default)", "ignore_underscores (Genome.from_file default)"],
                  "many_contigs": [257, 300, 520] if tier == "quick" else [256, 257, 258, 300, 520, 600, 1030],
                  "many_contigs_global_offset_only": [65600] if tier == "quick" else [65537, 65600, 70000, 131100],
                  "many_contigs_sizes": "2..6", "history_steps": "1..2",
                  "cross_genome_pairs": "3 chromosomes: all 6 orders + sort_names both ways; 4 chromosomes: keep/ignore '_', "
                                        "with_ignored_added, +-1 chromosome; sizes 1..%d; entry sets: single intervals (%s), all intervals "
                                        "fitting every chromosome, first bases, last bases" % (S, "boundary ones" if tier == "quick" else "all"),
                  "history_step_menu": "sorted, x[perm rev/rot/evenodd], x[mask even/odd/minus-rows], x[1:], clip, extended_to_size(1,2,%d), "
                                       "merged(0), np.concatenate([x, x]), get_location('start').get_windows(flank 0,1)" % (S + 1)}
    for case in gen_cases(tier):
        case = norm(case)
        col.guarded(lambda: GROUPS[case["k"]](col, case), "checker:" + case["k"], case)
        if col.out_of_time():
            break
    # report order only: classes that already fail on the unchanged tree (see ON_UNCHANGED_TREE) go last, so that
    # a class that is new on the tree under test is among the first ones listed
    col.failures.sort(key=lambda f: f["signature"] in ON_UNCHANGED_TREE)
    return col.result()


def replay(case):
    col = Col(PID, "quick", 0, "replay")
    case = norm(case)
    want = case.pop("_sig", None)
    col.guarded(lambda: GROUPS[case["k"]](col, case), "checker:" + case["k"], case)
    fails = [f for f in col.failures if want is None or f["signature"] == want]
    if fails:
        return False, "; ".join(f["signature"] + ": " + f["message"] for f in fails)
    return True, "ok" + ("" if want is None else " (contract class %s holds on this case)" % want)
