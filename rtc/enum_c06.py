"""C06 bounded stand-in: alphabet encodings accept exactly their alphabet and never change the text.

Contracts evaluated at run time on the real functions (bnp.as_encoded_array, enc.encode / enc.decode,
bnp.change_encoding, .to_string() / .tolist() / str() / from_encoded_array):

  encode      for text t and predefined alphabet encoding E:
                  every byte of t in the alphabet (a..z == A..Z)  ->  succeeds, and every decode observer gives
                                                                       upper(t) element for element, row for row
                  some byte foreign                               ->  raises an encoding error
              through every input kind of the type dispatch: str, list of str, base-encoded EncodedArray /
              EncodedRaggedArray, uint8 ndarray (1-D, 2-D), RaggedArray, numpy string arrays, pandas Series,
              list of EncodedArrays.
  retarget    for data already encoded with S and another encoding T:
              as_encoded_array(x, T), T.encode(x), change_encoding(x, T) either raise or return data that decodes to
              the same text (same rows); change_encoding (documented as decode-then-encode) must succeed when every
              letter is in T's alphabet.
  pieces      for a python list (tuple, object ndarray) whose ELEMENTS are already encoded - 1-d EncodedArrays (rows), 0-d
              EncodedArrays (single letters such as a[2]), or str - every piece with its own encoding (equal or mixed),
              with and without a target encoding: as_encoded_array(pieces[, T]) either raises or returns data that decodes
              to the text of the pieces, piece for piece; never relabelled letters.
  retarget on views
              the same three calls when the source is a NOT-YET-FLATTENED VIEW left by an earlier indexing step
              (a[::-1], a[idx], a[mask], a[1:4], a[::2], a[:, 1:], chains of them): a larger array is built and indexed,
              the view is handed over without being observed; the expected rows are plain Python list indexing
              (refmodels/alphabets.apply_view).  A failure that a freshly built array of the same text shows too is
              reported under the plain retarget signature, one that only the view shows under retarget-view:...
  numeric     offset encodings (quality / digit / cigar length): decode(encode(t)) == t, encode(t)[i] == t[i] - min.
  beyond 8 bits
              text given as python str (str, list of str, numpy '<U' / object arrays, pandas Series, str pieces) can hold
              characters that are no byte at all.  None is a member of any alphabet, so every alphabet encoding must refuse
              them like any other foreign character - in particular those whose code point CUT TO 8 OR 16 BITS is a member or
              the lower-case twin of a member ('A' + 0x100 = U+0141, 'a' + 0x10000 ...).  With the base encoding / no target /
              a numeric encoding as target: the call raises or the result reads back as the same characters.
  history     the encode contract for alphabet E evaluated AFTER other alphabet encodings (predefined ones, a second
              user-made one) have encoded text of their own in the same process: the case carries its history and replays
              it first, the input holds a character that is foreign to E but a member of an alphabet used before.  A failure
              that a process in which only E was ever used shows too is reported under the plain encode signature.
  observers   all decode observers agree with the upper-cased text for the full alphabet in both cases.
  layout      the same elements at the same indices lying differently in memory: 1-d / 2-d / 3-d arrays that are transposed
              (x.T), filled column-major (reshape(.., order="F")), sliced with steps / reversed along rows or columns, reduced to a
              row / column of such a view, overlapping windows (sliding_window_view), and chains of these (incl. a final reshape /
              ravel / copy).  Decode side: an alphabet-encoded array put through the steps unread, then every decode observer
              (enc.decode - same shape -, to_string, tolist, ravel, x[i], iteration, str, single elements, change_encoding to the
              base encoding and back, re-targeting to a compatible alphabet) must give the upper-cased text in row-major order of the
              INDICES.  Encode side: text as uint8 ndarray / base-encoded array put through the same steps and then encoded: accepted
              exactly when every element the view selects is in the alphabet (a foreign byte at every position of the underlying
              array, also where the view leaves it out), same shape, same letters.  Oracle: refmodels/ndlayout.py (index arithmetic
              on lists).  Failures that a freshly built row-major array of the same elements shows too: ..:any-layout.

Scope: see `bounds` in the result.  The oracle is rtc/refmodels/alphabets.py (spec alphabets + ASCII upper-casing);
the library is never used to compute an expected value.
"""
import itertools
import time

from .common import Collector
from .refmodels.alphabets import (ALPHABETS, ALIASES, alphabet_bytes, is_letter_lower, valid, all_valid, expected_text,
                                  foreign_bytes, classify_foreign, apply_view, apply_view_flat, case_twins, wide_points,
                                  classify_wide)
from .refmodels import ndlayout as nd

ENC_NAMES = list(ALPHABETS)
NUMERIC = {"Quality": 33, "NumDigit": 48, "CigarLen": 0}
FLAT_PATHS = ["str", "encstr", "ndarray", "base"]
RAGGED_PATHS = ["list", "enclist", "baseragged", "ragged", "nparr_U", "nparr_O", "series", "nd2", "list_of_base_arrays"]
CORE_RAGGED = ["list", "enclist", "baseragged", "ragged", "nd2"]      # the others convert to a list of str first
STR_FLAT_PATHS = ["str", "encstr"]                                    # input kinds that hold python str: characters >= 256 possible
STR_RAGGED_PATHS = ["list", "enclist", "nparr_U", "nparr_O", "series"]


# ----------------------------------------------------------------------------------------------- library access
def get_enc(name):
    from bionumpy.encodings import alphabet_encoding as ae
    import bionumpy.encodings as encs
    from bionumpy.encoded_array import BaseEncoding
    if name in ALPHABETS:
        return getattr(ae, name)
    if name in ALIASES:
        return getattr(ae, name)
    if name.startswith("fresh:"):
        return ae.AlphabetEncoding(name[6:])
    if name == "Base":
        return BaseEncoding
    if name == "Quality":
        return encs.QualityEncoding
    if name == "NumDigit":
        return encs.DigitEncoding
    if name == "CigarLen":
        return encs.CigarEncoding
    raise KeyError(name)


def spec_alphabet(name):
    """alphabet (upper-cased str) of an encoding name, None when the encoding has no alphabet (accepts every byte)"""
    if name in ALPHABETS:
        return ALPHABETS[name]
    if name in ALIASES:
        return ALPHABETS[ALIASES[name]]
    if name.startswith("fresh:"):
        return name[6:].upper()
    return None


def s_of(data):
    return "".join(chr(b) for b in data)


def _encoding_error_types(path, data):
    from bionumpy.encodings.exceptions import EncodingError
    ok = [EncodingError]
    if path in ("str", "encstr") and any(b >= 128 for b in data):
        ok.append(UnicodeEncodeError)      # str input is documented as ASCII text
    if any(b >= 256 for b in data):
        # a character that is no byte at all: being refused by the conversion to bytes counts as an encoding error
        # (python: UnicodeEncodeError, numpy narrowing to uint8: OverflowError)
        ok += [UnicodeEncodeError, OverflowError]
    return tuple(ok)


# ----------------------------------------------------------------------------------------------- builders
def build_flat(path, data, enc):
    import numpy as np
    import bionumpy as bnp
    from bionumpy.encoded_array import EncodedArray, BaseEncoding
    if path == "str":
        return bnp.as_encoded_array(s_of(data), enc)
    if path == "encstr":
        return enc.encode(s_of(data))
    if path == "ndarray":
        return enc.encode(np.array(data, dtype=np.uint8))
    if path == "base":
        return bnp.as_encoded_array(EncodedArray(np.array(data, dtype=np.uint8), BaseEncoding), enc)
    raise KeyError(path)


def ragged_path_applicable(path, rows):
    if path not in STR_RAGGED_PATHS and any(b >= 256 for r in rows for b in r):
        return False                        # bytes cannot hold such characters
    if path in ("nparr_U", "nparr_O", "series", "list_of_base_arrays"):
        if len(rows) == 0:
            return False
    if path == "nparr_U" and any(b == 0 for r in rows for b in r):
        return False                        # numpy '<U' strips trailing NULs: not the same input any more
    if path == "nd2":
        return len(rows) >= 1 and len(rows[0]) >= 1 and all(len(r) == len(rows[0]) for r in rows)
    return True


def build_ragged(path, rows, enc):
    import numpy as np
    import bionumpy as bnp
    from npstructures import RaggedArray
    from bionumpy.encoded_array import EncodedArray, EncodedRaggedArray, BaseEncoding
    lens = [len(r) for r in rows]
    strs = [s_of(r) for r in rows]
    flat = None if path in STR_RAGGED_PATHS else np.array([b for r in rows for b in r], dtype=np.uint8)
    if path == "list":
        return bnp.as_encoded_array(strs, enc)
    if path == "enclist":
        return enc.encode(strs)
    if path == "baseragged":
        return bnp.as_encoded_array(EncodedRaggedArray(EncodedArray(flat, BaseEncoding), lens), enc)
    if path == "ragged":
        return enc.encode(RaggedArray(flat, lens))
    if path == "nparr_U":
        return bnp.as_encoded_array(np.array(strs), enc)
    if path == "nparr_O":
        return bnp.as_encoded_array(np.array(strs, dtype=object), enc)
    if path == "series":
        import pandas as pd
        return bnp.as_encoded_array(pd.Series(strs, dtype=object), enc)
    if path == "nd2":
        return enc.encode(np.array(rows, dtype=np.uint8))
    if path == "list_of_base_arrays":
        return bnp.as_encoded_array([EncodedArray(np.array(r, dtype=np.uint8), BaseEncoding) for r in rows], enc)
    raise KeyError(path)


# ----------------------------------------------------------------------------------------------- observers
def text_flat(r):
    return r.to_string()


def rows_of(r, lens):
    """rows of text of a result that stands for len(lens) rows"""
    from bionumpy.encoded_array import EncodedArray, EncodedRaggedArray
    if isinstance(r, EncodedRaggedArray):
        return r.tolist()
    if isinstance(r, EncodedArray):
        if r.ndim == 2:
            return [r[i].to_string() for i in range(r.shape[0])]
        t = r.to_string()           # flattened result (FlatAlphabetEncoding): cut by the input row lengths
        out, o = [], 0
        for n in lens:
            out.append(t[o:o + n])
            o += n
        if o != len(t):
            out.append(t[o:])
        return out
    raise TypeError("unexpected result type %s" % type(r).__name__)


def decoded_rows(enc, r, lens):
    """the same through enc.decode(..)"""
    from bionumpy.encoded_array import EncodedArray, EncodedRaggedArray
    d = enc.decode(r)
    if isinstance(d, EncodedRaggedArray):
        return [s_of(x) for x in d.raw().tolist()]
    raw = d.raw()
    if raw.ndim == 2:
        return [s_of(x) for x in raw.tolist()]
    t = s_of(raw.tolist())
    out, o = [], 0
    for n in lens:
        out.append(t[o:o + n])
        o += n
    if o != len(t):
        out.append(t[o:])
    return out


def how_differs(got, exp):
    """got / exp: lists of str"""
    if not isinstance(got, list) or not all(isinstance(g, str) for g in got):
        return "not-text"
    if got == exp:
        return None
    if "".join(got) == "".join(exp):
        return "row-boundaries"
    if len("".join(got)) != len("".join(exp)):
        return "length"
    if [g.upper() for g in got] == exp:
        return "not-upper-cased"
    return "letters"


# ----------------------------------------------------------------------------------------------- contract: encode
def eval_enc(col, case):
    """case: {"k":"enc","enc":name,"path":p, "data":[bytes]} (flat) or {... "rows":[[bytes],..]} (rows)"""
    name, path = case["enc"], case["path"]
    alphabet = spec_alphabet(name)
    enc = get_enc(name)
    is_flat = "data" in case
    rows = [list(case["data"])] if is_flat else [list(r) for r in case["rows"]]
    allb = [b for r in rows for b in r]
    lens = [len(r) for r in rows]
    exp = [expected_text(r) for r in rows]
    ok_expected = all_valid(allb, alphabet)
    wide = any(b >= 256 for b in allb)
    col.case(case, nontrivial=len(allb) > 0, contract="encode:" + ("accepts+roundtrip" if ok_expected else
                                                                     "rejects-foreign:beyond-latin1" if wide else "rejects-foreign"))
    try:
        r = build_flat(path, rows[0], enc) if is_flat else build_ragged(path, rows, enc)
    except Exception as e:
        if ok_expected:
            kind = "lower" if any(97 <= b <= 122 for b in allb) else "upper"
            col.fail("encode:rejects-alphabet-member:%s:%s:%s" % (kind, path, type(e).__name__), case,
                     "%s: %s raised %s: %s" % (name, exp, type(e).__name__, str(e)[:200]))
        else:
            col.check(isinstance(e, _encoding_error_types(path, allb)),
                      "encode:foreign:%swrong-exception-type:%s:%s" % ("beyond-latin1:" if wide else "", type(e).__name__, path), case,
                      "%s: foreign input %r raised %s, not an encoding error: %s" % (name, rows, type(e).__name__, str(e)[:200]))
        return
    if path == "list_of_base_arrays" and getattr(r, "encoding", None) != enc:
        # the whole region fails the same way (the target encoding is not applied at all): one signature.  Only
        # observable violations of the statement count: a foreign byte accepted, or text that is not the upper-cased input
        got = _safe(lambda: rows_of(r, lens))
        col.check(ok_expected and got == exp, "as_encoded_array:list-of-encoded-arrays:target-encoding-ignored", case,
                  "%s: as_encoded_array([base-encoded arrays], enc) returned encoding %r and text %r for input %r: "
                  "neither validated nor upper-cased" % (name, getattr(r, "encoding", None), got, [s_of(x) for x in rows]))
        return
    if not ok_expected:
        fb = foreign_bytes(allb, alphabet)
        cls = classify_foreign(fb, alphabet)
        sig = "encode:accepts-foreign:" + (cls if cls == "nonletter+32" else cls + ":" + path)
        if any(f >= 256 for f in fb):
            sig = "encode:accepts-foreign:beyond-latin1:%s:%s" % (classify_wide(fb, alphabet), path)
        col.fail(sig, case, "%s accepted %r (foreign bytes %r) and decodes it to %r"
                 % (name, rows, fb, _safe(lambda: rows_of(r, lens))))
        return
    # accepted: every observer must give the upper-cased original, row for row
    for obs, f in (("text", lambda: [text_flat(r)] if is_flat else rows_of(r, lens)),
                   ("decode", lambda: decoded_rows(enc, r, lens))):
        try:
            got = f()
        except Exception as e:
            col.fail("encode-decode:observer-raises:%s:%s:%s" % (obs, path, type(e).__name__), case,
                     "%s: %s of encoded %r raised %s: %s" % (name, obs, exp, type(e).__name__, str(e)[:200]))
            continue
        h = how_differs(got, exp)
        col.check(h is None, "encode-decode:text-changed:%s:%s:%s" % (h, obs, path), case,
                  "%s: %r decodes to %r, expected %r" % (name, rows, got, exp))
    if path == "nd2" and name != "StrandEncoding":      # FlatAlphabetEncoding flattens by design
        col.check(tuple(r.shape) == (len(rows), lens[0]), "encode-decode:shape-changed:nd2", case,
                  "shape %r expected %r" % (tuple(r.shape), (len(rows), lens[0])))


def _safe(f):
    try:
        return f()
    except Exception as e:
        return "<%s>" % type(e).__name__


# ----------------------------------------------------------------------------------------------- contract: retarget
def eval_retarget(col, case):
    """case: {"k":"retarget","src":S,"dst":T,"fn":..., "data":[bytes]} or "rows" """
    import bionumpy as bnp
    src, dst, fn = case["src"], case["dst"], case["fn"]
    S, T = get_enc(src), get_enc(dst)
    is_flat = "data" in case
    rows = [list(case["data"])] if is_flat else [list(r) for r in case["rows"]]
    lens = [len(r) for r in rows]
    exp = [expected_text(r) for r in rows]
    x = bnp.as_encoded_array(s_of(rows[0]), S) if is_flat else bnp.as_encoded_array([s_of(r) for r in rows], S)
    if ([x.to_string()] if is_flat else x.tolist()) != exp:
        return          # the source itself is mis-encoded: reported by the encode contract, nothing to re-target
    col.case(case, nontrivial=sum(lens) > 0, contract="retarget:" + fn)
    v = _retarget_verdict(fn, x, T, rows, lens, exp, is_flat, src, dst)
    if v is not None:
        col.fail(_retarget_signature(fn, v[0]), case, v[1])


def _retarget_verdict(fn, x, T, rows, lens, exp, is_flat, src, dst, text_source=False):
    """the retarget contract on one prepared source x: None when it holds, else (failure class, message).
    text_source: x is plain text (base-encoded / bytes), so the first sentence of the property applies as well:
    the call must succeed when every character is in the target alphabet"""
    import bionumpy as bnp
    talpha = spec_alphabet(dst)
    try:
        if fn == "as_encoded_array":
            r = bnp.as_encoded_array(x, T)
        elif fn == "encode":
            r = T.encode(x)
        else:
            r = bnp.change_encoding(x, T)
    except Exception as e:
        if fn == "change_encoding" or text_source:
            inside = talpha is None or all_valid([b for r_ in rows for b in r_], talpha)
            if inside:
                return ("raises-although-text-in-target-alphabet:%s" % type(e).__name__,
                        "%s -> %s: %r raised %s: %s" % (src, dst, exp, type(e).__name__, str(e)[:200]))
        return None
    try:
        got = [text_flat(r)] if is_flat else rows_of(r, lens)
    except Exception as e:
        # the call returned (did not raise), so the data it yielded must decode to the same text; it does not decode at all
        return ("result-not-decodable:%s" % type(e).__name__,
                "%s -> %s: %r was accepted but the result cannot be decoded: %s" % (src, dst, exp, str(e)[:200]))
    h = how_differs(got, exp)
    if h is None:
        return None
    if h in ("row-boundaries", "not-text"):
        return ("rows-changed", "%s -> %s: %r became %r" % (src, dst, exp, got))
    return ("different-letters:%s" % _classify_retarget(rows, exp, got, src, talpha, fn),
            "%s -> %s: %r silently became %r" % (src, dst, exp, got))


def _retarget_signature(fn, cls):
    if cls.startswith("raises-although-text-in-target-alphabet:") and fn == "change_encoding":
        return "change_encoding:" + cls
    return "retarget:%s:%s" % (fn, cls)


def _classify_retarget(rows, exp, got, src, talpha, fn):
    e, g = "".join(exp), "".join(got)
    if len(e) != len(g):
        return "length"
    salpha = spec_alphabet(src)
    diffs = [(a, b) for a, b in zip(e, g) if a != b]
    plus32 = talpha is not None and all(
        ord(a) not in alphabet_bytes(talpha) and (ord(a) - 32) in alphabet_bytes(talpha) and ord(b) == ord(a) - 32
        for a, b in diffs)
    maxcode = None
    if salpha is not None:
        codes = [salpha.index(c) for c in e]
        m = max(codes)
        maxcode = all(salpha.index(a) == m for a, _ in diffs)
    order = ("maxcode", "plus32") if fn == "as_encoded_array" else ("plus32", "maxcode")
    for o in order:
        if o == "maxcode" and maxcode:
            return "only-at-max-code"
        if o == "plus32" and plus32:
            return "foreign-accepted-as-nonletter+32"
    return "other"


def eval_retarget_other(col, case):
    """sources with a k-mer / string encoding presented to an alphabet encoding: must raise or keep the text"""
    import bionumpy as bnp
    from bionumpy.encodings.kmer_encodings import KmerEncoding
    from bionumpy.encodings.string_encodings import StringEncoding
    T = get_enc(case["dst"])
    if case["src"] == "kmer":
        x = KmerEncoding(get_enc("ACGTEncoding"), 2).encode(case["text"])
        exp = case["text"].upper()
        obs = lambda r: r.to_string()
    else:
        x = StringEncoding(case["labels"]).encode(case["texts"])
        exp = list(case["texts"])
        obs = lambda r: [r[i].to_string() for i in range(len(r))]
    col.case(case, contract="retarget:" + case["fn"])
    try:
        r = bnp.as_encoded_array(x, T) if case["fn"] == "as_encoded_array" else T.encode(x)
        got = obs(r)
    except Exception:
        return
    col.check(got == exp, "retarget:%s:different-letters:from-%s-encoding" % (case["fn"], case["src"]), case,
              "%r silently became %r under %s" % (exp, got, case["dst"]))


# ----------------------------------------------------------------------------------------------- contract: lists of encoded pieces
# The list branch of the type dispatch when the ELEMENTS are already encoded: a python list (tuple, object ndarray) whose
# pieces are 1-d EncodedArrays (rows: a[i:j], a ragged row, a freshly encoded string, a strided view), 0-d EncodedArrays
# (single letters: a[i], rr[r, c], a[::-1][i]) or plain str, every piece with its OWN encoding.  Oracle: the call raises,
# or the result decodes to the text of the pieces, piece for piece (a flat result is accepted when every piece is one letter).
PIECE_ENCS = ENC_NAMES + ["Base", "fresh:ACGT"]
PIECE_TARGETS = [None] + ENC_NAMES + ["Base", "Quality"]
LETTER_HOWS = ("index", "ragged", "view")
ROW_HOWS = ("slice", "ragged-row", "fresh", "strided")


_PIECE_SOURCES = {}


def _piece_source(enc_name, text):
    """the array a piece is taken from: built once per (encoding, text) with the public API; every piece is a NEW object
    obtained from it by indexing (the library's encode call dominates the cost of a case otherwise)"""
    import bionumpy as bnp
    key = (enc_name, text if isinstance(text, str) else tuple(text))
    if key not in _PIECE_SOURCES:
        if len(_PIECE_SOURCES) > 20000:
            _PIECE_SOURCES.clear()
        _PIECE_SOURCES[key] = bnp.as_encoded_array(text, get_enc(enc_name))
    return _PIECE_SOURCES[key]


def build_piece(p):
    """one piece, taken out of an array built with the public API from its text; nothing of it is read here"""
    data = list(p["data"])
    if p["as"] == "str":
        return s_of(data)
    enc = p["enc"]
    how = p.get("how") or ("index" if p["as"] == "letter" else "slice")
    if p["as"] == "letter":
        b = data[0]
        q = p.get("pad", b)
        if how == "index":          # a[1] of  q b q  (the neighbours differ where the text allows it)
            return _piece_source(enc, s_of([q, b, q]))[1]
        if how == "ragged":         # rr[1, 1] of a ragged array
            return _piece_source(enc, [s_of([q]), s_of([q, b]), ""])[1, 1]
        if how == "view":           # element of a reversed view
            return _piece_source(enc, s_of([b, q, q]))[::-1][2]
        raise KeyError(how)
    pad = [p["pad"]] if "pad" in p else (data[:1] or [])
    if how == "slice":
        return _piece_source(enc, s_of(pad + data + pad))[len(pad):len(pad) + len(data)]
    if how == "ragged-row":
        return _piece_source(enc, [s_of(pad), s_of(data), ""])[1]
    if how == "fresh":
        import bionumpy as bnp
        return bnp.as_encoded_array(s_of(data), get_enc(enc))
    if how == "strided":
        return _piece_source(enc, s_of([b for d in data for b in (d, pad[0])]))[::2]
    raise KeyError(how)


def build_container(kind, items):
    import numpy as np
    if kind == "list":
        return list(items)
    if kind == "tuple":
        return tuple(items)
    if kind == "object-array":
        o = np.empty(len(items), dtype=object)
        for i, it in enumerate(items):
            o[i] = it
        return o
    raise KeyError(kind)


def piece_shape_kind(pieces):
    kinds = {p["as"] for p in pieces}
    if "str" in kinds:
        return "with-str"
    if kinds == {"letter"}:
        return "letters"
    if kinds == {"row"}:
        return "rows"
    return "letters+rows" if kinds else "empty"


def piece_encodings_mixed(pieces):
    """spec level: do the codes of the encoded pieces mean the same letters?  (same alphabet <=> equal encodings)"""
    alph = {spec_alphabet(p["enc"]) or p["enc"] for p in pieces if p["as"] != "str"}
    if any(p["as"] == "str" for p in pieces):
        alph.add("<str>")
    return len(alph) > 1


def observe_pieces_result(r, T):
    """('rows', [str]) | ('flat', str) of whatever the call returned; raises when it cannot be decoded"""
    import numpy as np
    from npstructures import RaggedArray
    from bionumpy.encoded_array import EncodedArray, EncodedRaggedArray
    if isinstance(r, EncodedRaggedArray):
        return "rows", r.tolist()
    if isinstance(r, EncodedArray):
        if r.ndim == 2:
            return "rows", [r[i].to_string() for i in range(r.shape[0])]
        return "flat", r.to_string()
    if T is not None and T.is_numeric() and isinstance(r, (np.ndarray, RaggedArray)):
        d = T.decode(r)             # numeric target: the values stand for the bytes value + offset
        if isinstance(d, RaggedArray):
            return "rows", [s_of(int(v) for v in row) for row in d.tolist()]
        d = np.asarray(d)
        if d.ndim == 2:
            return "rows", [s_of(int(v) for v in row) for row in d.tolist()]
        return "flat", s_of(int(v) for v in d.ravel())
    return "not-text", type(r).__name__


_PIECE_PROBE = {}


def _piece_reads_back(p, e):
    key = (p["as"], p["enc"], tuple(p["data"]), p.get("how"), p.get("pad"))
    if key not in _PIECE_PROBE:
        _PIECE_PROBE[key] = _safe(lambda: build_piece(p).to_string()) == e
    return _PIECE_PROBE[key]


def eval_pieces(col, case):
    """case: {"k":"pieces","pieces":[{"as":"letter"|"row"|"str","enc":name,"data":[bytes],"how":..,"pad":byte}, ..],
              "dst": name | None, "container": "list" | "tuple" | "object-array"}"""
    import bionumpy as bnp
    pieces = case["pieces"]
    dst = case.get("dst")
    T = get_enc(dst) if dst else None
    cont = case.get("container", "list")
    exp = [expected_text(p["data"]) for p in pieces]
    # on SEPARATE copies: every piece reads back as its text (else the encode contract reports it)
    for p, e in zip(pieces, exp):
        if p["as"] != "str" and not _piece_reads_back(p, e):
            return
    items = [build_piece(p) for p in pieces]
    x = build_container(cont, items)
    shape = piece_shape_kind(pieces)
    mixed = "mixed-encodings" if piece_encodings_mixed(pieces) else "equal-encodings"
    other_target = dst is not None and any((spec_alphabet(p["enc"]) or p["enc"]) != (spec_alphabet(dst) or dst)
                                           for p in pieces if p["as"] != "str")
    tail = "%s:%s%s" % (shape + ("" if cont == "list" else ":" + cont), mixed, ":target-differs" if other_target else "")
    col.case(case, nontrivial=len(pieces) >= 2 and sum(len(e) for e in exp) > 0, contract="pieces:as_encoded_array:" + tail)
    try:
        r = bnp.as_encoded_array(x) if T is None else bnp.as_encoded_array(x, T)
    except Exception:
        return                      # refused: the property holds
    if r is x:
        return                      # handed back untouched (an ndarray with a numeric target counts as encoded already)
    descr = "as_encoded_array(%s of %s%s)" % (cont, ", ".join("%s %s %r" % (p["as"], p.get("enc", ""), e) for p, e in zip(pieces, exp)),
                                              ", %s" % dst if dst else "")
    try:
        form, got = observe_pieces_result(r, T)
    except Exception as e:
        col.fail("pieces:as_encoded_array:result-not-decodable:%s:%s" % (type(e).__name__, tail), case,
                 "%s was accepted but the result cannot be decoded: %s" % (descr, str(e)[:200]))
        return
    if form == "not-text":
        col.fail("pieces:as_encoded_array:result-not-text:" + tail, case, "%s returned a %s" % (descr, got))
        return
    if form == "flat":
        ok = got == "".join(exp) and shape in ("letters", "empty")
        h = None if ok else ("rows-changed" if got == "".join(exp) else how_differs([got], ["".join(exp)]))
    else:
        h = how_differs(got, exp)
        if h == "row-boundaries":
            h = "rows-changed"
    col.check(h is None, "pieces:as_encoded_array:%s:%s" % ("different-letters" if h == "letters" else h, tail), case,
              "%s silently became %r (result encoding %r), expected %r" % (descr, got, getattr(r, "encoding", None), exp))


# ----------------------------------------------------------------------------------------------- contract: retarget on views
TEXT_SOURCES = ("Base", "Bytes")       # base-encoded arrays and plain uint8 (ragged) arrays: text, not yet alphabet-encoded


def _read_source(a, src, is_flat):
    if src == "Bytes":
        return [s_of(a.tolist())] if is_flat else [s_of(r) for r in a.tolist()]
    return [a.to_string()] if is_flat else a.tolist()


def _subscript(step):
    import numpy as np
    spec = step["rows"]
    kind = spec[0]
    if kind == "all":
        k = slice(None)
    elif kind == "slice":
        k = slice(spec[1], spec[2], spec[3])
    elif kind == "list":
        k = list(spec[1])
    elif kind == "array":
        k = np.array(spec[1], dtype=int)
    elif kind == "mask":
        k = np.array(spec[1], dtype=bool)
    else:
        raise KeyError(kind)
    if step.get("cols") is not None:
        k = (k, slice(step["cols"][0], step["cols"][1]))
    return k


def build_source(src, rows, is_flat):
    """a freshly built, contiguous array with encoding `src` holding `rows` (one flat row when is_flat)"""
    import numpy as np
    import bionumpy as bnp
    from npstructures import RaggedArray
    from bionumpy.encoded_array import EncodedArray, EncodedRaggedArray, BaseEncoding
    if src in TEXT_SOURCES:
        flat = np.array([b for r in rows for b in r], dtype=np.uint8)
        if src == "Bytes":
            return flat if is_flat else RaggedArray(flat, [len(r) for r in rows])
        if is_flat:
            return EncodedArray(flat, BaseEncoding)
        return EncodedRaggedArray(EncodedArray(flat, BaseEncoding), [len(r) for r in rows])
    S = get_enc(src)
    return bnp.as_encoded_array(s_of(rows[0]), S) if is_flat else bnp.as_encoded_array([s_of(r) for r in rows], S)


def take_view(x, steps):
    """the earlier indexing steps; nothing of the result is read here"""
    for st in steps:
        x = x[_subscript(st)]
    return x


_PROBE = {}


def _source_probe(src, big, steps, is_flat, source_text):
    """On a SEPARATE copy: 'ok' when the freshly built array reads back as `big` and the view of it as `source_text`;
    'source' when the plain array is already mis-encoded (the encode contract reports that), else a message."""
    import json
    # one probe per (source kind, row lengths, set of letters, view): what is probed does not depend on which letter sits where
    key = json.dumps([src, [len(r) for r in big], sorted({b for r in big for b in r}), steps, is_flat])
    if key not in _PROBE:
        if len(_PROBE) > 20000:
            _PROBE.clear()
        read = lambda a: _read_source(a, src, is_flat)
        full = [s_of(r) if src in TEXT_SOURCES else expected_text(r) for r in big]
        try:
            if read(build_source(src, big, is_flat)) != full:
                res = "source"
            else:
                got = read(take_view(build_source(src, big, is_flat), steps))
                res = "ok" if got == source_text else "view reads %r, list indexing gives %r" % (got, source_text)
        except Exception as e:
            res = "building / reading the view raised %s: %s" % (type(e).__name__, str(e)[:200])
        _PROBE[key] = res
    return _PROBE[key]


def eval_retarget_view(col, case):
    """case: {"k":"retarget_view","src":S,"dst":T,"fn":..,"big":[[bytes],..] | "bigdata":[bytes], "view":[steps]}
    the source handed to fn is  take_view(<fresh array of big>, view)  and has not been read before the call"""
    src, dst, fn, steps = case["src"], case["dst"], case["fn"], case["view"]
    T = get_enc(dst)
    is_flat = "bigdata" in case
    big = [list(case["bigdata"])] if is_flat else [list(r) for r in case["big"]]
    rows = [apply_view_flat(big[0], steps)] if is_flat else apply_view(big, steps)
    lens = [len(r) for r in rows]
    # base-encoded text keeps its case unless the target is an alphabet encoding (the encode contract: upper-cased)
    is_text = src in TEXT_SOURCES
    keeps_case = is_text and spec_alphabet(dst) is None
    exp = [s_of(r) if keeps_case else expected_text(r) for r in rows]
    probe = _source_probe(src, big, steps, is_flat, [s_of(r) if is_text else expected_text(r) for r in rows])
    if probe == "source":
        return          # as in eval_retarget: reported by the encode contract
    if probe != "ok":
        col.case(case, contract="retarget-view:source")
        col.fail("retarget-view:source-view-differs-from-list-indexing", case, "%s %r view %r: %s" % (src, big, steps, probe))
        return
    x = take_view(build_source(src, big, is_flat), steps)
    pending = (not is_flat) and getattr(x, "is_contigous", None) is False      # attribute read only, flattens nothing
    col.case(case, nontrivial=sum(lens) > 0 and (pending or is_flat),
             contract="retarget-view:%s:%s" % (fn, "flat-strided" if is_flat else "ragged-unflattened" if pending
                                               else "ragged-already-contiguous"))
    v = _retarget_verdict(fn, x, T, rows, lens, exp, is_flat, src, dst, is_text)
    if v is None:
        return
    # is it the view?  the same text, freshly built and contiguous
    plain = {"k": "retarget", "src": src, "dst": dst, "fn": fn}
    plain["data" if is_flat else "rows"] = rows[0] if is_flat else rows
    c = _safe_verdict(fn, build_source(src, rows, is_flat), T, rows, lens, exp, is_flat, src, dst, is_text)
    if c is not None:
        # not specific to views: the plain class, and the plain case when eval_retarget expects the same text for it
        same = src != "Bytes" and (not keeps_case or all(not is_letter_lower(b) for r in rows for b in r))
        col.fail(_retarget_signature(fn, c[0]), plain if same else case, c[1])
        return
    cls = v[0]
    if cls.startswith(("rows-changed", "different-letters")):
        cls = "wrong-text-only-for-views"
    col.fail("retarget-view:%s:%s" % (fn, cls), case,
             "source = <%s array of %r>%s (not read before the call); a fresh array of the same text is handled correctly; %s"
             % (src, [s_of(r) for r in big], _view_str(steps), v[1]))


def _safe_verdict(*a):
    try:
        return _retarget_verdict(*a)
    except Exception:
        return None


def _view_str(steps):
    out = ""
    for st in steps:
        sp = st["rows"]
        if sp[0] == "all":
            r = ":"
        elif sp[0] == "slice":
            r = ":".join("" if v is None else str(v) for v in sp[1:4])
        elif sp[0] == "mask":
            r = "mask%r" % (sp[1],)
        else:
            r = ("%r" if sp[0] == "list" else "array(%r)") % (sp[1],)
        if st.get("cols") is not None:
            r += ", " + ":".join("" if v is None else str(v) for v in st["cols"])
        out += "[%s]" % r
    return out


# ----------------------------------------------------------------------------------------------- contract: memory layouts
# The same elements at the same indices, lying differently in memory: a transposed view (x.T), a column-major fill
# (reshape(.., order="F")), strided / reversed row and column slices, rows or columns picked out of them, overlapping windows
# (sliding_window_view), chains of these - for 1-d, 2-d and 3-d arrays.  Two sides:
#   decode side  an alphabet-encoded array is built with the public API, the steps are applied (nothing is read), then EVERY decode
#                observer must give the upper-cased text element for element: enc.decode(x) (same shape), x.to_string() / tolist() /
#                ravel() (row-major order of the indices), x[i] and iteration (row for row), str(x), every single element,
#                change_encoding to the base encoding and back, re-targeting to a compatible alphabet.
#   encode side  text as a uint8 ndarray / base-encoded EncodedArray is put through the same steps and THEN handed to enc.encode /
#                as_encoded_array: accepted exactly when every element the view selects is in the alphabet, same shape, same letters.
# Oracle: refmodels/ndlayout.py (index arithmetic on plain lists).  A failure that a freshly built row-major array holding the same
# elements shows too is reported as ..:any-layout (foreign bytes: under the plain encode signature), else as ..:only-<layout>.
LAYOUT_TEXT_SOURCES = ("Base", "Bytes")
LAYOUT_PARTNER = {"ACGTEncoding": "ACGTnEncoding", "ACTGEncoding": "ACTGnEncoding", "ACGTnEncoding": "ACGTEncoding",
                  "ACUGEncoding": "ACGTEncoding", "DigitEncoding": "fresh:0123456789"}


def layout_label(a):
    """how the array handed over lies in memory, from its shape / strides attributes only (names the failure class)"""
    shape, strides, item = tuple(a.shape), tuple(a.strides), a.itemsize
    if nd.size_of(shape) == 0:
        return "empty"
    c, mul = [], item
    for n in reversed(shape):
        c.append(mul)
        mul *= n
    c.reverse()
    if all(s_ == e for s_, e, n in zip(strides, c, shape) if n > 1):
        return "row-major"
    eff = [(abs(s_), n) for s_, n in zip(strides, shape) if n > 1]
    if any(eff[i][0] < eff[i + 1][0] for i in range(len(eff) - 1)):
        return "axes-permuted"
    if sum(s_ * (n - 1) for s_, n in eff) + item < item * nd.size_of(shape):
        return "overlapping"
    return "strided"


def _lib_steps(x, steps):
    """the same steps on the real array (EncodedArray or ndarray); nothing of the result is read here"""
    import numpy as np
    for st in steps:
        if st[0] == "T":
            x = x.T
        elif st[0] == "idx":
            x = x[tuple(slice(u[1], u[2], u[3]) if u[0] == "s" else u[1] if u[0] == "i" else list(u[1]) for u in st[1])]
        elif st[0] == "reshape":
            x = x.reshape(tuple(st[1]))
        elif st[0] == "ravel":
            x = x.ravel()
        elif st[0] == "copy":
            x = x.copy()
        elif st[0] == "window":
            x = np.lib.stride_tricks.sliding_window_view(x, st[1])
        else:
            raise KeyError(st[0])
    return x


def build_layout_source(src, seq, shape, order, enc):
    import numpy as np
    import bionumpy as bnp
    from bionumpy.encoded_array import EncodedArray, BaseEncoding
    if src in LAYOUT_TEXT_SOURCES:
        a = np.array(seq, dtype=np.uint8).reshape(tuple(shape), order=order)
        return a if src == "Bytes" else EncodedArray(a, BaseEncoding)
    return bnp.as_encoded_array(s_of(seq), enc).reshape(tuple(shape), order=order)


def _flatten(v):
    if isinstance(v, list):
        return [e for u in v for e in _flatten(u)]
    return [v]


def _layout_how(got, exp):
    if isinstance(exp, str):
        return how_differs([got], [exp]) if isinstance(got, str) else "not-text"
    if isinstance(exp, list):
        return how_differs(got, exp)
    return "shape" if got[0] != exp[0] else "letters"


def layout_failures(x, name, arr, dst=None):
    """every decode observer on x against the model array arr = (shape, upper-cased bytes): [(observer, how, message)]"""
    import re
    import bionumpy as bnp
    from bionumpy.encoded_array import BaseEncoding
    enc = get_enc(name)
    shape, flat = arr
    text = s_of(flat)
    ndim, size = len(shape), len(flat)
    block_texts = [s_of(b) for b in nd.blocks(arr)] if ndim >= 1 else None
    keep = []               # the base-encoded copy change_encoding returned (when it raised that is reported once, there)
    obs = [("decode", lambda: (lambda d: (tuple(d.raw().shape), _flatten(d.raw().tolist())))(enc.decode(x)), (tuple(shape), list(flat))),
           ("to_string", lambda: x.to_string(), text),
           ("tolist", lambda: x.tolist(), text),
           ("ravel", lambda: x.ravel().to_string(), text),
           ("change_encoding:base", lambda: keep.append(bnp.change_encoding(x, BaseEncoding)) or keep[0].to_string(), text),
           ("change_encoding:roundtrip", lambda: bnp.change_encoding(keep[0], enc).to_string() if keep else text, text)]
    if ndim >= 2:
        obs.append(("rows", lambda: [x[i].to_string() for i in range(len(x))], block_texts))
    if ndim >= 2 or (ndim == 1 and size <= 8):
        obs.append(("iter", lambda: [r.to_string() for r in x], block_texts))
    if size > 0 and (ndim == 0 or shape[0] <= 20):
        if ndim <= 1:
            obs.append(("str", lambda: str(x), text))
        else:       # numpy prints the rows along the last axis as quoted strings, in row-major order of the leading indices
            obs.append(("str", lambda: re.findall(r"'([^']*)'", str(x)), [s_of(r) for r in nd.last_axis_rows(arr)]))
    if 0 < size <= 6 and ndim >= 1:
        obs.append(("elements", lambda: "".join(x[idx].to_string() for idx in nd.indices(shape)), text))
    out = []
    for o, f, exp in obs:
        try:
            got = f()
        except Exception as e:
            out.append((o, "raises:" + type(e).__name__, "%s raised %s: %s" % (o, type(e).__name__, str(e)[:160])))
            continue
        if got != exp:
            out.append((o, _layout_how(got, exp), "%s gives %r, expected %r" % (o, got, exp)))
    if dst:
        T = get_enc(dst)
        for fn in ("as_encoded_array", "change_encoding"):
            v = _retarget_verdict(fn, x, T, [list(flat)], [size], [text], True, name, dst)
            if v is not None:
                out.append(("retarget:" + fn, v[0], v[1]))
    return out


def _layout_encode(v, enc, via):
    import bionumpy as bnp
    return enc.encode(v) if via == "encode" else bnp.as_encoded_array(v, enc)


def eval_layout(col, case):
    """case: {"k":"layout","enc":name,"src":"enc"|"Base"|"Bytes","data":[bytes],"shape":[..],"order":"C"|"F","ops":[steps],
              "via":"encode"|"as_encoded_array" (text sources), "dst": name | None (decode side: re-target as well)}"""
    from bionumpy.encodings.exceptions import EncodingError
    name, src = case["enc"], case.get("src", "enc")
    enc, alphabet = get_enc(name), spec_alphabet(name)
    seq, shape, order, ops = list(case["data"]), list(case["shape"]), case.get("order", "C"), case.get("ops", [])
    via, dst = case.get("via", "encode"), case.get("dst")
    sel = nd.apply(nd.build(seq, shape, order), ops)             # the elements the view selects, original case
    arr = (sel[0], [ord(c) for c in expected_text(sel[1])])
    size = len(sel[1])
    is_text = src in LAYOUT_TEXT_SOURCES
    descr = "%s %r as %s%s array%s" % (src if is_text else name, s_of(seq), "x".join(map(str, shape)),
                                       " column-major" if order == "F" else "", _steps_str(ops))
    v = _lib_steps(build_layout_source(src, seq, shape, order, enc), ops)
    if src == "Bytes" and not type(v).__name__ == "ndarray":
        return              # an ndarray indexed down to one element is a numpy scalar, no array: not an input of the contract
    label = layout_label(v if src == "Bytes" else v.raw())
    plain_case = dict(case, data=list(sel[1]), shape=list(sel[0]), order="C", ops=[])

    def plain_source():
        return build_layout_source(src, sel[1], sel[0], "C", enc)

    if not is_text:
        col.case(case, nontrivial=size > 0, contract="layout:decode-observers:" + label)
        fails = layout_failures(v, name, arr, dst)
        if not fails:
            return
        plain = {(o, h) for o, h, _ in _safe_list(lambda: layout_failures(plain_source(), name, arr, dst))}
        for o, h, msg in fails:
            if (o, h) in plain:
                col.fail("layout:%s:%s:any-layout" % (o, h), plain_case, "%s: %s" % (descr, msg))
            else:
                col.fail("layout:%s:%s:only-%s" % (o, h, label), case,
                         "%s (a freshly built row-major array of the same elements is handled correctly): %s" % (descr, msg))
        return
    ok_expected = all_valid(sel[1], alphabet)
    col.case(case, nontrivial=size > 0, contract="layout:encode:%s:%s" % ("accepts+observers" if ok_expected else "rejects-foreign", label))
    try:
        x = _layout_encode(v, enc, via)
    except Exception as e:
        if ok_expected:
            same = _raised(lambda: _layout_encode(plain_source(), enc, via)) == type(e).__name__
            col.fail("layout:encode:rejects-alphabet-member:%s:%s:%s" % (via, type(e).__name__, "any-layout" if same else "only-" + label),
                     plain_case if same else case, "%s: %s raised %s: %s" % (descr, via, type(e).__name__, str(e)[:200]))
        else:
            col.check(isinstance(e, EncodingError), "layout:encode:foreign:wrong-exception-type:%s:%s:%s" % (type(e).__name__, via, label),
                      case, "%s: foreign input raised %s, not an encoding error: %s" % (descr, type(e).__name__, str(e)[:200]))
        return
    if not ok_expected:
        fb = foreign_bytes(sel[1], alphabet)
        rec = _Recorder()
        eval_enc(rec, {"k": "enc", "enc": name, "path": "ndarray" if src == "Bytes" else "base", "data": list(sel[1])})
        if rec.failures:
            for sig, c, msg in rec.failures:     # not a matter of the layout: the plain class, the plain case
                col.fail(sig, c, msg)
        else:
            col.fail("layout:encode:accepts-foreign:%s:only-%s" % (via, label), case,
                     "%s: %s accepted the foreign bytes %r and reads back as %r (the same elements as a flat row-major array are refused)"
                     % (descr, via, fb, _safe(lambda: x.to_string())))
        return
    if name == "StrandEncoding" and getattr(x, "ndim", None) == 1 and len(arr[0]) != 1:
        arr = nd.reshape(arr, (size,))              # FlatAlphabetEncoding flattens by design (row-major order of the indices)
    fails = layout_failures(x, name, arr)
    if not fails:
        return
    plain = {(o, h) for o, h, _ in _safe_list(lambda: layout_failures(_layout_encode(plain_source(), enc, via), name, arr))}
    for o, h, msg in fails:
        if (o, h) in plain:
            col.fail("layout:encode:%s:%s:any-layout" % (o, h), plain_case, "%s: after %s: %s" % (descr, via, msg))
        else:
            col.fail("layout:encode:%s:%s:only-%s" % (o, h, label), case,
                     "%s: after %s (the same elements as a fresh row-major array are handled correctly): %s" % (descr, via, msg))


def _safe_list(f):
    try:
        return f()
    except Exception:
        return []


def _raised(f):
    """name of the exception type f() raises, None when it returns"""
    try:
        f()
    except Exception as e:
        return type(e).__name__
    return None


def _steps_str(steps):
    out = ""
    for st in steps:
        if st[0] == "T":
            out += ".T"
        elif st[0] == "idx":
            out += "[%s]" % ", ".join(":".join("" if v is None else str(v) for v in u[1:4]) if u[0] == "s" else
                                      str(u[1]) for u in st[1])
        elif st[0] == "reshape":
            out += ".reshape(%s)" % ", ".join(map(str, st[1]))
        elif st[0] == "window":
            out += " -> sliding_window_view(%d)" % st[1]
        else:
            out += ".%s()" % st[0]
    return out


# ----------------------------------------------------------------------------------------------- contract: numeric
def eval_numeric(col, case):
    import numpy as np
    import bionumpy as bnp
    from npstructures import RaggedArray
    enc = get_enc(case["enc"])
    lo = NUMERIC[case["enc"]]
    rows = [list(r) for r in case["rows"]]
    flat = [b for r in rows for b in r]
    path = case["path"]
    col.case(case, nontrivial=len(flat) > 0, contract="numeric:offset-roundtrip")
    try:
        if path == "str":
            v = bnp.as_encoded_array(s_of(rows[0]), enc)
        elif path == "encstr":
            v = enc.encode(s_of(rows[0]))
        elif path == "list":
            v = bnp.as_encoded_array([s_of(r) for r in rows], enc)
        else:
            v = enc.encode(np.array(rows[0], dtype=np.uint8))
        back = enc.decode(v)
        vals = [int(a) for a in (v.ravel() if isinstance(v, RaggedArray) else np.asarray(v).ravel())]
        if isinstance(back, RaggedArray):
            back_rows = [[int(a) for a in r] for r in back.tolist()]
        else:
            back_rows = [[int(a) for a in np.asarray(back).ravel()]]
    except Exception as e:
        col.fail("numeric:raises:%s:%s" % (path, type(e).__name__), case, "%s %r: %s" % (case["enc"], rows, str(e)[:200]))
        return
    col.check(vals == [b - lo for b in flat], "numeric:value-not-byte-minus-offset:" + path, case,
              "%s: %r encoded to %r" % (case["enc"], rows, vals))
    col.check(back_rows == rows, "numeric:roundtrip-changed:" + path, case, "%s: %r came back as %r" % (case["enc"], rows, back_rows))


# ----------------------------------------------------------------------------------------------- contract: character matrices
# Text held as a CHARACTER MATRIX: a 2-d container with one letter per cell and one sequence per row (an alignment / a batch of
# equally long sequences, np.array([list(s) for s in seqs])) - numpy '<U1' / object / 'S1' arrays of shape (r, k) and a pandas
# DataFrame of single letters - handed to as_encoded_array with an alphabet encoding, the base encoding or no target.  Every shape
# r x k incl. the ones with an axis of length one or zero (a batch that happens to hold ONE sequence, a one-column alignment).
# Oracle (plain Python): row i of the text is the concatenation of the cells of row i; accepted exactly when every cell is in the
# alphabet, then r rows that read back as the (upper-cased) rows; a foreign cell anywhere -> encoding error.
CHARMAT_KINDS = ("U", "O", "S", "frame")
CHARMAT_TARGETS = ENC_NAMES + ["Base", None]


def charmat_applicable(kind, rows, ncols=None):
    allb = [b for r in rows for b in r]
    if kind == "frame" and (ncols == 0 or (ncols is None and not allb and rows)):
        return False                        # a DataFrame without columns holds no cells of any type (to_numpy gives a float array)
    if kind in ("U", "S") and any(b == 0 for b in allb):
        return False                        # numpy strips a NUL from a fixed-width cell: not the same input any more
    if kind == "S" and any(b >= 256 for b in allb):
        return False                        # bytes cells cannot hold such characters
    return True


def build_charmat(kind, rows, ncols):
    """the r x ncols container, filled cell by cell (so that the shape is exactly (r, ncols) also when r or ncols is 0 or 1)"""
    import numpy as np
    dtype = {"U": "<U1", "S": "S1"}.get(kind, object)
    m = np.empty((len(rows), ncols), dtype=dtype)
    for i, r in enumerate(rows):
        assert len(r) == ncols
        for j, b in enumerate(r):
            m[i, j] = bytes([b]) if kind == "S" else chr(b)
    assert m.shape == (len(rows), ncols)
    if kind == "frame":
        import pandas as pd
        return pd.DataFrame(m)
    return m


def charmat_shape_kind(r, k):
    if r == 1 and k == 1:
        return "one-cell"
    if r == 1:
        return "one-row"
    if k == 1:
        return "one-column"
    if r == 0 or k == 0:
        return "empty"
    return "general"


def _charmat_verdict(name, kind, rows, ncols):
    """the contract on one matrix: None when it holds, else (failure class, message)"""
    import bionumpy as bnp
    from bionumpy.encodings.exceptions import EncodingError
    alphabet = spec_alphabet(name) if name else None
    enc = get_enc(name) if name else None
    allb = [b for r in rows for b in r]
    wide = any(b >= 256 for b in allb)
    exp = [expected_text(r) if alphabet is not None else s_of(r) for r in rows]
    ok_expected = all_valid(allb, alphabet) if alphabet is not None else not wide
    descr = "%d x %d %s matrix %r -> %s" % (len(rows), ncols, {"U": "'<U1'", "O": "object", "S": "'S1'", "frame": "DataFrame"}[kind],
                                          [s_of(r) for r in rows], name or "(no target)")
    m = build_charmat(kind, rows, ncols)
    try:
        res = bnp.as_encoded_array(m) if enc is None else bnp.as_encoded_array(m, enc)
    except Exception as e:
        if ok_expected:
            return ("rejects-alphabet-member:" + type(e).__name__, "%s raised %s: %s" % (descr, type(e).__name__, str(e)[:200]))
        if not isinstance(e, (EncodingError,) + ((UnicodeEncodeError, OverflowError) if wide else ())):
            return ("foreign:wrong-exception-type:" + type(e).__name__,
                    "%s: foreign cell raised %s, not an encoding error: %s" % (descr, type(e).__name__, str(e)[:200]))
        return None
    lens = [len(r) for r in rows]
    if not ok_expected:
        return ("accepts-foreign", "%s was accepted (foreign %r) and reads back as %r"
                % (descr, [b for b in allb if b >= 256] if alphabet is None else foreign_bytes(allb, alphabet),
                   _safe(lambda: rows_of(res, lens))))
    try:
        got = rows_of(res, lens)
    except Exception as e:
        return ("result-not-readable:" + type(e).__name__, "%s: reading the result raised %s: %s" % (descr, type(e).__name__, str(e)[:200]))
    h = how_differs(got, exp)
    if h is not None:
        return ("text-changed:" + h, "%s came back as %d row(s) %r, expected %d row(s) %r" % (descr, len(got), got[:8], len(exp), exp))
    try:
        dec = decoded_rows(enc if enc is not None else get_enc("Base"), res, lens)
    except Exception as e:
        return ("decode-raises:" + type(e).__name__, "%s: decode of the result raised %s: %s" % (descr, type(e).__name__, str(e)[:200]))
    h = how_differs(dec, exp)
    if h is not None:
        return ("decode-differs:" + h, "%s decodes to %r, expected %r" % (descr, dec[:8], exp))
    return None


def eval_charmat(col, case):
    """case: {"k":"charmat","enc": alphabet encoding name | "Base" | None,"kind": one of CHARMAT_KINDS,"rows":[[code points],..],"ncols":k}"""
    name, kind, ncols = case["enc"], case["kind"], case["ncols"]
    rows = [list(r) for r in case["rows"]]
    alphabet = spec_alphabet(name) if name else None
    allb = [b for r in rows for b in r]
    ok_expected = all_valid(allb, alphabet) if alphabet is not None else not any(b >= 256 for b in allb)
    shape = charmat_shape_kind(len(rows), ncols)
    col.case(case, nontrivial=len(allb) > 0, contract="char-matrix:%s:%s" % (
        "accepts+roundtrip" if ok_expected else "rejects-foreign:beyond-latin1" if any(b >= 256 for b in allb) else "rejects-foreign", shape))
    v = _charmat_verdict(name, kind, rows, ncols)
    if v is None:
        return
    if alphabet is not None and name in ALPHABETS:
        # is it the matrix?  the same rows as a plain list of str
        rec = _Recorder()
        eval_enc(rec, {"k": "enc", "enc": name, "path": "list", "rows": rows})
        if rec.failures:
            for sig, c, msg in rec.failures:     # not a matter of the container: the plain class, the plain case
                col.fail(sig, c, msg)
            return
    # is it this kind of matrix?  the same cells in the other containers
    kinds = [k2 for k2 in CHARMAT_KINDS if charmat_applicable(k2, rows, ncols)]
    same = [k2 for k2 in kinds if k2 == kind or (_safe(lambda: _charmat_verdict(name, k2, rows, ncols)) or ("",))[0] == v[0]]
    scope = "every-container" if len(same) == len(kinds) > 1 else "only-" + "+".join(same)
    col.fail("char-matrix:%s:%s:%s" % (v[0], shape, scope), dict(case, kind=same[0]),
             v[1] + (" (the same rows as a list of str are handled correctly)" if alphabet is not None and name in ALPHABETS else ""))


# ----------------------------------------------------------------------------------------------- contract: beyond 8 bits, other targets
def eval_wide_text(col, case):
    """case: {"k":"wide_text","dst": None | "Base" | numeric name, "path": str-holding input kind, "rows":[[code points],..]}
    text with a character >= 256 presented without target / to the base encoding / to a numeric offset encoding:
    the call raises, or what it returns reads back as the same characters (never as their code points cut to 8 bits)"""
    import numpy as np
    import bionumpy as bnp
    dst, path = case.get("dst"), case["path"]
    T = get_enc(dst) if dst else None
    rows = [list(r) for r in case["rows"]]
    strs = [s_of(r) for r in rows]
    is_flat = path in STR_FLAT_PATHS
    kind = "no" if dst is None else "numeric" if dst in NUMERIC else "base"
    col.case(case, nontrivial=True, contract="beyond-latin1:%s-target:refuses-or-keeps-text" % kind)
    if path in ("str", "encstr"):
        x = strs[0]
    elif path in ("list", "enclist"):
        x = list(strs)
    elif path == "nparr_U":
        x = np.array(strs)
    elif path == "nparr_O":
        x = np.array(strs, dtype=object)
    elif path == "series":
        import pandas as pd
        x = pd.Series(strs, dtype=object)
    else:
        raise KeyError(path)
    try:
        if path in ("encstr", "enclist"):
            r = T.encode(x)
        else:
            r = bnp.as_encoded_array(x) if T is None else bnp.as_encoded_array(x, T)
    except Exception:
        return                      # refused: the property holds
    if r is x:
        return                      # handed back untouched
    exp = [strs[0]] if is_flat else strs
    tail = "%s-target:%s" % (kind, path)
    try:
        form, got = observe_pieces_result(r, T)
    except Exception as e:
        col.fail("beyond-latin1:result-not-decodable:%s:%s" % (type(e).__name__, tail), case,
                 "%r%s was accepted but the result cannot be decoded: %s" % (x, ", %s" % dst if dst else "", str(e)[:200]))
        return
    if form == "flat":
        ok = got == "".join(exp) and (is_flat or len(exp) == 1)
    else:
        ok = form == "rows" and got == exp
    col.check(ok, "beyond-latin1:accepted-with-different-text:" + tail, case,
              "%r%s (characters %r) was accepted and reads back as %r (result %s, encoding %r)"
              % (x if not hasattr(x, "tolist") else x.tolist(), ", %s" % dst if dst else "", [[hex(c) for c in r_] for r_ in rows], got,
                 type(r).__name__, getattr(r, "encoding", None)))


# ----------------------------------------------------------------------------------------------- contract: encode after a history
# What an alphabet encoding accepts must not depend on what OTHER alphabet encodings did before in the same process.  A case
# carries its own history (names of encodings, in the order in which they were used) and replays it first: every encoding of
# the history encodes its own alphabet in both cases, a legitimate use.  Then the plain encode contract is evaluated.
class _Recorder:
    """stands in for the Collector while the plain encode contract is evaluated: keeps what it would have reported"""

    def __init__(self):
        self.cases, self.failures = [], []

    def case(self, descr, nontrivial=True, contract=None):
        self.cases.append((nontrivial, contract))

    def fail(self, signature, case, message):
        self.failures.append((signature, case, message))

    def check(self, cond, signature, case, message=""):
        if not cond:
            self.fail(signature, case, message)
        return cond


def use_alphabet(name):
    """one legitimate use of an alphabet encoding: it encodes every member of its alphabet, upper and lower case"""
    try:
        get_enc(name).encode(s_of(case_twins(spec_alphabet(name))))
    except Exception:
        pass                        # an encoding that refuses its own alphabet: the encode contract reports that


_FRESH_HELPERS = {}
_FRESH_CODE = r"""
import sys, json, importlib, warnings
warnings.filterwarnings("ignore")
m = importlib.import_module(sys.argv[1])
for line in sys.stdin:
    col = m.Collector("C06", "quick", 0, "fresh process")
    m.evaluate(col, json.loads(line))
    sys.stdout.write("@@" + json.dumps([f["signature"] for f in col.failures]) + "\n")
    sys.stdout.flush()
"""


def _close_fresh_helpers():
    for p in _FRESH_HELPERS.values():
        try:
            p.kill()
        except Exception:
            pass
    _FRESH_HELPERS.clear()


def fresh_process_signatures(enc_name, plain):
    """the failure signatures of the plain encode case in a python process in which ONLY this alphabet encoding has ever been
    used (one helper process per encoding, started when the first failure has to be classified); None: no answer"""
    import atexit
    import json
    import os
    import subprocess
    import sys
    import threading
    try:
        p = _FRESH_HELPERS.get(enc_name)
        if p is None or p.poll() is not None:
            if not _FRESH_HELPERS:
                atexit.register(_close_fresh_helpers)
            env = dict(os.environ, PYTHONPATH=os.pathsep.join(x for x in sys.path if x), PYTHONWARNINGS="ignore",
                       PYTHONDONTWRITEBYTECODE="1")
            p = subprocess.Popen([sys.executable, "-c", _FRESH_CODE, __name__], stdin=subprocess.PIPE, stdout=subprocess.PIPE,
                                 stderr=subprocess.DEVNULL, env=env, text=True, bufsize=1)
            _FRESH_HELPERS[enc_name] = p
        timer = threading.Timer(120, p.kill)
        timer.start()
        try:
            p.stdin.write(json.dumps(plain) + "\n")
            p.stdin.flush()
            while True:
                line = p.stdout.readline()
                if not line:
                    return None
                if line.startswith("@@"):
                    return json.loads(line[2:])
        finally:
            timer.cancel()
    except Exception:
        return None


def history_signature(sig, plain, hist):
    if sig.startswith("encode:accepts-foreign:"):
        rows = [plain["data"]] if "data" in plain else plain["rows"]
        fb = foreign_bytes([b for r in rows for b in r], spec_alphabet(plain["enc"]))
        used = {b for h in hist for b in case_twins(spec_alphabet(h))}
        cls = "member-of-alphabet-used-before" if fb and all(f in used for f in fb) else "other"
        return "encode-after-history:accepts-foreign:%s:%s" % (cls, plain["path"])
    return "encode-after-history:" + (sig[len("encode:"):] if sig.startswith("encode:") else sig)


def eval_enc_after(col, case):
    """case: {"k":"enc_after","history":[encoding names in the order of their use],"enc":name,"path":p,"data"|"rows":..}"""
    hist = list(case["history"])
    plain = {k: v for k, v in case.items() if k != "history"}
    plain["k"] = "enc"
    for h in hist:
        use_alphabet(h)
    rec = _Recorder()
    eval_enc(rec, plain)
    for nontrivial, contract in rec.cases:
        col.case(case, nontrivial=nontrivial, contract="history:" + contract)
    if not rec.failures:
        return
    fresh = fresh_process_signatures(case["enc"], plain)
    for sig, _, msg in rec.failures:
        if fresh is not None and sig in fresh:
            col.fail(sig, plain, msg)       # not a matter of the history: the plain class, the plain case
        else:
            col.fail(history_signature(sig, plain, hist), case,
                     "after %s had each encoded their own alphabet in this process%s: %s"
                     % (", ".join(hist), " (a process that only ever used %s handles the same input correctly)" % case["enc"]
                        if fresh is not None else " (no answer from a fresh process)", msg))


# ----------------------------------------------------------------------------------------------- contract: observers
def eval_observers(col, case):
    import bionumpy as bnp
    from bionumpy.encoded_array import from_encoded_array
    name = case["enc"]
    enc = get_enc(name)
    ab = alphabet_bytes(spec_alphabet(name))
    data = ab + [b + 32 if 65 <= b <= 90 else b for b in ab]
    exp = expected_text(data)
    col.case(case, contract="observers")
    try:
        x = bnp.as_encoded_array(s_of(data), enc)
        xr = bnp.as_encoded_array([s_of(data[:k]) for k in range(len(data) + 1)][:8] + [s_of(data)], enc)
    except Exception as e:
        col.fail("observers:cannot-encode-alphabet:" + type(e).__name__, case, str(e)[:200])
        return
    expr = [exp[:k] for k in range(len(data) + 1)][:8] + [exp]
    obs = {
        "to_string": lambda: x.to_string(),
        "tolist": lambda: x.tolist(),
        "str": lambda: str(x),
        "from_encoded_array": lambda: from_encoded_array(x),
        "decode.to_string": lambda: enc.decode(x).to_string(),
        "decode.raw": lambda: s_of(enc.decode(x).raw().tolist()),
        "getitem": lambda: "".join(x[i].to_string() for i in range(len(x))),
        "iter": lambda: "".join(e.to_string() for e in x),
        "str-scalar": lambda: "".join(str(x[i]) for i in range(len(x))),
        "slice": lambda: x[1:].to_string(),
    }
    for k, f in obs.items():
        e_ = exp[1:] if k == "slice" else exp
        try:
            got = f()
        except Exception as e:
            col.fail("observers:%s:raises:%s" % (k, type(e).__name__), case, str(e)[:200])
            continue
        col.check(got == e_, "observers:%s:differs" % k, case, "%s: %s gives %r expected %r" % (name, k, got, e_))
    robs = {
        "ragged.tolist": lambda: xr.tolist(),
        "ragged.from_encoded_array": lambda: from_encoded_array(xr),
        "ragged.rows": lambda: [row.to_string() for row in xr],
        "ragged.str-rows": lambda: [str(row) for row in xr],
        "ragged.decode": lambda: enc.decode(xr).tolist(),
        "ragged.ravel": lambda: _cut(xr.ravel().to_string(), [len(e) for e in expr]),
    }
    for k, f in robs.items():
        try:
            got = f()
        except Exception as e:
            col.fail("observers:%s:raises:%s" % (k, type(e).__name__), case, str(e)[:200])
            continue
        col.check(got == expr, "observers:%s:differs" % k, case, "%s: %s gives %r expected %r" % (name, k, got, expr))


def _cut(t, lens):
    out, o = [], 0
    for n in lens:
        out.append(t[o:o + n])
        o += n
    return out + ([t[o:]] if o != len(t) else [])


EVAL = {"enc": eval_enc, "enc_after": eval_enc_after, "wide_text": eval_wide_text, "retarget": eval_retarget, "pieces": eval_pieces, "retarget_view": eval_retarget_view, "retarget_other": eval_retarget_other, "numeric": eval_numeric,
        "observers": eval_observers, "layout": eval_layout, "charmat": eval_charmat}


def evaluate(col, case):
    try:
        EVAL[case["k"]](col, case)
    except Exception as e:      # a crash of the harness around a case is reported, never swallowed
        import traceback
        col.fail("harness:%s:exception:%s" % (case["k"], type(e).__name__), case, traceback.format_exc()[-500:])


# ----------------------------------------------------------------------------------------------- enumeration
def strings_upto(ab, L, minlen=0):
    for n in range(minlen, L + 1):
        for t in itertools.product(ab, repeat=n):
            yield list(t)


def case_variants(data):
    """upper, all lower, each single position lower (letters only), deduplicated, upper first"""
    low = lambda b: b + 32 if 65 <= b <= 90 else b
    out = [list(data), [low(b) for b in data]]
    for i in range(len(data)):
        v = list(data)
        v[i] = low(v[i])
        out.append(v)
        w = [low(b) for b in data]
        w[i] = data[i]
        out.append(w)
    seen, res = set(), []
    for v in out:
        if tuple(v) not in seen:
            seen.add(tuple(v))
            res.append(v)
    return res


def foreign_set(alphabet, size):
    """foreign bytes to insert.  size: 'small' | 'medium' | 'all'"""
    ab = alphabet_bytes(alphabet)
    if size == "all":
        return [b for b in range(256) if not valid(b, alphabet)]
    generic = [0, 10, 32, 64, 91, 96, 123, 127, 128, 255]
    ends = sorted({ab[0], ab[-1], min(ab), max(ab)})
    rel = set()
    for a in ends:
        rel |= {(a + d) % 256 for d in (1, -1, 32, -32, 64, -64, 96, 128)}
    nonletter32 = [(a + 32) % 256 for a in ab if not 65 <= a <= 90]
    if size == "small":
        cand = [0, 32, 64, 96, 255, (ab[0] - 1) % 256, (ab[-1] + 1) % 256, (max(ab) + 128) % 256] + nonletter32[:2]
    else:
        cand = generic + sorted(rel) + nonletter32 + [(a + 1) % 256 for a in ab] + [(a - 1) % 256 for a in ab]
    out = []
    for b in cand:
        if not valid(b, alphabet) and b not in out:
            out.append(b)
    return out


def insertions(base, fset):
    for p in range(len(base) + 1):
        for f in fset:
            yield base[:p] + [f] + base[p:]


def row_shapes(max_rows, max_len):
    for n in range(0, max_rows + 1):
        for lens in itertools.product(range(max_len + 1), repeat=n):
            yield lens


def fill(lens, ab, offset, lower_mode):
    """deterministic content: cycles through the alphabet from `offset`; lower_mode 0 upper, 1 every second lower, 2 all lower"""
    rows, k = [], offset
    for n in lens:
        r = []
        for _ in range(n):
            b = ab[k % len(ab)]
            if 65 <= b <= 90 and (lower_mode == 2 or (lower_mode == 1 and k % 2 == 1)):
                b += 32
            r.append(b)
            k += 1
        rows.append(r)
    return rows


def limits(tier, n):
    """(L valid strings, L base strings for foreign insertion with the medium set, L base for the full 256 set,
        L retarget flat strings)"""
    small = n <= 5
    if tier == "quick":
        if small:
            return 4, 2, 1, 3
        if n <= 10:
            return 3, 1, 0, 2
        return 2, 1, 0, 2
    if small:
        return 5, 3, 2, 4
    if n <= 10:
        return 4, 2, 1, 3
    return 3, 2, 1, 3


def gen_bytes(tier):
    # ---- 1. every byte x every alphabet x every flat path and the one-row / one-cell container paths
    for name in ENC_NAMES + ["DNAEncoding", "RNAENcoding", "fresh:acgtn"]:
        for b in range(256):
            for path in FLAT_PATHS:
                yield {"k": "enc", "enc": name, "path": path, "data": [b]}
            for path in (RAGGED_PATHS if name in ALPHABETS or tier == "thorough" else ()):
                if ragged_path_applicable(path, [[b]]):
                    yield {"k": "enc", "enc": name, "path": path, "rows": [[b]]}
    for name in ENC_NAMES:
        yield {"k": "observers", "enc": name}


def gen_strings(tier):
    # ---- 2. strings: valid (all case variants) and one foreign byte at every position
    for name in ENC_NAMES:
        alphabet = ALPHABETS[name]
        ab = alphabet_bytes(alphabet)
        Lv, Lf, Lall, _ = limits(tier, len(ab))
        for data in strings_upto(ab, Lv):
            variants = case_variants(data) if len(data) <= 3 else [data, [b + 32 if 65 <= b <= 90 else b for b in data]]
            for i, v in enumerate(variants):
                for path in (FLAT_PATHS if i < 2 or len(data) <= 2 else ["str", "ndarray"]):
                    yield {"k": "enc", "enc": name, "path": path, "data": v}
        med = foreign_set(alphabet, "medium")
        for base in strings_upto(ab, Lf):
            for d in insertions(base, med):
                for path in FLAT_PATHS:
                    yield {"k": "enc", "enc": name, "path": path, "data": d}
        allf = foreign_set(alphabet, "all")
        for base in strings_upto(ab, Lall, 1):
            for d in insertions(base, allf):
                for path in ("str", "ndarray"):
                    yield {"k": "enc", "enc": name, "path": path, "data": d}


def gen_lists(tier):
    # ---- 3. lists of strings through every container kind
    max_rows, max_len = (3, 2)
    for name in ENC_NAMES:
        alphabet = ALPHABETS[name]
        ab = alphabet_bytes(alphabet)
        small = foreign_set(alphabet, "small")
        offsets = range(len(ab)) if (tier == "thorough" or len(ab) <= 5) else range(0, len(ab), 3)
        for lens in row_shapes(max_rows, max_len):
            for off in offsets:
                for lm in ((0, 1, 2) if off == 0 or tier == "thorough" else (0, 1)):
                    rows = fill(lens, ab, off, lm)
                    if lm and rows == fill(lens, ab, off, 0):
                        continue
                    for path in (RAGGED_PATHS if off == 0 or tier == "thorough" else CORE_RAGGED):
                        if ragged_path_applicable(path, rows):
                            yield {"k": "enc", "enc": name, "path": path, "rows": rows}
                    if sum(lens) == 0:
                        break
                if sum(lens) == 0:
                    break
            # one foreign byte at every (row, position)
            base = fill(lens, ab, 0, 1)
            fs = small if tier == "thorough" else small[:3] + small[-1:]
            for ri in range(len(base)):
                for p in range(len(base[ri]) + 1):
                    for f in fs:
                        rows = [list(r) for r in base]
                        rows[ri] = rows[ri][:p] + [f] + rows[ri][p:]
                        for path in (RAGGED_PATHS if f == fs[0] or tier == "thorough" else CORE_RAGGED):
                            if ragged_path_applicable(path, rows):
                                yield {"k": "enc", "enc": name, "path": path, "rows": rows}
        if tier == "thorough":
            # exhaustive contents over a 3-letter sub-alphabet (first, second, last member): lists of <= 3 rows of length <= 2
            sub = [ab[0], ab[1], ab[-1]]
            for lens in row_shapes(3, 2):
                for content in itertools.product(sub, repeat=sum(lens)):
                    it = iter(content)
                    rows = [[next(it) for _ in range(n)] for n in lens]
                    for path in ("list", "baseragged", "ragged"):
                        yield {"k": "enc", "enc": name, "path": path, "rows": rows}


def gen_retarget(tier):
    # ---- 4. re-targeting: every ordered pair of alphabets (plus an equal fresh alphabet, the base encoding, a numeric
    #         encoding as targets) x every string over the source alphabet
    targets = ENC_NAMES + ["fresh:ACGT", "Base", "Quality"]
    for src in ENC_NAMES:
        ab = alphabet_bytes(ALPHABETS[src])
        Lr = limits(tier, len(ab))[3]
        for data in strings_upto(ab, Lr):
            for dst in targets:
                for fn in ("as_encoded_array", "change_encoding") + (("encode",) if len(data) <= 1 else ()):
                    yield {"k": "retarget", "src": src, "dst": dst, "fn": fn, "data": data}
        # ragged: every ordered pair of rows of length <= 1 (so the largest code sits in either row), plus 3-row shapes
        singles = [[]] + [[a] for a in ab]
        if tier == "thorough":
            lists = [[r1, r2] for r1 in singles for r2 in singles]
        else:
            few = [[], [ab[0]], [ab[1]], [ab[-1]]]
            lists = [[r1, r2] for r1 in singles for r2 in few] + [[r1, r2] for r1 in few for r2 in singles if r2 not in few]
        lists += [fill(lens, ab, off, 0) for lens in row_shapes(3, 2 if tier == "thorough" else 1) if len(lens) == 3
                  for off in (range(len(ab)) if tier == "thorough" else (0, len(ab) - 2))]
        lists += [[], [[]]]
        for rows in lists:
            for dst in targets:
                for fn in ("as_encoded_array", "change_encoding"):
                    yield {"k": "retarget", "src": src, "dst": dst, "fn": fn, "rows": rows}
    for dst in ENC_NAMES:
        for fn in ("as_encoded_array", "encode"):
            for text in ("CA", "GT", "AA", "TG"):
                yield {"k": "retarget_other", "src": "kmer", "dst": dst, "fn": fn, "text": text}
            yield {"k": "retarget_other", "src": "string", "dst": dst, "fn": fn, "labels": ["C", "A", "T"], "texts": ["A", "C", "T", "A"]}


def piece_letters(enc, other):
    """the letters pieces of encoding `enc` are made of: its alphabet; the base encoding (no alphabet) takes the partner's"""
    return alphabet_bytes(spec_alphabet(enc) or spec_alphabet(other) or "ACGT")


def _letter(enc, w, i, how=None):
    p = {"as": "letter", "enc": enc, "data": [w[i % len(w)]], "pad": w[(i + 1) % len(w)]}
    if how:
        p["how"] = how
    return p


def _row(enc, w, i, j, how=None):
    p = {"as": "row", "enc": enc, "data": [w[k % len(w)] for k in range(i, j)], "pad": w[(j + 1) % len(w)]}
    if how:
        p["how"] = how
    return p


def piece_arrangements(e1, e2, full, ks):
    """lists of pieces made from two encodings (name, arrangement): all letters / rows of one followed by, or enclosing,
    those of the other; the same code position of both; the odd one out first / in the middle / last; empty rows; 0-d and
    1-d pieces mixed; str and encoded pieces mixed"""
    w1, w2 = piece_letters(e1, e2), piece_letters(e2, e1)
    L1 = [_letter(e1, w1, i) for i in range(len(w1))]
    L2 = [_letter(e2, w2, i) for i in range(len(w2))]
    R1 = [_row(e1, w1, 0, 3), _row(e1, w1, 1, 4), _row(e1, w1, 2, 3)]
    R2 = [_row(e2, w2, 0, 3), _row(e2, w2, 1, 4), _row(e2, w2, 2, 3)]
    out = [L1 + L2, R1 + R2, [L1[2], L2[2]], [_row(e1, w1, 2, 4), _row(e2, w2, 2, 4)]]
    if not full:
        return out
    out += [L1[:1] + L2 + L1[1:], R1[:1] + R2 + R1[1:]]
    for k in ks:
        if k != 2:
            out.append([_letter(e1, w1, k), _letter(e2, w2, k)])
            out.append([_row(e1, w1, k, k + 2), _row(e2, w2, k, k + 2)])
        out.append([_row(e1, w1, k, k + 1), _row(e2, w2, k, k + 1)])
    out += [
        [L1[0], L1[1], L2[2]], [L1[0], L2[1], L1[2]], [L2[0], L1[1], L1[2]],
        [_row(e1, w1, 0, 2), _row(e1, w1, 1, 3), _row(e2, w2, 2, 4)], [_row(e1, w1, 0, 2), _row(e2, w2, 1, 3), _row(e1, w1, 2, 4)],
        [_row(e1, w1, 0, 2), _row(e2, w2, 0, 0), _row(e1, w1, 2, 4)], [_row(e1, w1, 0, 0), _row(e2, w2, 2, 4)],
        [_row(e1, w1, 0, 0), _row(e2, w2, 0, 0)],
        [L1[1], _row(e2, w2, 1, 3)], [_row(e1, w1, 1, 3), L2[1]], [L1[1], _row(e2, w2, 1, 2)],
        [{"as": "str", "data": w1[1:3]}, _row(e2, w2, 1, 3)], [_row(e1, w1, 1, 3), {"as": "str", "data": w2[1:3]}],
        [{"as": "str", "data": w1[2:3]}, L2[2]], [L1[2], {"as": "str", "data": w2[2:3]}],
    ]
    return out


def gen_pieces(tier):
    # ---- 3b. lists of already encoded pieces (0-d letters / 1-d rows / str), every piece with its own encoding
    thorough = tier == "thorough"
    yield {"k": "pieces", "pieces": [], "dst": None}
    for dst in PIECE_TARGETS[1:]:
        yield {"k": "pieces", "pieces": [], "dst": dst}
    for e1 in PIECE_ENCS:
        w = piece_letters(e1, "Base")
        for dst in PIECE_TARGETS:
            for i in range(len(w)):                     # one piece: every letter as a 0-d / 1-d piece
                yield {"k": "pieces", "pieces": [_letter(e1, w, i)], "dst": dst}
                yield {"k": "pieces", "pieces": [_row(e1, w, i, i + 1)], "dst": dst}
            yield {"k": "pieces", "pieces": [_row(e1, w, 0, 0)], "dst": dst}
    # (i) every ordered pair of piece encodings x every arrangement (quick: all arrangements without a target, the four basic
    #     ones with the targets {either piece encoding, ACGTn, base, a numeric one}; thorough: all arrangements x all targets)
    for e1 in PIECE_ENCS:
        for e2 in PIECE_ENCS:
            n = min(len(piece_letters(e1, e2)), len(piece_letters(e2, e1)))
            ks = range(n) if thorough else sorted({0, 1, 2, 3, n - 1})
            for dst in PIECE_TARGETS:
                if not thorough and dst not in (None, e1, e2, "ACGTnEncoding", "Base", "Quality"):
                    continue
                for ai, pieces in enumerate(piece_arrangements(e1, e2, dst is None or thorough, ks)):
                    yield {"k": "pieces", "pieces": pieces, "dst": dst}
                    if ai < 4 and dst in (None, e2):        # other containers holding the same pieces
                        for cont in ("tuple", "object-array"):
                            yield {"k": "pieces", "pieces": pieces, "dst": dst, "container": cont}
    # (ii) how the pieces were obtained: every pair of ways, for two pieces at the same code position
    few = ["ACGTEncoding", "ACTGEncoding", "ACGTnEncoding", "AminoAcidEncoding", "BamEncoding", "Base"]
    for e1 in PIECE_ENCS if thorough else few:
        for e2 in PIECE_ENCS if thorough else few:
            w1, w2 = piece_letters(e1, e2), piece_letters(e2, e1)
            for k in (1, 2, 3) if thorough else (2,):
                for h1 in LETTER_HOWS:
                    for h2 in LETTER_HOWS:
                        if (h1, h2) != ("index", "index"):
                            yield {"k": "pieces", "pieces": [_letter(e1, w1, k, h1), _letter(e2, w2, k, h2)], "dst": None}
                for h1 in ROW_HOWS:
                    for h2 in ROW_HOWS:
                        if (h1, h2) != ("slice", "slice"):
                            yield {"k": "pieces", "pieces": [_row(e1, w1, k, k + 2, h1), _row(e2, w2, k, k + 2, h2)], "dst": None}
    # (iii) thorough: three encodings, every triple of code positions 0..3 (letters), every triple of row starts 0..2 (rows)
    if thorough:
        trio = ["ACGTEncoding", "ACTGEncoding", "ACGTnEncoding", "ACUGEncoding", "AminoAcidEncoding", "BamEncoding", "Base"]
        for e1, e2, e3 in itertools.product(trio, repeat=3):
            w1, w2, w3 = piece_letters(e1, e2), piece_letters(e2, e1), piece_letters(e3, e1 if spec_alphabet(e1) else e2)
            for i, j, k in itertools.product(range(4), repeat=3):
                yield {"k": "pieces", "pieces": [_letter(e1, w1, i), _letter(e2, w2, j), _letter(e3, w3, k)], "dst": None}
            for i, j, k in itertools.product(range(3), repeat=3):
                yield {"k": "pieces", "pieces": [_row(e1, w1, i, i + 2), _row(e2, w2, j, j + 1), _row(e3, w3, k, k + 2)], "dst": None}


def sampled_piece_cases(seed, n):
    """above the bounds: lists of 2..7 pieces, random encodings (mostly two), kinds, ways of obtaining them, targets"""
    import random
    rng = random.Random(seed * 104729 + 66)
    for _ in range(n):
        encs = [rng.choice(PIECE_ENCS) for _ in range(rng.choice((1, 2, 2, 2, 3)))]
        kind = rng.choice(("letter", "letter", "row", "row", "any"))
        pieces = []
        for _ in range(rng.randint(2, 7)):
            e = rng.choice(encs)
            w = piece_letters(e, encs[0] if spec_alphabet(encs[0]) else encs[-1])
            as_ = kind if kind != "any" else rng.choice(("letter", "row", "row", "str"))
            i = rng.randrange(len(w))
            if as_ == "letter":
                pieces.append(_letter(e, w, i, rng.choice(LETTER_HOWS)))
            elif as_ == "row":
                pieces.append(_row(e, w, i, i + rng.choice((0, 1, 1, 2, 3, 5)), rng.choice(ROW_HOWS)))
            else:
                pieces.append({"as": "str", "data": [w[(i + d) % len(w)] for d in range(rng.randint(0, 3))]})
        case = {"k": "pieces", "pieces": pieces, "dst": rng.choice([None, None] + PIECE_TARGETS)}
        if rng.random() < 0.1:
            case["container"] = rng.choice(("tuple", "object-array"))
        yield case


# big arrays to index into: row lengths, unequal, with empty rows at the start / middle / end / adjacent
VIEW_SHAPES = [(2, 0, 3, 1, 4, 1, 0, 2), (0, 1, 5, 2, 0, 3), (3, 1, 0, 0, 2, 6, 1), (1, 2, 3, 4, 5, 6),
               (0, 0, 2, 1), (4, 0, 1), (2, 2, 0, 2, 2, 1), (6, 5, 4, 3, 2, 1, 0), (1, 0, 1, 0, 1, 0, 3), (3, 0)]


def _st(rows, cols=None):
    return {"rows": rows, "cols": cols}


def standard_views(n, full):
    """named views of an n-row array (n >= 2): every kind of the earlier indexing step, alone, combined with a column
    trim, and chained; the selections keep 2..6 rows where n allows (plus, thorough, 0- and 1-row selections)"""
    order = [n - 1, 0, 0, n // 2, 1][:max(2, min(5, n + 1))]             # reorders and repeats
    order2 = [1, n - 1, 1, 0, (n + 1) // 2, n - 1][:max(2, min(6, n + 1))]
    mask = [1 if i % 3 != 1 else 0 for i in range(n)] if n > 2 else [1, 1]
    if sum(mask) > 6:
        mask = mask[:8] + [0] * (n - 8)
    inner = ["slice", 1, n - 1, None] if n >= 4 else ["slice", 1, None, None] if n == 3 else ["slice", 0, 2, None]
    rev = ["slice", None, None, -1]
    out = [
        ("rev", [_st(rev)]),
        ("slice", [_st(inner)]),
        ("step2", [_st(["slice", None, None, 2])]),
        ("list", [_st(["list", order])]),
        ("array", [_st(["array", order2])]),
        ("mask", [_st(["mask", mask])]),
        ("cols1:", [_st(["all"], [1, None])]),
        ("cols:-1", [_st(["all"], [None, -1])]),
        ("rev,cols1:", [_st(rev, [1, None])]),
        ("list,cols:-1", [_st(["list", order], [None, -1])]),
        ("rev>slice", [_st(rev), _st(["slice", 1, None, None])]),
        ("cols1:>list", [_st(["all"], [1, None]), _st(["list", order])]),
    ]
    if full:
        comp = [1 - m for m in mask] if n - sum(mask) >= 1 else mask
        out += [
            ("tail", [_st(["slice", 1, None, None])]),
            ("head", [_st(["slice", None, -1, None])]),
            ("odd", [_st(["slice", 1, None, 2])]),
            ("rev2", [_st(["slice", None, None, -2])]),
            ("neglist", [_st(["list", [-1, -2, 0]])]),
            ("mask-complement", [_st(["mask", comp])]),
            ("cols1:-1", [_st(["all"], [1, -1])]),
            ("cols:2", [_st(["all"], [None, 2])]),
            ("cols-2:", [_st(["all"], [-2, None])]),
            ("slice,cols1:", [_st(inner, [1, None])]),
            ("mask,cols1:", [_st(["mask", mask], [1, None])]),
            ("array,cols:2", [_st(["array", order2], [None, 2])]),
            ("list>step2", [_st(["list", order]), _st(["slice", None, None, 2])]),
            ("mask>rev", [_st(["mask", mask]), _st(rev)]),
            ("step2>cols1:", [_st(["slice", None, None, 2]), _st(["all"], [1, None])]),
            ("rev>list>slice", [_st(rev), _st(["list", order]), _st(["slice", 1, None, None])]),
            ("none-list", [_st(["list", []])]),
            ("none-slice", [_st(["slice", 1, 1, None])]),
            ("one", [_st(["slice", n - 1, None, None])]),
        ]
    return out


QUICK_FEW = ("rev", "list", "mask", "cols1:", "rev>slice")


def exhaustive_views(n, maxlen):
    """every slice / mask / short index list / column trim of an n-row array whose longest row has maxlen elements"""
    bounds = [None] + list(range(0, n + 1)) + [-1, -2]
    for a in bounds:
        for b in bounds:
            for step in (None, 2, -1, -2):
                yield [_st(["slice", a, b, step])]
    for m in itertools.product((0, 1), repeat=n):
        yield [_st(["mask", list(m)])]
    for k in (1, 2, 3):
        for idx in itertools.product(range(n), repeat=k):
            yield [_st(["list" if (sum(idx) + k) % 2 else "array", list(idx)])]
    cb = [None] + list(range(0, maxlen + 1)) + [-1, -2]
    for c0 in cb:
        for c1 in cb:
            for rows in (["all"], ["slice", None, None, -1], ["list", [n - 1, 0, 0, 1]], ["mask", [1, 0] * (n // 2) + [1] * (n % 2)]):
                yield [_st(rows, [c0, c1])]


FLAT_VIEWS = [[_st(["slice", None, None, -1])], [_st(["slice", 1, -1, None])], [_st(["slice", None, None, 2])],
              [_st(["list", [6, 0, 0, 3, 1]])], [_st(["array", [1, 6, 1, 0]])], [_st(["mask", [1, 0, 1, 1, 0, 0, 1]])],
              [_st(["slice", None, None, -1]), _st(["slice", 1, None, 2])]]


def view_contents(src, dst, fn):
    """letters to fill the big array with: [(letters, lower_mode)], chosen so that the operation is defined (succeeds)
    where some text allows it, plus the full source alphabet (the call may then raise)"""
    if src in TEXT_SOURCES:
        letters = alphabet_bytes(spec_alphabet(dst) or "ACGTN")
        return [(letters, 1 if spec_alphabet(dst) else 0)]
    sa = alphabet_bytes(ALPHABETS[src])
    ta = spec_alphabet(dst)
    if ta is None:
        return [(sa, 0)]
    tb = alphabet_bytes(ta)
    if fn == "as_encoded_array":        # defined on a common prefix of the two alphabets
        k = 0
        while k < min(len(sa), len(tb)) and sa[k] == tb[k]:
            k += 1
        sel = sa[:k]
    else:                               # change_encoding: defined on the common letters
        sel = [b for b in sa if b in tb]
    out = [(sel, 0)] if sel else []
    if sel != sa:
        out.append((sa, 0))
    return out


VIEW_SOURCES = ENC_NAMES + ["Base", "Bytes"]
VIEW_TARGETS = ENC_NAMES + ["Base"]
# (source, target, function): one per function, each defined for the whole text used
VIEW_REPRESENTATIVES = [("ACGTEncoding", "ACTGnEncoding", "change_encoding"), ("ACGTEncoding", "ACGTnEncoding", "as_encoded_array"),
                        ("Base", "AminoAcidEncoding", "encode"), ("ACGTnEncoding", "Base", "change_encoding"),
                        ("Bytes", "ACGTnEncoding", "encode")]


def view_fns(src, dst):
    if src == "Bytes":                  # a uint8 RaggedArray / ndarray view as the text to encode
        return ("encode",) if dst != "Base" else ()
    if src == "Base":
        return ("as_encoded_array", "encode", "change_encoding") if dst != "Base" else ("change_encoding",)
    if dst == src:
        return ("change_encoding",)     # as_encoded_array returns its argument, encode refuses non-base input
    return ("as_encoded_array", "change_encoding")


def gen_views(tier):
    # ---- 4b. re-targeting sources that are not-yet-flattened views left by an earlier indexing step
    thorough = tier == "thorough"
    # (i) every ordered pair of alphabets (+ the base encoding on either side) x a family of big arrays x every kind of view
    shapes = VIEW_SHAPES if thorough else VIEW_SHAPES[:2]
    for src in VIEW_SOURCES:
        for dst in VIEW_TARGETS:
            for fn in view_fns(src, dst):
                for ci, (letters, lm) in enumerate(view_contents(src, dst, fn)):
                    for si, lens in enumerate(shapes):
                        if ci > 0 and not thorough and si > 0:
                            continue            # quick: the content on which the call may raise on one shape only
                        views = standard_views(len(lens), thorough)
                        if not thorough and (ci > 0 or si > 0):
                            views = [v for v in views if v[0] in QUICK_FEW]
                        for off in ((0, 1) if thorough and len(letters) > 1 and ci == 0 else (0,)):
                            big = fill(lens, letters, off, lm)
                            for _, view in views:
                                yield {"k": "retarget_view", "src": src, "dst": dst, "fn": fn, "big": big, "view": view}
                    flat = fill((7,), letters, 0, lm)[0]
                    for view in FLAT_VIEWS if thorough else FLAT_VIEWS[3:6]:
                        yield {"k": "retarget_view", "src": src, "dst": dst, "fn": fn, "bigdata": flat, "view": view}
    # (ii) one pair per function x EVERY big array of 2..N rows of length 0..L x every kind of view
    #      (thorough: the additional view kinds up to 4 rows only)
    for src, dst, fn in VIEW_REPRESENTATIVES if thorough else VIEW_REPRESENTATIVES[:3]:
        letters, lm = view_contents(src, dst, fn)[0]
        for n, L in (((2, 3), (3, 3), (4, 3), (5, 2), (6, 2)) if thorough else ((2, 2), (3, 2), (4, 2))):
            for lens in itertools.product(range(L + 1), repeat=n):
                big = fill(lens, letters, 0, lm)
                for _, view in standard_views(n, thorough and n <= 4):
                    yield {"k": "retarget_view", "src": src, "dst": dst, "fn": fn, "big": big, "view": view}
    # (iii) one pair per function x two big arrays x EVERY slice / mask / index list (<= 3) / column trim
    for src, dst, fn in VIEW_REPRESENTATIVES if thorough else VIEW_REPRESENTATIVES[:2]:
        letters, lm = view_contents(src, dst, fn)[0]
        for lens in ((2, 0, 3, 1, 0, 4), (0, 2, 1, 3)) if thorough else ((2, 0, 3, 1),):
            big = fill(lens, letters, 0, lm)
            for view in exhaustive_views(len(lens), max(lens)):
                yield {"k": "retarget_view", "src": src, "dst": dst, "fn": fn, "big": big, "view": view}


# characters beyond 8 bits: member / lower-case twin + a multiple of 256 (so that cutting the code point to 8 bits - and for
# the multiples of 65536 also to 16 bits - lands on a byte the alphabet accepts), plus characters related to no member
WIDE_OFFSETS = {"quick": (0x100, 0x200, 0x10000, 0x1F400),
                "thorough": (0x100, 0x200, 0x300, 0x7F00, 0xFF00, 0x10000, 0x10100, 0x1F400, 0x100000, 0x10FF00)}
WIDE_UNRELATED = (0x100, 0x2603, 0xFFFF, 0x10FFFF)
WIDE_TEXT_POINTS = (0x141, 0x161, 0x100, 0x17F, 0x10041, 0x1F441, 0x2603, 0xFFFF, 0x10FFFF)


def gen_wide(tier):
    # ---- 1b. characters beyond 8 bits through every input kind that holds python str
    thorough = tier == "thorough"
    for name in ENC_NAMES + (["DNAEncoding", "RNAENcoding", "fresh:acgtn"] if thorough else []):
        alphabet = spec_alphabet(name)
        ab = alphabet_bytes(alphabet)
        a0, a1, al = ab[0], ab[1], ab[-1]
        low = lambda b: b + 32 if 65 <= b <= 90 else b
        pts = [cp for cp, _ in wide_points(alphabet, WIDE_OFFSETS[tier])] + [c for c in WIDE_UNRELATED]
        for cp in pts:
            for path in STR_FLAT_PATHS:
                yield {"k": "enc", "enc": name, "path": path, "data": [cp]}
                yield {"k": "enc", "enc": name, "path": path, "data": [a0, cp, low(al)]}
            for path in STR_RAGGED_PATHS:
                yield {"k": "enc", "enc": name, "path": path, "rows": [[cp]]}
                yield {"k": "enc", "enc": name, "path": path, "rows": [[a0, low(a1)], [cp, al], [a0, a0, a0]]}
        # every (row, position) of a list; quick: the characters 256 above a member / twin
        base = [[a0, low(a1)], [al], []]
        for cp, _ in wide_points(alphabet, WIDE_OFFSETS[tier] if thorough else (0x100,)):
            for ri in range(len(base)):
                for pos in range(len(base[ri]) + 1):
                    rows = [list(r) for r in base]
                    rows[ri] = rows[ri][:pos] + [cp] + rows[ri][pos:]
                    for path in ("list", "enclist") if thorough else ("list",):
                        yield {"k": "enc", "enc": name, "path": path, "rows": rows}
    # without target / base encoding / numeric offset encodings as the target
    for dst in (None, "Base"):
        for cp in WIDE_TEXT_POINTS + (tuple(b + 0x100 for b in range(128)) if thorough else ()):
            for path in STR_FLAT_PATHS + STR_RAGGED_PATHS:
                if dst is None and path in ("encstr", "enclist"):
                    continue
                for rows in ([[cp]], [[65, 99], [cp, 71], []]):
                    yield {"k": "wide_text", "dst": dst, "path": path, "rows": rows}
    for dst, lo in NUMERIC.items():
        for cp in (lo + 0x100, lo + 1 + 0x100, 126 + 0x100, lo + 0x10000, 0x2603, 0x10FFFF):
            for path in ("str", "encstr", "list", "enclist"):
                for rows in ([[cp]], [[lo + 1, 126], [cp, lo], []]):
                    yield {"k": "wide_text", "dst": dst, "path": path, "rows": rows}
    # str pieces next to encoded pieces
    for e1 in PIECE_ENCS:
        w = piece_letters(e1, "Base")
        for cp in (w[0] + 0x100, w[-1] + 0x10000, (w[1] + 32 if 65 <= w[1] <= 90 else w[1]) + 0x200):
            for dst in (None, e1, "Base") if not e1.startswith("fresh:") else (None, "Base"):
                yield {"k": "pieces", "pieces": [{"as": "str", "data": [cp, w[1]]}, _row(e1, w, 1, 3)], "dst": dst}
                yield {"k": "pieces", "pieces": [_row(e1, w, 1, 3), {"as": "str", "data": [w[1], cp]}], "dst": dst}
                yield {"k": "pieces", "pieces": [{"as": "str", "data": [cp]}, _letter(e1, w, 2)], "dst": dst}
                yield {"k": "pieces", "pieces": [{"as": "str", "data": [cp, w[1]]}, {"as": "str", "data": [w[0]]}], "dst": dst,
                       "container": "tuple"}


# a second, user-made alphabet: its members belong to no predefined alphabet and get the codes 0..3
HISTORY_FRESH = "fresh:JOZ?"


def histories(name, tier):
    """[(label, [encodings used before, in this order])] for the alphabet encoding `name`"""
    others = [n for n in ENC_NAMES if n != name]
    out = [("all", others + [HISTORY_FRESH]), ("all-reversed", [HISTORY_FRESH] + others[::-1]),
           ("self-first", [name] + others + [HISTORY_FRESH])]
    out += [("one", [o]) for o in others + [HISTORY_FRESH]]
    if tier == "thorough":
        out += [("two", [o1, o2]) for o1 in others for o2 in others if o1 != o2]
    return out


def history_foreign(name, hist):
    """the bytes that are foreign to `name` and accepted by an alphabet of the history (members and lower-case twins)"""
    alphabet = spec_alphabet(name)
    return sorted({b for h in hist for b in case_twins(spec_alphabet(h)) if not valid(b, alphabet)})


def gen_history(tier):
    # ---- 1c. the encode contract after other alphabet encodings were used in the same process
    thorough = tier == "thorough"
    for name in ENC_NAMES:
        ab = alphabet_bytes(ALPHABETS[name])
        a0, a1, al = ab[0], ab[1], ab[-1]
        own = case_twins(ALPHABETS[name])
        for label, hist in histories(name, tier):
            mk = lambda path, **kw: dict({"k": "enc_after", "history": hist, "enc": name, "path": path}, **kw)
            fs = history_foreign(name, hist if label != "two" else hist[:1])
            full = label in ("all", "all-reversed", "self-first")
            if full:                                    # its own alphabet is still accepted and reads back
                yield mk("str", data=own)
                yield mk("list", rows=[own[:2], [], own[2:]])
            for f in fs:
                d1, d2 = [f], [a0, f, al]
                r1, r2 = [[a0, a1], [f, al]], [[f], [], [a0]]
                if full and thorough:
                    for path in FLAT_PATHS:
                        yield mk(path, data=d1)
                        yield mk(path, data=d2)
                    for path in RAGGED_PATHS:
                        if path == "list_of_base_arrays":
                            continue                    # the target is not applied at all there (known)
                        for rows in (r1, r2, [[a0, f], [al, a0]]):
                            if ragged_path_applicable(path, rows):
                                yield mk(path, rows=rows)
                elif label == "all":
                    yield mk("str", data=d2)
                    yield mk("encstr", data=d1)
                    yield mk("ndarray", data=d2)
                    yield mk("base", data=d1)
                    yield mk("list", rows=r1)
                    yield mk("ragged", rows=r2)
                    yield mk("baseragged", rows=r1)
                    yield mk("nd2", rows=[[a0, f], [al, a0]])
                elif full:
                    yield mk("str", data=d2)
                    yield mk("list", rows=r1)
                else:
                    yield mk("str", data=d1)
                    yield mk("list", rows=r1)


def sampled_history_cases(seed, n):
    """above the bounds: random histories (1..7 encodings, repeats and the encoding itself allowed, user-made alphabets of random
    letters), a random character of an alphabet used before (or beyond 8 bits) at a random position of a longer text"""
    import random
    rng = random.Random(seed * 15485863 + 606)
    for _ in range(n):
        name = rng.choice(ENC_NAMES)
        alphabet = ALPHABETS[name]
        own = case_twins(alphabet)
        hist = []
        for _ in range(rng.randint(1, 7)):
            if rng.random() < 0.2:
                hist.append("fresh:" + "".join(rng.sample("ABCDEFGHIJKLMNOPQRSTUVWXYZ0123456789+-.=*?", rng.randint(2, 12))))
            else:
                hist.append(rng.choice(ENC_NAMES))
        if all(h == name for h in hist):
            continue
        data = [rng.choice(own) for _ in range(rng.randint(0, 12))]
        fs = history_foreign(name, [h for h in hist if h != name])
        wide = rng.random() < 0.15
        if fs and rng.random() < 0.85:
            f = rng.choice(fs)
            if wide:
                f += rng.choice((0x100, 0x200, 0x10000, 0x1F400))
            data.insert(rng.randint(0, len(data)), f)
        case = {"k": "enc_after", "history": hist, "enc": name}
        if rng.random() < 0.5:
            case["path"] = rng.choice(STR_FLAT_PATHS if wide else FLAT_PATHS)
            case["data"] = data
        else:
            cuts = sorted(rng.randrange(len(data) + 1) for _ in range(rng.randint(0, 3)))
            rows = [data[a:b] for a, b in zip([0] + cuts, cuts + [len(data)])]
            case["path"] = rng.choice(STR_RAGGED_PATHS if wide else [p_ for p_ in RAGGED_PATHS if p_ != "list_of_base_arrays"])
            case["rows"] = rows
            if not ragged_path_applicable(case["path"], rows):
                continue
        yield case


def sampled_wide_cases(seed, n):
    """above the bounds: longer texts / lists with one random character beyond 8 bits (any offset, any low byte)"""
    import random
    rng = random.Random(seed * 32452843 + 6006)
    for _ in range(n):
        name = rng.choice(ENC_NAMES)
        own = case_twins(ALPHABETS[name])
        data = [rng.choice(own) for _ in range(rng.randint(1, 30))]
        while True:
            cp = (rng.choice(own) if rng.random() < 0.7 else rng.randrange(256)) + 256 * rng.randrange(1, 0x10FF)
            if not 0xD800 <= cp < 0xE000 and cp <= 0x10FFFF:
                break
        data.insert(rng.randint(0, len(data)), cp)
        if rng.random() < 0.3:
            yield {"k": "enc", "enc": name, "path": rng.choice(STR_FLAT_PATHS), "data": data}
        else:
            cuts = sorted(rng.randrange(len(data) + 1) for _ in range(rng.randint(0, 4)))
            rows = [data[a:b] for a, b in zip([0] + cuts, cuts + [len(data)])]
            yield {"k": "enc", "enc": name, "path": rng.choice(STR_RAGGED_PATHS), "rows": rows}


def gen_numeric(tier):
    # ---- 5. numeric offset encodings
    for name, lo in NUMERIC.items():
        for b in range(lo, 256):
            yield {"k": "numeric", "enc": name, "path": "ndarray", "rows": [[b]]}
            if b < 128:
                yield {"k": "numeric", "enc": name, "path": "str", "rows": [[b]]}
                yield {"k": "numeric", "enc": name, "path": "encstr", "rows": [[b]]}
                yield {"k": "numeric", "enc": name, "path": "list", "rows": [[b], [], [b, lo]]}
        hi = [lo, lo + 1, 126, 127]
        for rows in ([[]], [hi], [hi[::-1], hi]):
            yield {"k": "numeric", "enc": name, "path": "list", "rows": rows}
        yield {"k": "numeric", "enc": name, "path": "str", "rows": [hi]}
        yield {"k": "numeric", "enc": name, "path": "ndarray", "rows": [[lo, 255, 200, lo]]}


def charmat_shapes(tier):
    R, K = (5, 6) if tier == "thorough" else (4, 4)
    return [(r, k) for r in range(R + 1) for k in range(K + 1)]


CHARMAT_FOREIGN_SHAPES = {"quick": ((1, 1), (1, 3), (3, 1), (2, 2), (2, 3)),
                          "thorough": ((1, 1), (1, 3), (3, 1), (2, 2), (2, 3), (3, 3), (1, 5), (4, 2))}


def gen_charmat(tier):
    # ---- 3c. character matrices (one letter per cell, one sequence per row): every shape r x k, axes of length 0 and 1 included
    thorough = tier == "thorough"
    low = lambda b: b + 32 if 65 <= b <= 90 else b
    for name in CHARMAT_TARGETS:
        alphabet = spec_alphabet(name) if name else None
        ab = alphabet_bytes(alphabet or "ACGTN")
        a0, a1, al = ab[0], ab[1], ab[-1]
        mk = lambda kind, rows, k: {"k": "charmat", "enc": name, "kind": kind, "rows": rows, "ncols": k}
        # (i) every shape x every container kind; content cycling through the alphabet, mixed case
        for r, k in charmat_shapes(tier):
            seen = []
            for off in ((0, 1, len(ab) - 1) if thorough else (0,)):
                for lm in ((1, 0, 2) if thorough else (1,)):
                    rows = fill((k,) * r, ab, off, lm)
                    if rows in seen:
                        continue
                    seen.append(rows)
                    for kind in CHARMAT_KINDS:
                        if charmat_applicable(kind, rows, k):
                            yield mk(kind, rows, k)
        # (ii) every byte: as the only cell, and inside a one-row / one-column / square matrix
        #      (the base encoding / no target: text is ASCII, bytes 0..127)
        #      quick: every byte as the only cell of an object matrix; the other kinds / the 1 x 3 matrix for the members, their
        #      lower-case twins and the medium set of foreign bytes (bytes numerically related to the members)
        every = range(256 if alphabet is not None else 128)
        near = set(every) if thorough else set(case_twins(alphabet or "ACGTN")) | set(foreign_set(alphabet, "medium") if alphabet else ())
        for b in every:
            for kind in ("O", "U", "S") + (("frame",) if thorough else ()):
                if (kind == "O" or b in near) and charmat_applicable(kind, [[b]]):
                    yield mk(kind, [[b]], 1)
            for kind in ("O", "U", "S") if thorough else ("O",):
                if b in near and charmat_applicable(kind, [[b]]):
                    yield mk(kind, [[a0, b, low(al)]], 3)
            if thorough:
                yield mk("O", [[a0], [b], [low(al)]], 1)
                yield mk("O", [[a0, low(a1)], [b, al]], 2)
        # (iii) every content over three letters (first, second, last member) for the matrices of up to 3 (thorough: 4) cells
        sub = [a0, a1, al]
        for r, k in charmat_shapes(tier):
            if 1 <= r * k <= (4 if thorough else 3):
                for content in itertools.product(sub, repeat=r * k):
                    rows = [list(content[i * k:(i + 1) * k]) for i in range(r)]
                    for kind in CHARMAT_KINDS if thorough else ("U", "O"):
                        yield mk(kind, rows, k)
        if alphabet is None:
            continue
        # (iv) one foreign cell at every position
        small = foreign_set(alphabet, "small")
        fs = small if thorough else small[:3] + small[-1:]
        for r, k in CHARMAT_FOREIGN_SHAPES[tier]:
            base = fill((k,) * r, ab, 0, 1)
            for i in range(r):
                for j in range(k):
                    for f in fs:
                        rows = [list(x) for x in base]
                        rows[i][j] = f
                        for kind in CHARMAT_KINDS if thorough or f == fs[0] else ("U", "O"):
                            if charmat_applicable(kind, rows):
                                yield mk(kind, rows, k)
        # (v) a cell that is no byte at all: member / lower-case twin + a multiple of 256
        pts = [cp for cp, _ in wide_points(alphabet, WIDE_OFFSETS["quick"] if thorough else (0x100,))] + list(WIDE_UNRELATED)
        for cp in pts:
            for kind in ("U", "O") + (("frame",) if thorough else ()):
                yield mk(kind, [[cp]], 1)
                yield mk(kind, [[a0, cp, low(al)]], 3)
                if thorough:
                    yield mk(kind, [[a0, low(a1)], [cp, al]], 2)
                    yield mk(kind, [[a0], [cp]], 1)


def sampled_charmat_cases(seed, n):
    """above the bounds: larger matrices (1..8 rows x 1..12 columns, every third one with a single row or column), random letters in
    both cases, sometimes one foreign cell"""
    import random
    rng = random.Random(seed * 86028121 + 600006)
    for _ in range(n):
        name = rng.choice(CHARMAT_TARGETS)
        alphabet = spec_alphabet(name) if name else None
        own = case_twins(alphabet or "ACGTN")
        r, k = rng.randint(1, 8), rng.randint(1, 12)
        u = rng.random()
        if u < 0.2:
            r = 1
        elif u < 0.33:
            k = 1
        rows = [[rng.choice(own) for _ in range(k)] for _ in range(r)]
        if alphabet is not None and rng.random() < 0.3:
            rows[rng.randrange(r)][rng.randrange(k)] = rng.choice(foreign_set(alphabet, "medium"))
        kind = rng.choice(CHARMAT_KINDS)
        if charmat_applicable(kind, rows):
            yield {"k": "charmat", "enc": name, "kind": kind, "rows": rows, "ncols": k}


def layout_fill(n, ab, off, lower_mode):
    """n letters cycling through the alphabet from `off`, shifted by one after every full cycle (so rows as wide as the alphabet
    differ); lower_mode as in fill()"""
    out = []
    for k in range(n):
        b = ab[(off + k + k // len(ab)) % len(ab)]
        if 65 <= b <= 90 and (lower_mode == 2 or (lower_mode == 1 and k % 2 == 1)):
            b += 32
        out.append(b)
    return out


def _sl(a=None, b=None, c=None):
    return ["s", a, b, c]


def layout_views(shape, full):
    """named chains of steps for an array of this shape (every axis >= 1 long): [(name, steps)]; the first LAYOUT_CORE[ndim] are the
    core set"""
    n = len(shape)
    size = nd.size_of(shape)
    if n == 1:
        out = [("rev", [["idx", [_sl(None, None, -1)]]]), ("step2", [["idx", [_sl(None, None, 2)]]]),
               ("rev-step2", [["idx", [_sl(None, None, -2)]]]), ("list", [["idx", [["l", [shape[0] - 1, 0, 0, shape[0] // 2]]]]])]
        for k in range(1, shape[0] + 1):
            out += [("window%d" % k, [["window", k]]), ("window%d>T" % k, [["window", k], ["T"]])]
            if full:
                out += [("window%d>step2" % k, [["window", k], ["idx", [_sl(None, None, 2)]]]),
                        ("window%d>T>row0" % k, [["window", k], ["T"], ["idx", [["i", 0]]]]),
                        ("window%d>col-last" % k, [["window", k], ["idx", [_sl(), ["i", -1]]]]),
                        ("window%d>T>rev" % k, [["window", k], ["T"], ["idx", [_sl(None, None, -1)]]]),
                        ("window%d>ravel" % k, [["window", k], ["ravel"]])]
        return out
    if n == 2:
        r, c = shape
        out = [
            ("plain", []),
            ("T", [["T"]]),
            ("cols-step2", [["idx", [_sl(), _sl(None, None, 2)]]]),
            ("T>rows1:", [["T"], ["idx", [_sl(1, None)]]]),
            ("rows-rev", [["idx", [_sl(None, None, -1)]]]),
            ("cols-rev", [["idx", [_sl(), _sl(None, None, -1)]]]),
            ("T>cols-step2", [["T"], ["idx", [_sl(), _sl(None, None, 2)]]]),
            ("T>rows-rev", [["T"], ["idx", [_sl(None, None, -1)]]]),
            ("cols1:>T", [["idx", [_sl(), _sl(1, None)]], ["T"]]),
            ("col0", [["idx", [_sl(), ["i", 0]]]]),
            ("T>row-last", [["T"], ["idx", [["i", -1]]]]),
            ("T>col0", [["T"], ["idx", [_sl(), ["i", 0]]]]),
            ("T>rows-list", [["T"], ["idx", [["l", [c - 1, 0, 0]]]]]),
            ("T>ravel", [["T"], ["ravel"]]),
            ("T>reshape-back", [["T"], ["reshape", [r, c]]]),
            ("T>copy", [["T"], ["copy"]]),
            ("T>T", [["T"], ["T"]]),
        ]
        if full:
            out += [
                ("rows-step2", [["idx", [_sl(None, None, 2)]]]),
                ("both-rev", [["idx", [_sl(None, None, -1), _sl(None, None, -1)]]]),
                ("rows-list", [["idx", [["l", [r - 1, 0, 0]]]]]),
                ("cols-list", [["idx", [_sl(), ["l", [0, c - 1, 0]]]]]),
                ("T>cols-list", [["T"], ["idx", [_sl(), ["l", [r - 1, 0]]]]]),
                ("T>cols1:", [["T"], ["idx", [_sl(), _sl(1, None)]]]),
                ("T>both-step2", [["T"], ["idx", [_sl(None, None, 2), _sl(None, None, 2)]]]),
                ("T>both-rev", [["T"], ["idx", [_sl(None, None, -1), _sl(None, None, -1)]]]),
                ("rows1:>T>cols-rev", [["idx", [_sl(1, None)]], ["T"], ["idx", [_sl(), _sl(None, None, -1)]]]),
                ("cols-rev>T", [["idx", [_sl(), _sl(None, None, -1)]], ["T"]]),
                ("cols-step2>T", [["idx", [_sl(), _sl(None, None, 2)]], ["T"]]),
                ("T>inner", [["T"], ["idx", [_sl(0, -1), _sl(1, None)]]]),
                ("T>element", [["T"], ["idx", [["i", -1], ["i", 0]]]]),
                ("T>reshape-flat", [["T"], ["reshape", [size]]]),
                ("T>reshape-column", [["T"], ["reshape", [size, 1]]]),
                ("cols-step2>ravel", [["idx", [_sl(), _sl(None, None, 2)]], ["ravel"]]),
                ("ravel", [["ravel"]]),
                ("copy", [["copy"]]),
                ("T>copy>T", [["T"], ["copy"], ["T"]]),
            ]
        return out
    a, b, c = shape
    out = [
        ("plain", []),
        ("T", [["T"]]),
        ("T>first", [["T"], ["idx", [["i", 0]]]]),
        ("T>mid0", [["T"], ["idx", [_sl(), ["i", 0]]]]),
        ("mid-last", [["idx", [_sl(), ["i", -1]]]]),
        ("last0", [["idx", [_sl(), _sl(), ["i", 0]]]]),
        ("T>ravel", [["T"], ["ravel"]]),
        ("first>T", [["idx", [["i", -1]]], ["T"]]),
    ]
    if full:
        out += [
            ("T>rows-rev", [["T"], ["idx", [_sl(None, None, -1)]]]),
            ("T>last-step2", [["T"], ["idx", [_sl(), _sl(), _sl(None, None, 2)]]]),
            ("T>reshape2d", [["T"], ["reshape", [c * b, a]]]),
            ("reshape2d>T", [["reshape", [a, b * c]], ["T"]]),
            ("mid-rev", [["idx", [_sl(), _sl(None, None, -1)]]]),
            ("T>last-last>T", [["T"], ["idx", [_sl(), _sl(), ["i", -1]]], ["T"]]),
            ("T>copy", [["T"], ["copy"]]),
            ("T>line", [["T"], ["idx", [["i", 0], ["i", -1]]]]),
        ]
    return out


LAYOUT_CORE = {1: 4, 2: 4, 3: 3}
LAYOUT_EMPTY_VIEWS = [[], [["T"]], [["idx", [_sl(None, None, -1)]]], [["T"], ["ravel"]]]


def gen_layout(tier):
    # ---- 2b. the same elements lying differently in memory (transposed / column-major / strided / windows), both sides
    thorough = tier == "thorough"
    shapes2 = [(r, c) for r in range(1, 5) for c in range(1, 5)] + ([(2, 7), (6, 2), (5, 5)] if thorough else [])
    shapes3 = [(2, 3, 2), (2, 2, 3)] + ([(3, 2, 2), (1, 3, 2), (2, 1, 3), (3, 2, 1), (2, 3, 4), (2, 2, 2)] if thorough else [])
    lens1 = (2, 3, 4, 5, 6, 7) if thorough else (3, 5)
    for name in ENC_NAMES:
        alphabet = ALPHABETS[name]
        ab = alphabet_bytes(alphabet)
        dst = LAYOUT_PARTNER.get(name)
        mk = lambda **kw: dict({"k": "layout", "enc": name}, **kw)
        # (i) decode side: alphabet-encoded arrays
        for shape in shapes2 + shapes3 + [(n,) for n in lens1]:
            size = nd.size_of(shape)
            views = layout_views(shape, thorough)
            for order in ("C", "F") if len(shape) > 1 else ("C",):
                for off in ((0, 1) if thorough else (0,)):
                    use = views if (order == "C" or (thorough and off == 0)) else views[:LAYOUT_CORE[len(shape)]]
                    for vi, (_, ops) in enumerate(use):
                        yield mk(src="enc", data=layout_fill(size, ab, off, 0), shape=list(shape), order=order, ops=ops,
                                 dst=dst if thorough or vi < 2 * LAYOUT_CORE[len(shape)] else None)
        for shape in ((0, 3), (3, 0), (0, 0), (0,), (2, 0, 2)):
            for ops in LAYOUT_EMPTY_VIEWS:
                yield mk(src="enc", data=[], shape=list(shape), order="C", ops=ops, dst=dst)
        # (ii) encode side: text (uint8 ndarray / base-encoded array) in mixed case put through the steps, then encoded
        tshapes = shapes2 + shapes3 + [(n,) for n in lens1] if thorough else [(2, 3), (3, 2), (2, 2), (1, 3), (4, 1), (3, 4), (2, 3, 2), (5,)]
        for src, vias in (("Bytes", ("encode", "as_encoded_array")), ("Base", ("as_encoded_array", "encode"))):
            for shape in tshapes:
                size = nd.size_of(shape)
                views = layout_views(shape, thorough)
                for order in ("C", "F") if len(shape) > 1 else ("C",):
                    use = views if order == "C" else views[:LAYOUT_CORE[len(shape)]]
                    if not thorough and src == "Base":
                        use = use[:2 * LAYOUT_CORE[len(shape)]]
                    for vi, (_, ops) in enumerate(use):
                        for via in vias if vi < LAYOUT_CORE[len(shape)] else vias[:1]:
                            yield mk(src=src, via=via, data=layout_fill(size, ab, 1, 1), shape=list(shape), order=order, ops=ops)
            # one foreign byte at every position of the underlying array; views that leave a column / row out must still accept
            # the text when the foreign byte is not among the elements they select
            fs = foreign_set(alphabet, "small")
            fs = fs[:4] if thorough else fs[:1] + fs[-1:]
            fnames = ("plain", "T", "cols1:>T", "T>rows1:", "cols-step2", "col0", "T>first", "mid-last") if thorough else ("plain", "T", "cols1:>T")
            for shape in ((2, 3), (3, 2)) + (((2, 2, 2), (3, 3)) if thorough else ()):
                size = nd.size_of(shape)
                fviews = [v for v in layout_views(shape, thorough) if v[0] in fnames]
                for order in ("C", "F"):
                    for _, ops in fviews:
                        if (not ops and order == "C") or (ops and order == "F" and not thorough):
                            continue
                        for pos in range(size):
                            for f in fs:
                                data = layout_fill(size, ab, 0, 1)
                                data[pos] = f
                                yield mk(src=src, via=vias[0], data=data, shape=list(shape), order=order, ops=ops)
        # (iii) thorough: every content over two letters (first and last member) for the small matrices
        if thorough:
            for shape in ((2, 2), (2, 3), (3, 2)):
                for content in itertools.product((ab[0], ab[-1]), repeat=nd.size_of(shape)):
                    for ops in ([["T"]], [["T"], ["idx", [_sl(1, None)]]]):
                        yield mk(src="enc", data=list(content), shape=list(shape), order="C", ops=ops, dst=None)
                    yield mk(src="enc", data=list(content), shape=list(shape), order="F", ops=[], dst=None)
                    yield mk(src="Bytes", via="encode", data=list(content), shape=list(shape), order="F", ops=[])


def sampled_layout_cases(seed, n):
    """above the bounds: larger arrays (1..3 axes of 1..6), random content, random chains of 1..4 steps"""
    import random
    rng = random.Random(seed * 49979687 + 60006)
    made = 0
    while made < n:
        name = rng.choice(ENC_NAMES)
        ab = alphabet_bytes(ALPHABETS[name])
        shape = tuple(rng.randint(1, 6) for _ in range(rng.choice((1, 2, 2, 2, 3))))
        order = rng.choice(("C", "F"))
        src = rng.choice(("enc", "enc", "Bytes", "Base"))
        both = ab + [b + 32 for b in ab if 65 <= b <= 90]
        data = [rng.choice(ab if src == "enc" else both) for _ in range(nd.size_of(shape))]
        if src != "enc" and rng.random() < 0.25:
            data[rng.randrange(len(data))] = rng.choice(foreign_set(ALPHABETS[name], "medium"))
        ops, cur = [], shape
        for _ in range(rng.randint(1, 4)):
            kind = rng.choice(("T", "T", "idx", "idx", "idx", "window", "reshape", "ravel", "copy"))
            if kind == "T":
                st = ["T"]
            elif kind == "idx" and len(cur) >= 1:
                subs = []
                fancy = rng.random() < 0.2
                for ax, m in enumerate(cur[:rng.randint(1, len(cur))]):
                    u = rng.random()
                    if fancy and ax == 0:
                        subs.append(["l", [rng.randrange(-m, m) for _ in range(rng.randint(1, 4))]])
                    elif u < 0.2 and not fancy:
                        subs.append(["i", rng.randrange(-m, m)])
                    else:
                        subs.append(_sl(rng.choice((None, 0, 1, -1)), rng.choice((None, None, m, -1)), rng.choice((None, 1, 2, -1, -2))))
                st = ["idx", subs]
            elif kind == "window" and len(cur) == 1 and cur[0] >= 1:
                st = ["window", rng.randint(1, cur[0])]
            elif kind == "reshape" and nd.size_of(cur) > 0:
                size = nd.size_of(cur)
                d = rng.choice([k for k in range(1, size + 1) if size % k == 0])
                st = ["reshape", [d, size // d]]
            elif kind in ("ravel", "copy"):
                st = [kind]
            else:
                continue
            ops.append(st)
            cur = nd.apply((cur, [0] * nd.size_of(cur)), [st])[0]
            if nd.size_of(cur) == 0:
                break
        if not ops or len(cur) > 3 or (src == "Bytes" and len(cur) == 0):
            continue
        made += 1
        case = {"k": "layout", "enc": name, "src": src, "data": data, "shape": list(shape), "order": order, "ops": ops}
        if src == "enc":
            case["dst"] = rng.choice((None, LAYOUT_PARTNER.get(name)))
        else:
            case["via"] = rng.choice(("encode", "as_encoded_array"))
        yield case


def gen_cases(tier, rng=None):
    """order: cheap and defect-prone parts first, so that a cut by the time budget loses the least"""
    for g in (gen_bytes, gen_numeric, gen_charmat, gen_wide, gen_history, gen_layout, gen_pieces, gen_retarget, gen_views, gen_strings, gen_lists):
        yield from g(tier)


def sampled_cases(tier, rng, n):
    """above the exhaustive bounds: random longer strings / lists (seeded)"""
    for _ in range(n):
        name = rng.choice(ENC_NAMES)
        alphabet = ALPHABETS[name]
        ab = alphabet_bytes(alphabet)
        both = ab + [b + 32 for b in ab if 65 <= b <= 90]
        L = rng.randint(5, 40)
        data = [rng.choice(both) for _ in range(L)]
        if rng.random() < 0.5:
            data[rng.randrange(L)] = rng.choice(foreign_set(alphabet, "all"))
        if rng.random() < 0.5:
            yield {"k": "enc", "enc": name, "path": rng.choice(FLAT_PATHS), "data": data}
        else:
            cuts = sorted(rng.randrange(L + 1) for _ in range(rng.randint(0, 4)))
            rows = [data[a:b] for a, b in zip([0] + cuts, cuts + [L])]
            path = rng.choice(RAGGED_PATHS)
            if ragged_path_applicable(path, rows):
                yield {"k": "enc", "enc": name, "path": path, "rows": rows}
        src = rng.choice(ENC_NAMES)
        sab = alphabet_bytes(ALPHABETS[src])
        top = rng.randrange(len(sab))        # vary the largest code present
        d2 = [sab[rng.randint(0, top)] for _ in range(rng.randint(4, 12))]
        yield {"k": "retarget", "src": src, "dst": rng.choice(ENC_NAMES), "fn": rng.choice(["as_encoded_array", "change_encoding"]),
               "data": d2}


def sampled_view_cases(seed, n):
    """above the bounds: larger big arrays, random chains of 1..3 indexing steps (own seeded stream)"""
    import random
    rng = random.Random(seed * 7919 + 6)
    opt = lambda lo, hi: rng.choice([None] + list(range(lo, hi + 1)))
    for _ in range(n):
        src, dst = rng.choice(VIEW_SOURCES), rng.choice(VIEW_TARGETS)
        fns = view_fns(src, dst)
        if not fns:
            continue
        fn = rng.choice(fns)
        letters, lm = rng.choice(view_contents(src, dst, fn))
        lens = [rng.choice((0, 0, 1, 2, 3, 5, 8)) for _ in range(rng.randint(3, 12))]
        big = fill(lens, letters, rng.randrange(len(letters)), lm)
        rows, view = big, []
        for _ in range(rng.randint(1, 3)):
            m = len(rows)
            kinds = ["slice", "all"] + (["list", "array", "mask"] if m else [])
            kind = rng.choice(kinds)
            if kind == "slice":
                spec = ["slice", opt(-m - 1, m + 1), opt(-m - 1, m + 1), rng.choice((None, 1, 2, 3, -1, -2, -3))]
            elif kind in ("list", "array"):
                spec = [kind, [rng.randrange(-m, m) for _ in range(rng.randint(0 if kind == "list" else 1, 7))]]
            elif kind == "mask":
                spec = ["mask", [rng.randint(0, 1) for _ in range(m)]]
            else:
                spec = ["all"]
            cols = [opt(-3, 6), opt(-3, 6)] if kind == "all" or rng.random() < 0.3 else None
            view.append(_st(spec, cols))
            rows = apply_view(rows, view[-1:])
        yield {"k": "retarget_view", "src": src, "dst": dst, "fn": fn, "big": big, "view": view}


def run(tier="quick", seed=0):
    col = Collector("C06", tier, seed,
                    "exhaustive: every byte 0..255 x every predefined alphabet encoding x every input kind; every string up to "
                    "length L over each alphabet in all single-position case variants; the same with one foreign byte inserted at "
                    "every position; lists of 0..3 rows of length 0..2 x every container kind (+ one foreign byte at every row/position); "
                    "every ordered pair of alphabets x every string up to length Lr over the source alphabet x {as_encoded_array, "
                    "change_encoding, encode}; lists of already encoded pieces (0-d letters / 1-d rows / str, each piece with its own "
                    "encoding): every ordered pair of piece encodings x every arrangement x targets; the same three calls on sources that are not-yet-flattened views (a larger array indexed "
                    "by a[::-1] / a[idx] / a[mask] / a[i:j] / a[::2] / a[:, c0:c1] and chains, handed over unread): every ordered pair "
                    "of alphabets x a family of big arrays x every kind of view, and per function one pair x every big array of 2..N "
                    "rows x every kind of view, and x every slice / mask / index list / column trim of one array; "
                    "characters beyond 8 bits (member or lower-case twin + a multiple of 256 / 65536) through every input kind that "
                    "holds python str; the encode contract after a history of other alphabet encodings used in the same process "
                    "(every character of an alphabet used before that is foreign to the current one); "
                    "memory layouts: every alphabet x 2-d shapes 1..4 x 1..4 (+ 3-d, 1-d) x row-/column-major fill x a family of "
                    "transposing / strided / reversed / windowed views, decode side (all observers) and encode side (text views, "
                    "one foreign byte at every position); "
                    "character matrices (2-d numpy '<U1' / object / 'S1' arrays and DataFrames, one letter per cell): every shape r x k "
                    "incl. one row / one column / one cell / empty x every alphabet, the base encoding and no target, every byte as a "
                    "cell, one foreign cell at every position; "
                    "distinct = distinct (encoding, input kind, byte content[, view]); non-trivial = non-empty content "
                    "(views: and the source really was unflattened when handed over)",
                    budget_s=(75 if tier == "quick" else 700))
    col.bounds = {
        "encodings": ENC_NAMES + ["DNAEncoding", "RNAENcoding", "fresh:acgtn (byte table only)"],
        "bytes": "0..255 at length 1 through %d input kinds" % (len(FLAT_PATHS) + len(RAGGED_PATHS)),
        "limits(alphabet size -> L valid, L base for foreign insertion (medium set), L base for all-256 insertion, L retarget)":
            {str(n): limits(tier, n) for n in (3, 4, 5, 9, 10, 16, 21)},
        "lists": "0..3 rows, row length 0..2, content cycling through the alphabet from %s offset, 3 case modes"
                 % ("every" if tier == "thorough" else "every (small alphabets) / every third"),
        "retarget_targets": ENC_NAMES + ["fresh:ACGT", "Base", "Quality"],
        "retarget_views": {
            "sources": VIEW_SOURCES, "targets": VIEW_TARGETS,
            "functions": "as_encoded_array + change_encoding (alphabet sources), + encode (base-encoded sources), encode only (uint8 "
                         "RaggedArray / ndarray 'Bytes' sources); same-encoding pairs: change_encoding only",
            "content": "letters on which the call is defined (common prefix for as_encoded_array, common letters for change_encoding, "
                       "target alphabet in mixed case for text sources) cycling through them, and the full source alphabet "
                       "(the call may raise)",
            "(i) every pair": "big arrays with row lengths %r x %s views each (quick: all %d kinds on the first, %r on the second / "
                              "on raising content); flat arrays of 7 letters x %d strided views"
                              % (VIEW_SHAPES if tier == "thorough" else VIEW_SHAPES[:2],
                                 len(standard_views(6, tier == "thorough")), len(standard_views(6, False)), QUICK_FEW,
                                 len(FLAT_VIEWS) if tier == "thorough" else 3),
            "(ii) every big array": "%r: %s" % (VIEW_REPRESENTATIVES if tier == "thorough" else VIEW_REPRESENTATIVES[:3],
                                                "2..4 rows of length 0..3 x 31 view kinds; 5 and 6 rows of length 0..2 x 12 view kinds"
                                                if tier == "thorough" else "2..4 rows of length 0..2 x 12 view kinds"),
            "(iii) every view": "%r: row lengths %s: every a[i:j:s] (i, j in None, 0..n, -1, -2; s in None, 2, -1, -2), every mask, every "
                                "index list of length 1..3, every column trim c0:c1 (None, 0..max, -1, -2) x {all rows, reversed, "
                                "index list, mask}" % (VIEW_REPRESENTATIVES if tier == "thorough" else VIEW_REPRESENTATIVES[:2],
                                                       "(2,0,3,1,0,4) and (0,2,1,3)" if tier == "thorough" else "(2,0,3,1)"),
            "oracle": "plain Python list indexing of the rows (refmodels/alphabets.apply_view); a separate copy of every view is "
                      "read back first and must agree with it",
        },
        "pieces": {
            "piece_encodings": PIECE_ENCS, "targets": ["(none)"] + PIECE_TARGETS[1:],
            "piece kinds": "0-d letter obtained by %r, 1-d row obtained by %r, str" % (LETTER_HOWS, ROW_HOWS),
            "containers": "list; tuple and object ndarray for the basic arrangements",
            "(i) every ordered pair of piece encodings": "arrangements: all letters (rows) of one then / enclosing those of the other, "
                "both pieces at the same code position k (%s), the odd piece first / middle / last of three, empty rows, "
                "0-d with 1-d pieces, str with encoded pieces; %s" % (
                    "every k" if tier == "thorough" else "k in 0..3 and the last common one",
                    "all arrangements x all targets" if tier == "thorough" else
                    "all arrangements without target, four basic ones x {either piece encoding, ACGTn, Base, Quality}"),
            "(ii) ways of obtaining the pieces": "every pair of ways x %s" % (
                "every pair of encodings x k in 1..3" if tier == "thorough" else "6 encodings squared x k = 2"),
            "(iii) three encodings": "7 encodings cubed x every triple of code positions 0..3 (letters) / row starts 0..2"
                                     if tier == "thorough" else "thorough tier only",
            "single pieces and the empty list": "every letter of every encoding as one 0-d / 1-d piece x every target",
            "oracle": "the call raises, or the result reads back as the texts of the pieces (spec alphabets), piece for piece",
        },
        "numeric": "every byte >= min_code for Quality(33), Digit(48), CigarLen(0)",
        "char_matrices": {
            "containers": "2-d numpy arrays with one letter per cell of dtype '<U1' / object / 'S1', pandas DataFrame of single letters; "
                          "built cell by cell with the exact shape (r, k); handed to as_encoded_array",
            "targets": ENC_NAMES + ["Base", "(none)"],
            "(i) shapes": "every r x k with r in 0..%d, k in 0..%d (one row, one column, one cell, no row, no column included) x every "
                          "container; content cycling through the alphabet %s" % (
                              (5, 6, "from offsets 0, 1, last x {mixed, upper, lower} case") if tier == "thorough" else (4, 4, "in mixed case")),
            "(ii) bytes": "every byte 0..255 (base encoding / no target: 0..127) as the only cell (1 x 1)%s" % (
                " and inside a 1 x 3 / 3 x 1 / 2 x 2 matrix, every container" if tier == "thorough" else
                " of an object matrix; members, lower-case twins and the medium foreign set also as '<U1' / 'S1' cell and inside a 1 x 3 matrix"),
            "(iii) contents": "every content over {first, second, last member} for every shape of 1..%d cells" % (4 if tier == "thorough" else 3),
            "(iv) foreign": "one foreign byte (%s) at every cell of the shapes %r" % (
                "small set" if tier == "thorough" else "4 of the small set", CHARMAT_FOREIGN_SHAPES[tier]),
            "(v) beyond 8 bits": "member / twin + %s and the unrelated characters as a cell of a 1 x 1 / 1 x 3%s matrix ('<U1', object%s)" % (
                ([hex(o) for o in WIDE_OFFSETS["quick"]], " / 2 x 2 / 2 x 1", ", DataFrame") if tier == "thorough" else (["0x100"], "", "")),
            "oracle": "row i of the text = concatenation of the cells of row i (upper-cased for alphabet targets); accepted exactly when "
                      "every cell is in the alphabet; r rows read back through tolist / x[i] and enc.decode",
            "classification": "a failure the same rows show as a plain list of str too -> the plain encode signature; a failure every "
                              "container kind shows -> ..:every-container, else ..:only-<kinds that show it>; the shape class (one-row, one-column, "
                              "one-cell, empty, general) is part of the signature",
        },
        "layout": {
            "encodings": ENC_NAMES,
            "shapes": "2-d: every r x c with r, c in 1..4%s; 3-d: %s; 1-d: lengths %s (windows of every width); zero-size: (0,3) (3,0) "
                      "(0,0) (0,) (2,0,2)" % ((" + (2,7) (6,2) (5,5)", "8 shapes up to (2,3,4)", "2..7") if tier == "thorough" else
                                              ("", "(2,3,2) (2,2,3)", "3, 5")),
            "fill": "row-major and column-major (reshape order='F'); letters cycling through the alphabet from offset %s, shifted by one "
                    "per cycle%s" % (("0 and 1", "; every content over {first, last member} for 2x2, 2x3, 3x2 x {T, T[1:], column-major, "
                                      "column-major bytes encoded}") if tier == "thorough" else ("0", "")),
            "views": "2-d: %d chains (T, rows / columns reversed / step 2 / from 1, index lists, one row / column / element, T of slices, "
                     "slices of T, T.T, then ravel / reshape / copy); 3-d: %d; 1-d: reversed, strided, index list, windows of every width "
                     "k (+ T%s); column-major fills: %s"
                     % (len(layout_views((2, 2), tier == "thorough")), len(layout_views((2, 2, 2), tier == "thorough")),
                        ", strided, row, column, reversed, ravel of the windows" if tier == "thorough" else "",
                        "all chains (offset 0), the core chains (offset 1)" if tier == "thorough" else "the core chains (plain, T, columns step 2, T[1:])"),
            "decode side observers": "enc.decode (shape + elements), to_string, tolist, ravel, x[i] for every i, iteration, str (quoted rows), "
                                     "every single element (size <= 6), change_encoding -> base -> back, as_encoded_array / change_encoding "
                                     "to the partner alphabet %r%s" % (LAYOUT_PARTNER, "" if tier == "thorough" else " (first 8 chains)"),
            "encode side": "sources uint8 ndarray ('Bytes') and base-encoded EncodedArray ('Base'), mixed case, through enc.encode and "
                           "as_encoded_array (both for the core chains, one for the others%s), shapes %s; one foreign byte (%s) at every position "
                           "of a 2x3 / 3x2%s array under %s" % (
                               "" if tier == "thorough" else "; base-encoded: the first 8 chains",
                               "as on the decode side" if tier == "thorough" else "(2,3) (3,2) (2,2) (1,3) (4,1) (3,4) (2,3,2) (5,)",
                               "4 bytes" if tier == "thorough" else "2 bytes",
                               " / 2x2x2 / 3x3" if tier == "thorough" else "",
                               "8 chains x both fills" if tier == "thorough" else "column-major fill, T, [:, 1:].T"),
            "oracle": "refmodels/ndlayout.py: t[i..k] = a[k..i], subscripts by position lists, row-major order of the indices; no numpy",
            "classification": "layout of the array handed over, from its shape / strides: row-major, axes-permuted, strided, overlapping, "
                              "empty; a failure that a freshly built row-major array of the same elements shows too -> any-layout",
        },
        "beyond_8_bits": {
            "characters": "every member and lower-case twin of every alphabet + each of %s, plus the unrelated %s"
                          % ([hex(o) for o in WIDE_OFFSETS[tier]], [hex(c) for c in WIDE_UNRELATED]),
            "input kinds": STR_FLAT_PATHS + STR_RAGGED_PATHS,
            "texts": "the character alone and inside alphabet text (flat: 3 characters; lists: 1 row and 3 rows); every "
                     "(row, position) of a 3-row list for %s" % ("every character" if tier == "thorough" else "the characters member + 0x100"),
            "other targets": "no target / base encoding x %d characters%s x every str input kind; Quality / Digit / CigarLen x 6 "
                             "characters x {str, list} x {as_encoded_array, encode}: raises or reads back as the same characters"
                             % (len(WIDE_TEXT_POINTS), " + every byte + 0x100" if tier == "thorough" else ""),
            "pieces": "a str piece holding such a character next to an encoded row / letter / another str, 3 characters x every "
                      "piece encoding x targets {none, the piece encoding, Base}",
            "refusal": "EncodingError, or the refusal of the conversion to bytes (UnicodeEncodeError, OverflowError)",
        },
        "history": {
            "histories per alphabet encoding E": "all 9 other predefined ones + a user-made one (%s), in declaration order / "
                "reversed / with E itself used first; each single other encoding%s; every encoding of the history encodes its own "
                "alphabet in both cases before the contract is evaluated (the case replays its history)"
                % (HISTORY_FRESH, "; every ordered pair of two others" if tier == "thorough" else ""),
            "characters": "every member / lower-case twin of an alphabet of the history that is foreign to E (pairs: of the first "
                          "one), alone and inside text of E; E's own alphabet (must still be accepted and read back)",
            "input kinds": "every flat and ragged kind x 2-3 texts (full histories)" if tier == "thorough" else
                           "8 kinds after the full history, str + list after the other histories",
            "classification": "a failure that a python process in which only E was used shows too (helper process per encoding, "
                              "started on the first failure) is reported under the plain encode signature",
        },
        "sampled": "random strings of length 5..40 above the bounds (seeded); random views: big arrays of 3..12 rows of length "
                   "0..8, chains of 1..3 random indexing steps (seeded, time permitting); random lists of 2..7 encoded pieces "
                   "(1..3 encodings, random kinds / ways / targets / containers); random texts / lists of 2..31 characters with one "
                   "random character beyond 8 bits; random histories of 1..7 encodings (repeats, user-made alphabets of random "
                   "letters) followed by text with a character of an alphabet used before; random layouts: arrays of 1..3 axes of "
                   "length 1..6, random fill order and content, chains of 1..4 random steps (T, subscripts, windows, reshape, ravel, copy), "
                   "decode and encode side; random character matrices of 1..8 x 1..12 cells (every third with one row or one column)",
    }
    for case in gen_cases(tier, col.rng):
        evaluate(col, case)
        if (col.evaluations & 255) == 0 and col.out_of_time():
            break
    else:
        # above the bounds: sampling; running out of time here does not make the enumeration below the bounds incomplete
        for case in sampled_cases(tier, col.rng, 300 if tier == "quick" else 5000):
            evaluate(col, case)
            if time.time() - col.t0 > col.budget_s:
                break
        for case in sampled_charmat_cases(seed, 150 if tier == "quick" else 3000):
            if time.time() - col.t0 > col.budget_s:
                break
            evaluate(col, case)
        for case in sampled_piece_cases(seed, 300 if tier == "quick" else 5000):
            if time.time() - col.t0 > col.budget_s:
                break
            evaluate(col, case)
        for gen_, n_ in ((sampled_wide_cases, 200 if tier == "quick" else 4000), (sampled_history_cases, 200 if tier == "quick" else 4000)):
            for case in gen_(seed, n_):
                if time.time() - col.t0 > col.budget_s:
                    break
                evaluate(col, case)
        for case in sampled_layout_cases(seed, 300 if tier == "quick" else 3000):
            if time.time() - col.t0 > col.budget_s:
                break
            evaluate(col, case)
        for case in sampled_view_cases(seed, 200 if tier == "quick" else 10000):
            if time.time() - col.t0 > col.budget_s:
                break
            evaluate(col, case)
    return col.result()


def replay(case):
    col = Collector("C06", "quick", 0, "replay")
    evaluate(col, case)
    if col.failures:
        return False, "; ".join(f["signature"] + ": " + f["message"] for f in col.failures)
    return True, "ok"
