"""Engine B helpers: run-time contracts over enumerated scopes (the BOUNDED stand-in; never counted
as proved).  Each rtc/enum_cXX.py exposes

    run(tier="quick"|"thorough", seed=0) -> dict     (see Collector.result)
    replay(case) -> (ok: bool, message: str)          re-runs one recorded case on the current tree

Oracles are independent reference models written from the property statement / the public format
specifications (plain Python: str.split, int, float, struct, per-base lists, Biopython) - never the
code under test.
"""
import gzip
import hashlib
import json
import os
import random
import shutil
import tempfile
import time
import traceback


class Collector:
    def __init__(self, pid, tier, seed, rule, budget_s=None):
        self.pid, self.tier, self.seed, self.rule = pid, tier, seed, rule
        self.evaluations = 0
        self._distinct = set()
        self.failures = []
        self._fail_sigs = set()
        self.samples = []
        self.bounds = {}
        self.exhaustive = True
        self.contract_evaluations = {}
        self.undecided = []
        self.t0 = time.time()
        self.budget_s = budget_s if budget_s is not None else (70 if tier == "quick" else 900)
        self.rng = random.Random(seed)

    def out_of_time(self):
        if time.time() - self.t0 > self.budget_s:
            self.exhaustive = False
            return True
        return False

    def case(self, descr, nontrivial=True, contract=None):
        """count one evaluated case; `descr` is any json-able description used for distinctness"""
        self.evaluations += 1
        if contract:
            self.contract_evaluations[contract] = self.contract_evaluations.get(contract, 0) + 1
        if nontrivial:
            h = hashlib.md5(json.dumps(descr, sort_keys=True, default=str).encode()).digest()[:8]
            self._distinct.add(h)
        if len(self.samples) < 5 and (self.evaluations in (1, 7, 50, 400, 3000)):
            self.samples.append(descr)

    def fail(self, signature, case, message):
        """signature: stable id of the failing *class* (used to match known_findings.json)"""
        if signature in self._fail_sigs:
            for f in self.failures:
                if f["signature"] == signature:
                    f["count"] = f.get("count", 1) + 1
            return
        self._fail_sigs.add(signature)
        self.failures.append({"signature": signature, "case": case, "message": str(message)[:600], "count": 1})

    def check(self, cond, signature, case, message=""):
        if not cond:
            self.fail(signature, case, message)
        return cond

    def guarded(self, fn, signature, case):
        """run fn(); an unexpected exception is a failure of that case"""
        try:
            return fn()
        except Exception as e:
            self.fail(signature + ":exception:" + type(e).__name__, case, traceback.format_exc()[-500:])
            return None

    def result(self):
        if not self.samples and self.evaluations:
            self.samples.append("(no sample recorded)")
        return {"evaluations": self.evaluations, "distinct_nontrivial": len(self._distinct), "rule": self.rule,
                "samples": self.samples, "exhaustive": self.exhaustive, "bounds": self.bounds,
                "contract_evaluations": self.contract_evaluations, "failures": self.failures,
                "undecided": self.undecided, "wall_s": round(time.time() - self.t0, 2)}


class TmpDir:
    """scratch directory outside /repo and /verif, removed on exit"""

    def __enter__(self):
        self.d = tempfile.mkdtemp(prefix="bnpverif_")
        return self.d

    def __exit__(self, *a):
        shutil.rmtree(self.d, ignore_errors=True)


def write_file(path, data: bytes, gz=False):
    if gz:
        with gzip.open(path, "wb") as f:
            f.write(data)
    else:
        with open(path, "wb") as f:
            f.write(data)
    return path


def to_py(x):
    """numpy / bionumpy values -> plain Python (lists, str, int, float) for comparison"""
    import numpy as np
    try:
        from bionumpy.encoded_array import EncodedArray, EncodedRaggedArray
    except Exception:
        EncodedArray = EncodedRaggedArray = ()
    if isinstance(x, EncodedRaggedArray):
        return [r.to_string() for r in x]
    if isinstance(x, EncodedArray):
        if x.ndim == 0:
            return x.to_string()
        if x.ndim == 1:
            return x.to_string()
        return [to_py(r) for r in x]
    if hasattr(x, "tolist"):
        return x.tolist()
    return x
