"""C14 bounded stand-in: reverse complement, strand-aware extraction and translation vs a table-driven
model cross-checked with Biopython.

Contracts evaluated at run time on the real functions (oracle = COMP / GENETIC_CODE below, both compared
with Biopython once per distinct string):

  reverse_complement   get_reverse_complement(x) rows == reversed rows with A<->T, C<->G, N fixed (case kept
                       under ASCII, folded to upper case by the case-insensitive alphabet encodings); number of
                       rows and every row length preserved; rc(rc(x)) == x; the argument is left unchanged.
                       Axes: encoding {ascii, acgt, acgtn, actg, actgn} x container {1-D EncodedArray, ragged,
                       2-D EncodedArray, SequenceEntry, plain str / list of str} x every string / list in scope.
  strand_specific      get_strand_specific_sequences(seq, Bed6)[i] == seq[a:b] for '+', rc(seq[a:b]) for '-';
                       every interval 0 <= a <= b <= L, both strands, every ordered list of 1..k intervals.
  genomic_sequence     GenomicSequence (dict backend, indexed-FASTA backend, Genome.read_sequence) indexed with
                       stranded intervals (extract_intervals(Bed6, stranded=True), GenomicIntervals with strand,
                       Genome.get_intervals(stranded=True)) and unstranded (always forward).
  translate            translate_dna_to_protein on rows whose lengths are multiples of 3: all 64 codons in every
                       case pattern, every concatenation of <= 2 (thorough: 3) codons, lists of rows with
                       0..3 codons each; output row r has len(row r)/3 symbols, codon by codon, stop = '*'.
"""
import itertools
import os

from .common import Collector, TmpDir

# ----------------------------------------------------------------------------------------------------------------
# reference model (written from the property statement / the standard genetic code, NCBI translation table 1)

COMP = {"A": "T", "T": "A", "C": "G", "G": "C", "N": "N",
        "a": "t", "t": "a", "c": "g", "g": "c", "n": "n"}

_AA_CODONS = {
    "F": "TTT TTC", "L": "TTA TTG CTT CTC CTA CTG", "I": "ATT ATC ATA", "M": "ATG", "V": "GTT GTC GTA GTG",
    "S": "TCT TCC TCA TCG AGT AGC", "P": "CCT CCC CCA CCG", "T": "ACT ACC ACA ACG", "A": "GCT GCC GCA GCG",
    "Y": "TAT TAC", "*": "TAA TAG TGA", "H": "CAT CAC", "Q": "CAA CAG", "N": "AAT AAC", "K": "AAA AAG",
    "D": "GAT GAC", "E": "GAA GAG", "C": "TGT TGC", "W": "TGG", "R": "CGT CGC CGA CGG AGA AGG",
    "G": "GGT GGC GGA GGG"}
GENETIC_CODE = {codon: aa for aa, codons in _AA_CODONS.items() for codon in codons.split()}
assert len(GENETIC_CODE) == 64
CODONS = ["".join(p) for p in itertools.product("ACGT", repeat=3)]

_rc_cache = {}
_tr_cache = {}


def rc_model(s):
    """reverse complement of one string, case preserved; cross-checked with Biopython on first use"""
    r = _rc_cache.get(s)
    if r is None:
        r = "".join(COMP[c] for c in reversed(s))
        from Bio.Seq import Seq
        bio = str(Seq(s).reverse_complement())
        if bio != r:
            raise AssertionError("oracle disagreement (table vs Biopython) on %r: %r vs %r" % (s, r, bio))
        _rc_cache[s] = r
    return r


def translate_model(s):
    r = _tr_cache.get(s)
    if r is None:
        assert len(s) % 3 == 0
        r = "".join(GENETIC_CODE[s[i:i + 3].upper()] for i in range(0, len(s), 3))
        from Bio.Seq import Seq
        bio = str(Seq(s).translate()) if s else ""
        if bio != r:
            raise AssertionError("oracle disagreement (table vs Biopython) on %r: %r vs %r" % (s, r, bio))
        _tr_cache[s] = r
    return r


# ----------------------------------------------------------------------------------------------------------------
# encodings and containers

ENC_SYMBOLS = {"ascii": "ACGTNacgtn", "acgt": "ACGTacgt", "acgtn": "ACGTNacgtn", "actg": "ACGTacgt",
               "actgn": "ACGTNacgtn"}


def get_encoding(name):
    from bionumpy.encodings import BaseEncoding
    from bionumpy.encodings.alphabet_encoding import ACGTEncoding, ACGTnEncoding, ACTGEncoding, ACTGnEncoding
    return {"ascii": BaseEncoding, "acgt": ACGTEncoding, "acgtn": ACGTnEncoding, "actg": ACTGEncoding,
            "actgn": ACTGnEncoding}[name]


def canon(enc_name, s):
    """how a string reads back after being stored in the encoding (alphabet encodings are case-insensitive)"""
    return s if enc_name == "ascii" else s.upper()


def build(strings, enc_name, container):
    """strings: list of str (flat: exactly one).  Returns the bionumpy value handed to the function under test"""
    import numpy as np
    import bionumpy as bnp
    from bionumpy.encoded_array import EncodedArray
    enc = get_encoding(enc_name)
    if container == "flat":
        return bnp.as_encoded_array(strings[0], enc)
    if container == "ragged":
        return bnp.as_encoded_array(list(strings), enc)
    if container == "matrix":
        n, L = len(strings), len(strings[0])
        flat = bnp.as_encoded_array("".join(strings), enc)
        return EncodedArray(np.array(flat.raw()).reshape(n, L), enc)
    if container == "entry":
        return bnp.SequenceEntry.from_entry_tuples([("s%d" % i, s) for i, s in enumerate(strings)])
    if container == "pystr":
        return strings[0]
    if container == "pylist":
        return list(strings)
    raise ValueError(container)


def rows_of(x):
    """result of the function under test -> list of python strings, one per row"""
    from bionumpy.encoded_array import EncodedArray, EncodedRaggedArray
    if hasattr(x, "sequence") and not isinstance(x, (EncodedArray, EncodedRaggedArray)):
        x = x.sequence
    if isinstance(x, EncodedRaggedArray):
        return [r.to_string() for r in x]
    if isinstance(x, EncodedArray):
        if x.ndim == 1:
            return [x.to_string()]
        return [r.to_string() for r in x]
    raise TypeError("unexpected result type %s" % type(x).__name__)


def snapshot(x):
    """raw bytes of the argument (to see that the call did not write into it)"""
    import numpy as np
    if isinstance(x, (str, list)):
        return repr(x)
    if hasattr(x, "sequence") and hasattr(x, "name"):
        x = x.sequence
    return np.array(x.ravel().raw()).tobytes()


def mismatch_kind(enc_name, got, expected):
    """None: equal.  'lower': (ASCII only) same shape and every differing position is one whose expected symbol is
    lower case - the region of the missing lower-case entries of the ASCII complement table.  'other': anything else"""
    if got == expected:
        return None
    if enc_name == "ascii" and len(got) == len(expected) and all(len(g) == len(e) for g, e in zip(got, expected)):
        if all(e.islower() for g, e in zip("".join(got), "".join(expected)) if g != e):
            return "lower"
    return "other"


SIG_LOWER = "complement:ascii:lower-case-symbols-not-complemented"
SIG_WHERE = "stranded-extraction:raises:total-length<=interval-count"


# ----------------------------------------------------------------------------------------------------------------
# contract 1: reverse complement

def check_rc(col, strings, enc_name, container):
    from bionumpy.sequence import get_reverse_complement
    case = {"kind": "rc", "strings": list(strings), "enc": enc_name, "container": container}
    ctype = "ascii" if container in ("entry", "pystr", "pylist") else enc_name
    col.case(case, nontrivial=any(strings), contract="reverse_complement")
    sig = "reverse_complement:%s:%s" % (ctype, container)
    x = col.guarded(lambda: build(strings, enc_name, container), "build-input:%s:%s" % (enc_name, container), case)
    if x is None:
        return
    before = snapshot(x)
    r = col.guarded(lambda: get_reverse_complement(x), sig, case)
    if r is None:
        return
    got = col.guarded(lambda: rows_of(r), sig + ":result-type", case)
    if got is None:
        return
    expected = [canon(ctype, rc_model(s)) for s in strings]
    in_rows = [canon(ctype, s) for s in strings]
    col.check([len(g) for g in got] == [len(s) for s in strings],
              "reverse_complement:row-lengths-changed:%s:%s" % (ctype, container), case,
              "row lengths %r, input row lengths %r" % ([len(g) for g in got], [len(s) for s in strings]))
    kind = mismatch_kind(ctype, got, expected)
    if kind == "lower":
        col.fail(SIG_LOWER, case, "got %r expected %r" % (got, expected))
    elif kind == "other":
        col.fail("reverse_complement:wrong-sequence:%s:%s" % (ctype, container), case,
                 "got %r expected %r" % (got, expected))
    col.check(snapshot(x) == before, "reverse_complement:argument-modified:%s:%s" % (ctype, container), case,
              "the argument changed during the call")
    # applied twice gives back the input
    rr = col.guarded(lambda: rows_of(get_reverse_complement(r)), sig + ":second-application", case)
    if rr is None:
        return
    kind = mismatch_kind(ctype, rr, in_rows)
    if kind == "lower":
        col.fail(SIG_LOWER, case, "rc(rc(x)) = %r, x = %r" % (rr, in_rows))
    elif kind == "other":
        col.fail("reverse_complement:twice-not-identity:%s:%s" % (ctype, container), case,
                 "rc(rc(x)) = %r, x = %r" % (rr, in_rows))


def strings_upto(symbols, maxlen):
    for L in range(maxlen + 1):
        for p in itertools.product(symbols, repeat=L):
            yield "".join(p)


def fill(lengths, symbols, offset, step):
    """rows of the given lengths whose symbols walk through `symbols` (every symbol appears as soon as the total
    length allows; consecutive symbols differ so that a row is not its own reverse)"""
    out, k = [], offset
    for L in lengths:
        row = []
        for _ in range(L):
            row.append(symbols[k % len(symbols)])
            k += step
        out.append("".join(row))
    return out


def enum_rc(col, tier):
    quick = tier == "quick"
    # (a) every single string, 1-D array, every encoding
    single_max = {"ascii": 3 if quick else 5, "acgtn": 3 if quick else 4, "acgt": 3 if quick else 4,
                  "actg": 3 if quick else 4, "actgn": 3 if quick else 4}
    col.bounds["rc.single_string_maxlen"] = single_max
    for enc_name, maxlen in single_max.items():
        for s in strings_upto(ENC_SYMBOLS[enc_name], maxlen):
            check_rc(col, [s], enc_name, "flat")
        if col.out_of_time():
            return
    # plain python str (encoded as ASCII by the function itself)
    for s in strings_upto(ENC_SYMBOLS["ascii"], 2 if quick else 3):
        check_rc(col, [s], "ascii", "pystr")
    # (b) every list of <= 2 strings of length <= 2, ragged container
    pair_encs = ["ascii", "acgtn", "acgt"] if quick else ["ascii", "acgtn", "acgt", "actg", "actgn"]
    col.bounds["rc.lists"] = "all lists of <= 2 strings of length <= 2 over the encoding's symbols, encodings %s" % pair_encs
    for enc_name in pair_encs:
        short = list(strings_upto(ENC_SYMBOLS[enc_name], 2))
        check_rc(col, [], enc_name, "ragged")
        for s in short:
            check_rc(col, [s], enc_name, "ragged")
        for s1 in short:
            for s2 in short:
                check_rc(col, [s1, s2], enc_name, "ragged")
            if col.out_of_time():
                return
    # (c) every row-length shape with <= R rows of length 0..M, several fillings, every container
    R, M = (3, 3) if quick else (4, 4)
    col.bounds["rc.shapes"] = "every list of 0..%d rows with row lengths 0..%d x fillings x containers" % (R, M)
    for enc_name in ENC_SYMBOLS:
        symbols = ENC_SYMBOLS[enc_name]
        fillings = [(0, 1), (3, 1), (5, 3)] if quick else [(0, 1), (3, 1), (5, 3), (7, 7), (2, 9)]
        for n in range(R + 1):
            for lengths in itertools.product(range(M + 1), repeat=n):
                for offset, step in fillings:
                    rows = fill(lengths, symbols, offset, step)
                    check_rc(col, rows, enc_name, "ragged")
                    if n >= 1 and len(set(lengths)) == 1:
                        check_rc(col, rows, enc_name, "matrix")
                    if n >= 1 and enc_name == "ascii":
                        check_rc(col, rows, enc_name, "entry")
                        check_rc(col, rows, enc_name, "pylist")
            if col.out_of_time():
                return
    # (d) above the exhaustive bounds: seeded sample of longer lists
    n_samples = 300 if quick else 20000
    col.bounds["rc.sampled"] = "%d seeded random lists (<= 6 rows, row length <= 12)" % n_samples
    encs = list(ENC_SYMBOLS)
    for i in range(n_samples):
        enc_name = encs[i % len(encs)]
        symbols = ENC_SYMBOLS[enc_name]
        rows = ["".join(col.rng.choice(symbols) for _ in range(col.rng.randint(0, 12)))
                for _ in range(col.rng.randint(1, 6))]
        check_rc(col, rows, enc_name, "ragged")
        if i % 200 == 0 and col.out_of_time():
            return


# ----------------------------------------------------------------------------------------------------------------
# contract 2: strand-aware extraction from one encoded sequence

def make_bed6(ivs, chrom=None):
    import bionumpy as bnp
    n = len(ivs)
    chroms = [iv[3] if len(iv) > 3 else (chrom or "chr1") for iv in ivs]
    return bnp.datatypes.Bed6(chroms, [iv[0] for iv in ivs], [iv[1] for iv in ivs], ["."] * n, ["0"] * n,
                              [iv[2] for iv in ivs])


def stranded_expected(seq_of_chrom, ivs, ctype, stranded=True):
    out = []
    for iv in ivs:
        a, b, strand = iv[0], iv[1], iv[2]
        sub = seq_of_chrom(iv)[a:b]
        out.append(canon(ctype, rc_model(sub) if (strand == "-" and stranded) else sub))
    return out


def report_stranded(col, prefix, ctype, case, ivs, got, expected):
    kind = mismatch_kind(ctype, got, expected)
    if kind is None:
        return
    if kind == "lower":
        col.fail(SIG_LOWER, case, "got %r expected %r" % (got, expected))
        return
    if len(got) != len(expected):
        col.fail(prefix + ":wrong-number-of-rows", case, "got %r expected %r" % (got, expected))
        return
    strands = sorted({iv[2] for iv, g, e in zip(ivs, got, expected) if g != e})
    col.fail(prefix + ":wrong-sequence:strand" + "".join(strands), case, "got %r expected %r" % (got, expected))


def run_stranded(col, fn, sig, case, ivs):
    """call fn(); the region total length <= number of intervals raises in np.where on the unchanged tree and is
    collapsed into one signature; any other exception is a failure of its own"""
    try:
        return rows_of(fn())
    except Exception as e:
        import traceback
        total = sum(iv[1] - iv[0] for iv in ivs)
        if total <= len(ivs):
            col.fail(SIG_WHERE, case, "%s: %s" % (type(e).__name__, str(e)[:300]))
        else:
            col.fail(sig + ":exception:" + type(e).__name__, case, traceback.format_exc()[-500:])
        return None


def check_strand_specific(col, seq, enc_name, ivs):
    import bionumpy as bnp
    from bionumpy.sequence import get_strand_specific_sequences
    case = {"kind": "strand_specific", "seq": seq, "enc": enc_name, "intervals": [list(iv) for iv in ivs]}
    col.case(case, nontrivial=any(iv[1] > iv[0] for iv in ivs), contract="strand_specific")
    sig = "strand_specific:" + enc_name
    arr = col.guarded(lambda: bnp.as_encoded_array(seq, get_encoding(enc_name)), "build-input:" + enc_name, case)
    bed = col.guarded(lambda: make_bed6(ivs), "build-intervals", case)
    if arr is None or bed is None:
        return
    got = run_stranded(col, lambda: get_strand_specific_sequences(arr, bed), sig, case, ivs)
    if got is None:
        return
    expected = stranded_expected(lambda iv: seq, ivs, enc_name)
    report_stranded(col, sig, enc_name, case, ivs, got, expected)


def all_intervals(L, strands="+-"):
    return [(a, b, s) for a in range(L + 1) for b in range(a, L + 1) for s in strands]


def enum_strand_specific(col, tier):
    quick = tier == "quick"
    seqs = {"ascii": ["ACGTN", "acGtn"], "acgt": ["ACGTT", "gAtcA"], "acgtn": ["ACNGT", "nCaTG"],
            "actg": ["CATGG"], "actgn": ["TNGAc"]}
    L1 = 4 if quick else 5
    col.bounds["strand_specific"] = ("sequences of length %d per encoding; every interval 0<=a<=b<=L x {+,-}: all single "
                                     "intervals, all ordered pairs%s; plus seeded lists of 3..5 intervals"
                                     % (L1, "" if quick else ", all ordered triples on length 3"))
    for enc_name, ss in seqs.items():
        for s in ss:
            s = s[:L1]
            ivs = all_intervals(len(s))
            for iv in sorted(ivs, key=lambda iv: iv[1] == iv[0]):     # non-empty intervals first
                check_strand_specific(col, s, enc_name, [iv])
            check_strand_specific(col, s, enc_name, [])
            pair_first = ivs if (not quick or enc_name in ("ascii", "acgt")) else ivs[::3]
            for iv1 in pair_first:
                for iv2 in ivs:
                    check_strand_specific(col, s, enc_name, [iv1, iv2])
                if col.out_of_time():
                    return
    if not quick:
        for enc_name, ss in seqs.items():
            s = ss[0][1:4]
            ivs = all_intervals(3)
            for trip in itertools.product(ivs, repeat=3):
                check_strand_specific(col, s, enc_name, list(trip))
            if col.out_of_time():
                return
    for i in range(200 if quick else 5000):
        enc_name = list(seqs)[i % len(seqs)]
        symbols = ENC_SYMBOLS[enc_name]
        s = "".join(col.rng.choice(symbols) for _ in range(col.rng.randint(1, 12)))
        ivs = []
        for _ in range(col.rng.randint(3, 5)):
            a = col.rng.randint(0, len(s))
            ivs.append((a, col.rng.randint(a, len(s)), col.rng.choice("+-")))
        check_strand_specific(col, s, enc_name, ivs)
        if i % 100 == 0 and col.out_of_time():
            return


# ----------------------------------------------------------------------------------------------------------------
# contract 3: GenomicSequence indexed with (stranded) intervals

def write_fasta(path, chroms, width):
    with open(path, "w") as f:
        for name, seq in chroms:
            f.write(">%s\n" % name)
            for i in range(0, len(seq), width):
                f.write(seq[i:i + width] + "\n")


class GenomicBackends:
    """the same chromosomes behind every way of obtaining a GenomicSequence"""

    def __init__(self, tmp, chroms, width, tag):
        import bionumpy as bnp
        from bionumpy.genomic_data import GenomicSequence
        self.chroms = [tuple(c) for c in chroms]
        self.width = width
        self.seqs = dict(self.chroms)
        self.fa = os.path.join(tmp, "g_%s.fa" % tag)
        write_fasta(self.fa, self.chroms, width)
        self.dict_gs = GenomicSequence.from_dict(dict(self.chroms))
        self._indexed = bnp.open_indexed(self.fa)
        self.fasta_gs = GenomicSequence.from_indexed_fasta(self._indexed)
        self.genome = bnp.Genome.from_file(self.fa)
        self.genome_gs = self.genome.read_sequence()

    def close(self):
        for f in (self._indexed, getattr(self.genome_gs, "_fasta", None)):
            try:
                f._f_obj.close()
            except Exception:
                pass

    def call(self, path, ivs):
        from bionumpy.genomic_data import GenomicIntervals
        bed = make_bed6(ivs)
        if path == "dict:extract_intervals:stranded":
            return self.dict_gs.extract_intervals(bed, stranded=True)
        if path == "dict:extract_intervals:unstranded":
            return self.dict_gs.extract_intervals(bed, stranded=False)
        if path == "dict:getitem:genomic_intervals":
            gi = GenomicIntervals.from_fields(self.dict_gs.genome_context, [iv[3] for iv in ivs], [iv[0] for iv in ivs],
                                              [iv[1] for iv in ivs], [iv[2] for iv in ivs])
            return self.dict_gs[gi]
        if path == "fasta:extract_intervals:stranded":
            return self.fasta_gs.extract_intervals(bed, stranded=True)
        if path == "genome:getitem:stranded":
            return self.genome_gs[self.genome.get_intervals(bed, stranded=True)]
        if path == "genome:getitem:unstranded":
            return self.genome_gs[self.genome.get_intervals(bed, stranded=False)]
        raise ValueError(path)


GENOMIC_PATHS = ["dict:extract_intervals:stranded", "dict:extract_intervals:unstranded", "dict:getitem:genomic_intervals",
                 "fasta:extract_intervals:stranded", "genome:getitem:stranded", "genome:getitem:unstranded"]


def check_genomic(col, backends, path, ivs):
    case = {"kind": "genomic", "chroms": [list(c) for c in backends.chroms], "width": backends.width, "path": path,
            "intervals": [list(iv) for iv in ivs]}
    col.case(case, nontrivial=any(iv[1] > iv[0] for iv in ivs), contract="genomic_sequence")
    stranded = not path.endswith("unstranded")
    sig = "genomic_sequence:" + path
    if stranded:
        got = run_stranded(col, lambda: backends.call(path, ivs), sig, case, ivs)
    else:
        got = col.guarded(lambda: rows_of(backends.call(path, ivs)), sig, case)
    if got is None:
        return
    expected = stranded_expected(lambda iv: backends.seqs[iv[3]], ivs, "acgtn", stranded)
    report_stranded(col, sig, "acgtn", case, ivs, got, expected)


def enum_genomic(col, tier, tmp):
    quick = tier == "quick"
    genomes = [([("chr1", "AcGTn"[:4 if quick else 5]), ("chr2", "tTGa"[:3 if quick else 4])], 60),
               ([("chr1", "GATTaCAnC"), ("chr2", "ccAGt"), ("chr3", "T")], 4)]
    col.bounds["genomic_sequence"] = ("genomes %r (FASTA line widths 60 and 4); paths %s; every single interval x strand, "
                                      "every ordered pair on the first genome%s; seeded lists of 3..4 intervals"
                                      % ([g for g, _ in genomes], GENOMIC_PATHS, " (quick: every 2nd first interval)" if quick else ""))
    for gi, (chroms, width) in enumerate(genomes):
        b = col.guarded(lambda: GenomicBackends(tmp, chroms, width, str(gi)), "genomic_sequence:open",
                        {"kind": "genomic-open", "chroms": chroms, "width": width})
        if b is None:
            continue
        try:
            ivs = [(a, e, s, name) for name, seq in chroms for (a, e, s) in all_intervals(len(seq))]
            for path in GENOMIC_PATHS:
                for iv in ivs:
                    check_genomic(col, b, path, [iv])
            if gi == 0:
                for path in GENOMIC_PATHS:
                    firsts = ivs[::2] if quick else ivs
                    seconds = ivs[1::3] if quick else ivs
                    for iv1 in firsts:
                        for iv2 in seconds:
                            check_genomic(col, b, path, [iv1, iv2])
                        if col.out_of_time():
                            return
            for i in range(60 if quick else 1500):
                path = GENOMIC_PATHS[i % len(GENOMIC_PATHS)]
                pick = [ivs[col.rng.randrange(len(ivs))] for _ in range(col.rng.randint(3, 4))]
                check_genomic(col, b, path, pick)
                if i % 50 == 0 and col.out_of_time():
                    return
        finally:
            b.close()


# ----------------------------------------------------------------------------------------------------------------
# contract 4: translation

def check_translate(col, rows, container, label):
    from bionumpy.sequence import translate_dna_to_protein
    case = {"kind": "translate", "rows": list(rows), "container": container, "label": label}
    col.case(case, nontrivial=any(rows), contract="translate")
    sig = "translate:" + container
    x = col.guarded(lambda: build(rows, "ascii", container), "build-input:ascii:" + container, case)
    if x is None:
        return
    got = col.guarded(lambda: rows_of(translate_dna_to_protein(x)), sig, case)
    if got is None:
        return
    expected = [translate_model(r) for r in rows]
    if got == expected:
        return
    if [len(g) for g in got] != [len(r) // 3 for r in rows]:
        col.fail("translate:row-lengths:" + label, case, "row lengths %r expected %r" % ([len(g) for g in got], [len(r) // 3 for r in rows]))
    else:
        col.fail("translate:wrong-amino-acid:" + label, case, "got %r expected %r" % (got, expected))


def case_patterns(codon):
    for mask in range(8):
        yield "".join(c.lower() if (mask >> i) & 1 else c for i, c in enumerate(codon))


def enum_translate(col, tier):
    quick = tier == "quick"
    col.bounds["translate"] = ("all 64 codons x 8 case patterns x containers {list of str, ragged ASCII, SequenceEntry}; every "
                               "concatenation of 2%s codons (one row); every pair of codons as two rows; every list of <= 3 rows "
                               "with 0..3 codons per row x fillings; seeded longer lists" % ("" if quick else " and 3"))
    for codon in CODONS:
        for c in case_patterns(codon):
            for container in ("pylist", "ragged", "entry"):
                check_translate(col, [c], container, "single-codon")
    for c1 in CODONS:
        for c2 in CODONS:
            check_translate(col, [c1 + c2], "pylist", "two-codons-one-row")
            check_translate(col, [c1, c2], "ragged", "two-rows")
        if col.out_of_time():
            return
    # row structure: 0..3 codons per row, up to 3 rows
    for n in range(0, 4):
        for counts in itertools.product(range(4), repeat=n):
            for offset, step in ((0, 1), (17, 5), (40, 11)):
                k, rows = offset, []
                for cnt in counts:
                    row = ""
                    for _ in range(cnt):
                        row += CODONS[k % 64]
                        k += step
                    rows.append(row)
                check_translate(col, rows, "ragged" if n == 0 or offset else "pylist", "row-structure")
                if n >= 1:
                    check_translate(col, rows, "entry", "row-structure")
    if not quick:
        for c1 in CODONS:
            for c2 in CODONS:
                for c3 in CODONS:
                    check_translate(col, [c1 + c2 + c3], "pylist", "three-codons-one-row")
            if col.out_of_time():
                return
    for i in range(200 if quick else 5000):
        rows = ["".join(col.rng.choice("ACGTacgt") for _ in range(3 * col.rng.randint(0, 8)))
                for _ in range(col.rng.randint(1, 6))]
        check_translate(col, rows, ("pylist", "ragged", "entry")[i % 3], "sampled")
        if i % 100 == 0 and col.out_of_time():
            return


# ----------------------------------------------------------------------------------------------------------------

def run(tier="quick", seed=0):
    col = Collector("C14", tier, seed,
                    "exhaustive within the stated bounds, then seeded samples above them: (rc) every string / list of strings over "
                    "the symbols of each encoding x container; (strand) every interval x strand and every ordered pair (triple) of "
                    "them; (genomic) the same through every GenomicSequence backend and indexing path; (translate) every codon, "
                    "case pattern and codon concatenation.  distinct = distinct (input, encoding, container/path); non-trivial = "
                    "at least one non-empty row / interval")
    col.bounds = {"encodings": ENC_SYMBOLS}
    enum_translate(col, tier)
    if not col.out_of_time():
        enum_strand_specific(col, tier)
    if not col.out_of_time():
        with TmpDir() as tmp:
            enum_genomic(col, tier, tmp)
    if not col.out_of_time():
        enum_rc(col, tier)
    return col.result()


def replay(case):
    col = Collector("C14", "quick", 0, "replay")
    kind = case["kind"]
    if kind == "rc":
        check_rc(col, case["strings"], case["enc"], case["container"])
    elif kind == "strand_specific":
        check_strand_specific(col, case["seq"], case["enc"], [tuple(iv) for iv in case["intervals"]])
    elif kind == "translate":
        check_translate(col, case["rows"], case["container"], case["label"])
    elif kind in ("genomic", "genomic-open"):
        with TmpDir() as tmp:
            b = GenomicBackends(tmp, [tuple(c) for c in case["chroms"]], case["width"], "replay")
            try:
                if kind == "genomic":
                    check_genomic(col, b, case["path"], [tuple(iv) for iv in case["intervals"]])
            finally:
                b.close()
    else:
        return False, "unknown case kind %r" % (kind,)
    if col.failures:
        return False, "; ".join(f["signature"] + ": " + f["message"] for f in col.failures)
    return True, "ok"
