"""C14 bounded stand-in: reverse complement, strand-aware extraction and translation vs a table-driven
model cross-checked with Biopython.

Contracts evaluated at run time on the real functions (oracle = COMP / GENETIC_CODE below, both compared
with Biopython once per distinct string):

  reverse_complement   get_reverse_complement(x) rows == reversed rows with A<->T, C<->G, N fixed (case kept
                       under ASCII, folded to upper case by the case-insensitive alphabet encodings); number of
                       rows and every row length preserved; rc(rc(x)) == x; the argument is left unchanged.
                       Axes: encoding {ascii, acgt, acgtn, actg, actgn} x container {1-D EncodedArray, ragged,
                       2-D EncodedArray, SequenceEntry, plain str / list of str} x every string / list in scope.
  strand_specific      get_strand_specific_sequences(seq, Bed6)[i] == seq[a:b] for '+', rc(seq[a:b]) for '-';
                       every interval 0 <= a <= b <= L, both strands, every ordered list of 1..k intervals.
  genomic_sequence     GenomicSequence (dict backend, indexed-FASTA backend, Genome.read_sequence) indexed with
                       stranded intervals (extract_intervals(Bed6, stranded=True), GenomicIntervals with strand,
                       Genome.get_intervals(stranded=True)) and unstranded (always forward).
                       Contig order (enum_genomic_order): file-backed genomes whose genome-context contig order
                       differs from the FASTA record order (underscore contigs moved to the end, sort_names=True,
                       chrom.sizes file / dict in another order, subsets); the oracle slices the file's own records.
  (added scopes)       reverse_complement: every row-length vector with <= 5 rows of length 0..4 (enum_rc_many_rows);
                       strand_specific: every interval-length vector in {0..3}^4 (^5) x strand patterns.
  translate            translate_dna_to_protein on rows whose lengths are multiples of 3: all 64 codons in every
                       case pattern, every concatenation of <= 2 (thorough: 3) codons, lists of rows with
                       0..3 codons each; output row r has len(row r)/3 symbols, codon by codon, stop = '*'.
  code-storage         (added scope, "contract 5" below) reverse_complement / strand_specific / genomic_sequence on
                       sequences NOT made from text: raw codes stored as int8..uint64 / big-endian, strided and
                       Fortran-ordered views, arrays from bionumpy.simulate (int64 codes), GenomicSequence.from_dict over
                       such chromosomes.  Signatures <contract>:code-storage:<storage class>:<what>.
"""
import itertools
import os

from .common import Collector, TmpDir

# ----------------------------------------------------------------------------------------------------------------
# reference model (written from the property statement / the standard genetic code, NCBI translation table 1)

COMP = {"A": "T", "T": "A", "C": "G", "G": "C", "N": "N",
        "a": "t", "t": "a", "c": "g", "g": "c", "n": "n"}

_AA_CODONS = {
    "F": "TTT TTC", "L": "TTA TTG CTT CTC CTA CTG", "I": "ATT ATC ATA", "M": "ATG", "V": "GTT GTC GTA GTG",
    "S": "TCT TCC TCA TCG AGT AGC", "P": "CCT CCC CCA CCG", "T": "ACT ACC ACA ACG", "A": "GCT GCC GCA GCG",
    "Y": "TAT TAC", "*": "TAA TAG TGA", "H": "CAT CAC", "Q": "CAA CAG", "N": "AAT AAC", "K": "AAA AAG",
    "D": "GAT GAC", "E": "GAA GAG", "C": "TGT TGC", "W": "TGG", "R": "CGT CGC CGA CGG AGA AGG",
    "G": "GGT GGC GGA GGG"}
GENETIC_CODE = {codon: aa for aa, codons in _AA_CODONS.items() for codon in codons.split()}
assert len(GENETIC_CODE) == 64
CODONS = ["".join(p) for p in itertools.product("ACGT", repeat=3)]

_rc_cache = {}
_tr_cache = {}


def rc_model(s):
    """reverse complement of one string, case preserved; cross-checked with Biopython on first use"""
    r = _rc_cache.get(s)
    if r is None:
        r = "".join(COMP[c] for c in reversed(s))
        from Bio.Seq import Seq
        bio = str(Seq(s).reverse_complement())
        if bio != r:
            raise AssertionError("oracle disagreement (table vs Biopython) on %r: %r vs %r" % (s, r, bio))
        _rc_cache[s] = r
    return r


def translate_model(s):
    r = _tr_cache.get(s)
    if r is None:
        assert len(s) % 3 == 0
        r = "".join(GENETIC_CODE[s[i:i + 3].upper()] for i in range(0, len(s), 3))
        from Bio.Seq import Seq
        bio = str(Seq(s).translate()) if s else ""
        if bio != r:
            raise AssertionError("oracle disagreement (table vs Biopython) on %r: %r vs %r" % (s, r, bio))
        _tr_cache[s] = r
    return r


# ----------------------------------------------------------------------------------------------------------------
# encodings and containers

ENC_SYMBOLS = {"ascii": "ACGTNacgtn", "acgt": "ACGTacgt", "acgtn": "ACGTNacgtn", "actg": "ACGTacgt",
               "actgn": "ACGTNacgtn"}


def get_encoding(name):
    from bionumpy.encodings import BaseEncoding
    from bionumpy.encodings.alphabet_encoding import ACGTEncoding, ACGTnEncoding, ACTGEncoding, ACTGnEncoding
    return {"ascii": BaseEncoding, "acgt": ACGTEncoding, "acgtn": ACGTnEncoding, "actg": ACTGEncoding,
            "actgn": ACTGnEncoding}[name]


def canon(enc_name, s):
    """how a string reads back after being stored in the encoding (alphabet encodings are case-insensitive)"""
    return s if enc_name == "ascii" else s.upper()


def build(strings, enc_name, container):
    """strings: list of str (flat: exactly one).  Returns the bionumpy value handed to the function under test"""
    import numpy as np
    import bionumpy as bnp
    from bionumpy.encoded_array import EncodedArray
    enc = get_encoding(enc_name)
    if container == "flat":
        return bnp.as_encoded_array(strings[0], enc)
    if container == "ragged":
        return bnp.as_encoded_array(list(strings), enc)
    if container == "matrix":
        n, L = len(strings), len(strings[0])
        flat = bnp.as_encoded_array("".join(strings), enc)
        return EncodedArray(np.array(flat.raw()).reshape(n, L), enc)
    if container == "entry":
        return bnp.SequenceEntry.from_entry_tuples([("s%d" % i, s) for i, s in enumerate(strings)])
    if container == "pystr":
        return strings[0]
    if container == "pylist":
        return list(strings)
    raise ValueError(container)


def rows_of(x):
    """result of the function under test -> list of python strings, one per row"""
    from bionumpy.encoded_array import EncodedArray, EncodedRaggedArray
    if hasattr(x, "sequence") and not isinstance(x, (EncodedArray, EncodedRaggedArray)):
        x = x.sequence
    if isinstance(x, EncodedRaggedArray):
        return [r.to_string() for r in x]
    if isinstance(x, EncodedArray):
        if x.ndim == 1:
            return [x.to_string()]
        return [r.to_string() for r in x]
    raise TypeError("unexpected result type %s" % type(x).__name__)


def snapshot(x):
    """raw bytes of the argument (to see that the call did not write into it)"""
    import numpy as np
    if isinstance(x, (str, list)):
        return repr(x)
    if hasattr(x, "sequence") and hasattr(x, "name"):
        x = x.sequence
    return np.array(x.ravel().raw()).tobytes()


def mismatch_kind(enc_name, got, expected):
    """None: equal.  'lower': (ASCII only) same shape and every differing position is one whose expected symbol is
    lower case - the region of the missing lower-case entries of the ASCII complement table.  'other': anything else"""
    if got == expected:
        return None
    if enc_name == "ascii" and len(got) == len(expected) and all(len(g) == len(e) for g, e in zip(got, expected)):
        if all(e.islower() for g, e in zip("".join(got), "".join(expected)) if g != e):
            return "lower"
    return "other"


SIG_LOWER = "complement:ascii:lower-case-symbols-not-complemented"
SIG_WHERE = "stranded-extraction:raises:total-length<=interval-count"


# ----------------------------------------------------------------------------------------------------------------
# contract 1: reverse complement

def rows_mixed_up(got, expected):
    """same row lengths and the same symbols overall, but some row holds symbols that belong to another row"""
    return ([len(g) for g in got] == [len(e) for e in expected]
            and sorted("".join(got)) == sorted("".join(expected))
            and any(sorted(g) != sorted(e) for g, e in zip(got, expected)))


def check_rc(col, strings, enc_name, container, tag=None):
    """tag: None for the original scope; a scope name for the cases added later (their wrong-result failures get
    signatures of their own, `reverse_complement:<tag>:...`)"""
    from bionumpy.sequence import get_reverse_complement
    case = {"kind": "rc", "strings": list(strings), "enc": enc_name, "container": container}
    if tag:
        case["tag"] = tag
    ctype = "ascii" if container in ("entry", "pystr", "pylist") else enc_name
    col.case(case, nontrivial=any(strings), contract="reverse_complement")
    sig = "reverse_complement:%s:%s" % (ctype, container)
    x = col.guarded(lambda: build(strings, enc_name, container), "build-input:%s:%s" % (enc_name, container), case)
    if x is None:
        return
    before = snapshot(x)
    r = col.guarded(lambda: get_reverse_complement(x), sig, case)
    if r is None:
        return
    got = col.guarded(lambda: rows_of(r), sig + ":result-type", case)
    if got is None:
        return
    expected = [canon(ctype, rc_model(s)) for s in strings]
    in_rows = [canon(ctype, s) for s in strings]
    col.check([len(g) for g in got] == [len(s) for s in strings],
              "reverse_complement:row-lengths-changed:%s:%s" % (ctype, container), case,
              "row lengths %r, input row lengths %r" % ([len(g) for g in got], [len(s) for s in strings]))
    kind = mismatch_kind(ctype, got, expected)
    if kind == "lower":
        col.fail(SIG_LOWER, case, "got %r expected %r" % (got, expected))
    elif kind == "other" and tag:
        what = "symbols-moved-between-rows" if rows_mixed_up(got, expected) else "wrong-sequence"
        col.fail("reverse_complement:%s:%s:%s:%s" % (tag, what, ctype, container), case,
                 "got %r expected %r" % (got, expected))
    elif kind == "other":
        col.fail("reverse_complement:wrong-sequence:%s:%s" % (ctype, container), case,
                 "got %r expected %r" % (got, expected))
    col.check(snapshot(x) == before, "reverse_complement:argument-modified:%s:%s" % (ctype, container), case,
              "the argument changed during the call")
    # applied twice gives back the input
    rr = col.guarded(lambda: rows_of(get_reverse_complement(r)), sig + ":second-application", case)
    if rr is None:
        return
    kind = mismatch_kind(ctype, rr, in_rows)
    if kind == "lower":
        col.fail(SIG_LOWER, case, "rc(rc(x)) = %r, x = %r" % (rr, in_rows))
    elif kind == "other" and tag:
        col.fail("reverse_complement:%s:twice-not-identity:%s:%s" % (tag, ctype, container), case,
                 "rc(rc(x)) = %r, x = %r" % (rr, in_rows))
    elif kind == "other":
        col.fail("reverse_complement:twice-not-identity:%s:%s" % (ctype, container), case,
                 "rc(rc(x)) = %r, x = %r" % (rr, in_rows))


def strings_upto(symbols, maxlen):
    for L in range(maxlen + 1):
        for p in itertools.product(symbols, repeat=L):
            yield "".join(p)


def fill(lengths, symbols, offset, step):
    """rows of the given lengths whose symbols walk through `symbols` (every symbol appears as soon as the total
    length allows; consecutive symbols differ so that a row is not its own reverse)"""
    out, k = [], offset
    for L in lengths:
        row = []
        for _ in range(L):
            row.append(symbols[k % len(symbols)])
            k += step
        out.append("".join(row))
    return out


def enum_rc(col, tier):
    quick = tier == "quick"
    # (a) every single string, 1-D array, every encoding
    single_max = {"ascii": 3 if quick else 5, "acgtn": 3 if quick else 4, "acgt": 3 if quick else 4,
                  "actg": 3 if quick else 4, "actgn": 3 if quick else 4}
    col.bounds["rc.single_string_maxlen"] = single_max
    for enc_name, maxlen in single_max.items():
        for s in strings_upto(ENC_SYMBOLS[enc_name], maxlen):
            check_rc(col, [s], enc_name, "flat")
        if col.out_of_time():
            return
    # plain python str (encoded as ASCII by the function itself)
    for s in strings_upto(ENC_SYMBOLS["ascii"], 2 if quick else 3):
        check_rc(col, [s], "ascii", "pystr")
    # (b) every list of <= 2 strings of length <= 2, ragged container
    pair_encs = ["ascii", "acgtn", "acgt"] if quick else ["ascii", "acgtn", "acgt", "actg", "actgn"]
    col.bounds["rc.lists"] = "all lists of <= 2 strings of length <= 2 over the encoding's symbols, encodings %s" % pair_encs
    for enc_name in pair_encs:
        short = list(strings_upto(ENC_SYMBOLS[enc_name], 2))
        check_rc(col, [], enc_name, "ragged")
        for s in short:
            check_rc(col, [s], enc_name, "ragged")
        for s1 in short:
            for s2 in short:
                check_rc(col, [s1, s2], enc_name, "ragged")
            if col.out_of_time():
                return
    # (c) every row-length shape with <= R rows of length 0..M, several fillings, every container
    R, M = (3, 3) if quick else (4, 4)
    col.bounds["rc.shapes"] = "every list of 0..%d rows with row lengths 0..%d x fillings x containers" % (R, M)
    for enc_name in ENC_SYMBOLS:
        symbols = ENC_SYMBOLS[enc_name]
        fillings = [(0, 1), (3, 1), (5, 3)] if quick else [(0, 1), (3, 1), (5, 3), (7, 7), (2, 9)]
        for n in range(R + 1):
            for lengths in itertools.product(range(M + 1), repeat=n):
                for offset, step in fillings:
                    rows = fill(lengths, symbols, offset, step)
                    check_rc(col, rows, enc_name, "ragged")
                    if n >= 1 and len(set(lengths)) == 1:
                        check_rc(col, rows, enc_name, "matrix")
                    if n >= 1 and enc_name == "ascii":
                        check_rc(col, rows, enc_name, "entry")
                        check_rc(col, rows, enc_name, "pylist")
            if col.out_of_time():
                return
    # (d) above the exhaustive bounds: seeded sample of longer lists
    n_samples = 300 if quick else 20000
    col.bounds["rc.sampled"] = "%d seeded random lists (<= 6 rows, row length <= 12)" % n_samples
    encs = list(ENC_SYMBOLS)
    for i in range(n_samples):
        enc_name = encs[i % len(encs)]
        symbols = ENC_SYMBOLS[enc_name]
        rows = ["".join(col.rng.choice(symbols) for _ in range(col.rng.randint(0, 12)))
                for _ in range(col.rng.randint(1, 6))]
        check_rc(col, rows, enc_name, "ragged")
        if i % 200 == 0 and col.out_of_time():
            return
    enum_rc_many_rows(col, tier, R, M)


MANY_ROWS_TAG = "rows<=5"


def enum_rc_many_rows(col, tier, R, M):
    """(e) ragged arrays with more rows than (c): EVERY row-length vector with <= 5 rows of length 0..4 (which contains
    every vector whose first and last row have the mean length while the rows are not equally long, every vector
    with equal rows, with empty rows at either end ...).  Vectors already evaluated in (c) (<= R rows, lengths <= M,
    same filling) are not repeated."""
    quick = tier == "quick"
    full = ["ascii"] if quick else ["ascii", "acgtn"]
    scope = {e: ((5, 4) if e in full else ((4, 3) if quick else (5, 3))) for e in ENC_SYMBOLS}
    if quick:
        del scope["actg"], scope["actgn"]
    col.bounds["rc.many_rows"] = ("every row-length vector with <= rows x max length %r (per encoding), ragged container, "
                                  "filling (0, 1); equal-length vectors also as 2-D matrix" % (scope,))
    for enc_name, (rows_max, len_max) in scope.items():
        symbols = ENC_SYMBOLS[enc_name]
        for n in range(1, rows_max + 1):
            for lengths in itertools.product(range(len_max + 1), repeat=n):
                if n <= R and max(lengths) <= M:
                    continue
                rows = fill(lengths, symbols, 0, 1)
                check_rc(col, rows, enc_name, "ragged", MANY_ROWS_TAG)
                if len(set(lengths)) == 1:
                    check_rc(col, rows, enc_name, "matrix", MANY_ROWS_TAG)
            if col.out_of_time():
                return


# ----------------------------------------------------------------------------------------------------------------
# contract 2: strand-aware extraction from one encoded sequence

def make_bed6(ivs, chrom=None):
    import bionumpy as bnp
    n = len(ivs)
    chroms = [iv[3] if len(iv) > 3 else (chrom or "chr1") for iv in ivs]
    return bnp.datatypes.Bed6(chroms, [iv[0] for iv in ivs], [iv[1] for iv in ivs], ["."] * n, ["0"] * n,
                              [iv[2] for iv in ivs])


def stranded_expected(seq_of_chrom, ivs, ctype, stranded=True):
    out = []
    for iv in ivs:
        a, b, strand = iv[0], iv[1], iv[2]
        sub = seq_of_chrom(iv)[a:b]
        out.append(canon(ctype, rc_model(sub) if (strand == "-" and stranded) else sub))
    return out


def report_stranded(col, prefix, ctype, case, ivs, got, expected):
    kind = mismatch_kind(ctype, got, expected)
    if kind is None:
        return
    if kind == "lower":
        col.fail(SIG_LOWER, case, "got %r expected %r" % (got, expected))
        return
    if len(got) != len(expected):
        col.fail(prefix + ":wrong-number-of-rows", case, "got %r expected %r" % (got, expected))
        return
    strands = sorted({iv[2] for iv, g, e in zip(ivs, got, expected) if g != e})
    col.fail(prefix + ":wrong-sequence:strand" + "".join(strands), case, "got %r expected %r" % (got, expected))


def run_stranded(col, fn, sig, case, ivs):
    """call fn(); the region total length <= number of intervals raises in np.where on the unchanged tree and is
    collapsed into one signature; any other exception is a failure of its own"""
    try:
        return rows_of(fn())
    except Exception as e:
        import traceback
        total = sum(iv[1] - iv[0] for iv in ivs)
        if total <= len(ivs):
            col.fail(SIG_WHERE, case, "%s: %s" % (type(e).__name__, str(e)[:300]))
        else:
            col.fail(sig + ":exception:" + type(e).__name__, case, traceback.format_exc()[-500:])
        return None


def check_strand_specific(col, seq, enc_name, ivs, tag=None):
    import bionumpy as bnp
    from bionumpy.sequence import get_strand_specific_sequences
    case = {"kind": "strand_specific", "seq": seq, "enc": enc_name, "intervals": [list(iv) for iv in ivs]}
    if tag:
        case["tag"] = tag
    col.case(case, nontrivial=any(iv[1] > iv[0] for iv in ivs), contract="strand_specific")
    sig = "strand_specific:" + (tag + ":" if tag else "") + enc_name
    arr = col.guarded(lambda: bnp.as_encoded_array(seq, get_encoding(enc_name)), "build-input:" + enc_name, case)
    bed = col.guarded(lambda: make_bed6(ivs), "build-intervals", case)
    if arr is None or bed is None:
        return
    got = run_stranded(col, lambda: get_strand_specific_sequences(arr, bed), sig, case, ivs)
    if got is None:
        return
    expected = stranded_expected(lambda iv: seq, ivs, enc_name)
    report_stranded(col, sig, enc_name, case, ivs, got, expected)


def all_intervals(L, strands="+-"):
    return [(a, b, s) for a in range(L + 1) for b in range(a, L + 1) for s in strands]


def enum_strand_specific(col, tier):
    quick = tier == "quick"
    seqs = {"ascii": ["ACGTN", "acGtn"], "acgt": ["ACGTT", "gAtcA"], "acgtn": ["ACNGT", "nCaTG"],
            "actg": ["CATGG"], "actgn": ["TNGAc"]}
    L1 = 4 if quick else 5
    col.bounds["strand_specific"] = ("sequences of length %d per encoding; every interval 0<=a<=b<=L x {+,-}: all single "
                                     "intervals, all ordered pairs%s; plus seeded lists of 3..5 intervals"
                                     % (L1, "" if quick else ", all ordered triples on length 3"))
    for enc_name, ss in seqs.items():
        for s in ss:
            s = s[:L1]
            ivs = all_intervals(len(s))
            for iv in sorted(ivs, key=lambda iv: iv[1] == iv[0]):     # non-empty intervals first
                check_strand_specific(col, s, enc_name, [iv])
            check_strand_specific(col, s, enc_name, [])
            pair_first = ivs if (not quick or enc_name in ("ascii", "acgt")) else ivs[::3]
            for iv1 in pair_first:
                for iv2 in ivs:
                    check_strand_specific(col, s, enc_name, [iv1, iv2])
                if col.out_of_time():
                    return
    if not quick:
        for enc_name, ss in seqs.items():
            s = ss[0][1:4]
            ivs = all_intervals(3)
            for trip in itertools.product(ivs, repeat=3):
                check_strand_specific(col, s, enc_name, list(trip))
            if col.out_of_time():
                return
    for i in range(200 if quick else 5000):
        enc_name = list(seqs)[i % len(seqs)]
        symbols = ENC_SYMBOLS[enc_name]
        s = "".join(col.rng.choice(symbols) for _ in range(col.rng.randint(1, 12)))
        ivs = []
        for _ in range(col.rng.randint(3, 5)):
            a = col.rng.randint(0, len(s))
            ivs.append((a, col.rng.randint(a, len(s)), col.rng.choice("+-")))
        check_strand_specific(col, s, enc_name, ivs)
        if i % 100 == 0 and col.out_of_time():
            return
    enum_strand_specific_length_vectors(col, tier, seqs)


def enum_strand_specific_length_vectors(col, tier, seqs):
    """lists of 4 (thorough: also 5) intervals with EVERY vector of interval lengths 0..3 on one sequence per
    encoding, under several strand patterns (all '-', alternating, '-' at the ends / in the middle, one '-'):
    the extracted rows are a ragged array whose row lengths are the interval lengths, so every row-length shape
    of the reverse complemented block is met through the strand-aware entry point too.  Starts are spread over
    the sequence (interval i starts at 2 i, overlaps with its neighbour when longer than 2)."""
    quick = tier == "quick"
    long_seqs = {"ascii": "AcGTnNCgtaCAg", "acgt": "ACGTTGCAgatcA", "acgtn": "ACNGTnCaTGGAt", "actg": "CATGGTCAacgtT",
                 "actgn": "TNGAcCAtnGGCA"}
    patterns = {4: ["----", "-+-+", "+--+", "-++-", "+-++"], 5: ["-----", "-+-+-", "+---+", "--+--"]}
    col.bounds["strand_specific.length_vectors"] = (
        "every interval-length vector in {0..3}^4%s on the 13-symbol sequences %r, strand patterns %r; quick: the "
        "encoding rotates with the vector, thorough: every encoding for 4 intervals" % ("" if quick else " and {0..3}^5", long_seqs, patterns))
    encs = list(long_seqs)
    for n in ((4,) if quick else (4, 5)):
        for k, lengths in enumerate(itertools.product(range(4), repeat=n)):
            for j, pattern in enumerate(patterns[n]):
                for enc_name in ([encs[(k + j) % len(encs)]] if (quick or n == 5) else encs):
                    s = long_seqs[enc_name]
                    ivs = [(2 * i, 2 * i + L, pattern[i]) for i, L in enumerate(lengths)]
                    check_strand_specific(col, s, enc_name, ivs, "length-vectors")
            if k % 64 == 0 and col.out_of_time():
                return


# ----------------------------------------------------------------------------------------------------------------
# contract 3: GenomicSequence indexed with (stranded) intervals

def write_fasta(path, chroms, width):
    with open(path, "w") as f:
        for name, seq in chroms:
            f.write(">%s\n" % name)
            for i in range(0, len(seq), width):
                f.write(seq[i:i + width] + "\n")


class GenomicBackends:
    """the same chromosomes behind every way of obtaining a GenomicSequence"""

    def __init__(self, tmp, chroms, width, tag):
        import bionumpy as bnp
        from bionumpy.genomic_data import GenomicSequence
        self.chroms = [tuple(c) for c in chroms]
        self.width = width
        self.seqs = dict(self.chroms)
        self.fa = os.path.join(tmp, "g_%s.fa" % tag)
        write_fasta(self.fa, self.chroms, width)
        self.dict_gs = GenomicSequence.from_dict(dict(self.chroms))
        self._indexed = bnp.open_indexed(self.fa)
        self.fasta_gs = GenomicSequence.from_indexed_fasta(self._indexed)
        self.genome = bnp.Genome.from_file(self.fa)
        self.genome_gs = self.genome.read_sequence()

    def close(self):
        for f in (self._indexed, getattr(self.genome_gs, "_fasta", None)):
            try:
                f._f_obj.close()
            except Exception:
                pass

    def call(self, path, ivs):
        from bionumpy.genomic_data import GenomicIntervals
        bed = make_bed6(ivs)
        if path == "dict:extract_intervals:stranded":
            return self.dict_gs.extract_intervals(bed, stranded=True)
        if path == "dict:extract_intervals:unstranded":
            return self.dict_gs.extract_intervals(bed, stranded=False)
        if path == "dict:getitem:genomic_intervals":
            gi = GenomicIntervals.from_fields(self.dict_gs.genome_context, [iv[3] for iv in ivs], [iv[0] for iv in ivs],
                                              [iv[1] for iv in ivs], [iv[2] for iv in ivs])
            return self.dict_gs[gi]
        if path == "fasta:extract_intervals:stranded":
            return self.fasta_gs.extract_intervals(bed, stranded=True)
        if path == "genome:getitem:stranded":
            return self.genome_gs[self.genome.get_intervals(bed, stranded=True)]
        if path == "genome:getitem:unstranded":
            return self.genome_gs[self.genome.get_intervals(bed, stranded=False)]
        raise ValueError(path)


GENOMIC_PATHS = ["dict:extract_intervals:stranded", "dict:extract_intervals:unstranded", "dict:getitem:genomic_intervals",
                 "fasta:extract_intervals:stranded", "genome:getitem:stranded", "genome:getitem:unstranded"]


def check_genomic(col, backends, path, ivs):
    case = {"kind": "genomic", "chroms": [list(c) for c in backends.chroms], "width": backends.width, "path": path,
            "intervals": [list(iv) for iv in ivs]}
    col.case(case, nontrivial=any(iv[1] > iv[0] for iv in ivs), contract="genomic_sequence")
    stranded = not path.endswith("unstranded")
    sig = "genomic_sequence:" + path
    if stranded:
        got = run_stranded(col, lambda: backends.call(path, ivs), sig, case, ivs)
    else:
        got = col.guarded(lambda: rows_of(backends.call(path, ivs)), sig, case)
    if got is None:
        return
    expected = stranded_expected(lambda iv: backends.seqs[iv[3]], ivs, "acgtn", stranded)
    report_stranded(col, sig, "acgtn", case, ivs, got, expected)


def enum_genomic(col, tier, tmp):
    quick = tier == "quick"
    genomes = [([("chr1", "AcGTn"[:4 if quick else 5]), ("chr2", "tTGa"[:3 if quick else 4])], 60),
               ([("chr1", "GATTaCAnC"), ("chr2", "ccAGt"), ("chr3", "T")], 4)]
    col.bounds["genomic_sequence"] = ("genomes %r (FASTA line widths 60 and 4); paths %s; every single interval x strand, "
                                      "every ordered pair on the first genome%s; seeded lists of 3..4 intervals"
                                      % ([g for g, _ in genomes], GENOMIC_PATHS, " (quick: every 2nd first interval)" if quick else ""))
    for gi, (chroms, width) in enumerate(genomes):
        b = col.guarded(lambda: GenomicBackends(tmp, chroms, width, str(gi)), "genomic_sequence:open",
                        {"kind": "genomic-open", "chroms": chroms, "width": width})
        if b is None:
            continue
        try:
            ivs = [(a, e, s, name) for name, seq in chroms for (a, e, s) in all_intervals(len(seq))]
            for path in GENOMIC_PATHS:
                for iv in ivs:
                    check_genomic(col, b, path, [iv])
            if gi == 0:
                for path in GENOMIC_PATHS:
                    firsts = ivs[::2] if quick else ivs
                    seconds = ivs[1::3] if quick else ivs
                    for iv1 in firsts:
                        for iv2 in seconds:
                            check_genomic(col, b, path, [iv1, iv2])
                        if col.out_of_time():
                            return
            for i in range(60 if quick else 1500):
                path = GENOMIC_PATHS[i % len(GENOMIC_PATHS)]
                pick = [ivs[col.rng.randrange(len(ivs))] for _ in range(col.rng.randint(3, 4))]
                check_genomic(col, b, path, pick)
                if i % 50 == 0 and col.out_of_time():
                    return
        finally:
            b.close()


# ----------------------------------------------------------------------------------------------------------------
# contract 3b: file-backed GenomicSequence whose genome-context contig order differs from the FASTA record order

ORDER_PATHS = ["getitem:stranded", "getitem:unstranded", "getitem:from_fields:stranded", "extract_intervals:bed6:stranded"]


def write_fasta_records(path, records, widths):
    """one line width per record (a .fai index has a line geometry per record)"""
    with open(path, "w") as f:
        for (name, seq), width in zip(records, widths):
            f.write(">%s\n" % name)
            for i in range(0, len(seq), width):
                f.write(seq[i:i + width] + "\n")


class OrderedGenome:
    """A FASTA file (records in FILE order) opened through a Genome whose contig order comes from somewhere else.
    spec (json): records [[name, seq]...] in file order, widths [line width per record], open:
      'fasta'  Genome.from_file(fasta, sort_names=spec.sort_names, filter_function=default | keep_all).read_sequence()
      'sizes'  Genome.from_file(chrom.sizes listing spec.order, ...).read_sequence(fasta)
      'dict'   Genome.from_dict({name: length for name in spec.order}).read_sequence(fasta)
    The oracle only uses spec.records: whatever the order of the genome, an interval on contig X is a slice of the
    record named X of the file."""

    def __init__(self, tmp, spec, tag):
        import bionumpy as bnp
        from bionumpy.genomic_data.genome_context import keep_all
        self.spec = spec
        records = [tuple(r) for r in spec["records"]]
        self.seqs = dict(records)
        self.fa = os.path.join(tmp, "o_%s.fa" % tag)
        write_fasta_records(self.fa, records, spec["widths"])
        kwargs = {"sort_names": bool(spec.get("sort_names"))}
        if spec.get("filter") == "keep_all":
            kwargs["filter_function"] = keep_all
        if spec["open"] == "fasta":
            self.genome = bnp.Genome.from_file(self.fa, **kwargs)
            self.gs = self.genome.read_sequence()
        elif spec["open"] == "sizes":
            sizes = os.path.join(tmp, "o_%s.chrom.sizes" % tag)
            with open(sizes, "w") as f:
                for name in spec["order"]:
                    f.write("%s\t%d\n" % (name, len(self.seqs[name])))
            self.genome = bnp.Genome.from_file(sizes, **kwargs)
            self.gs = self.genome.read_sequence(self.fa)
        elif spec["open"] == "dict":
            self.genome = bnp.Genome.from_dict({name: len(self.seqs[name]) for name in spec["order"]})
            self.gs = self.genome.read_sequence(self.fa)
        else:
            raise ValueError(spec["open"])

    def close(self):
        try:
            self.gs._fasta._f_obj.close()
        except Exception:
            pass

    def call(self, path, ivs):
        from bionumpy.genomic_data import GenomicIntervals
        bed = make_bed6(ivs)
        if path == "getitem:stranded":
            return self.gs[self.genome.get_intervals(bed, stranded=True)]
        if path == "getitem:unstranded":
            return self.gs[self.genome.get_intervals(bed, stranded=False)]
        if path == "getitem:from_fields:stranded":
            gi = GenomicIntervals.from_fields(self.gs.genome_context, [iv[3] for iv in ivs], [iv[0] for iv in ivs],
                                              [iv[1] for iv in ivs], [iv[2] for iv in ivs])
            return self.gs[gi]
        if path == "extract_intervals:bed6:stranded":
            return self.gs.extract_intervals(bed, stranded=True)
        raise ValueError(path)


def check_genomic_order(col, g, path, ivs):
    spec = g.spec
    case = {"kind": "genomic_order", "spec": spec, "path": path, "intervals": [list(iv) for iv in ivs]}
    col.case(case, nontrivial=any(iv[1] > iv[0] for iv in ivs), contract="genomic_sequence")
    stranded = not path.endswith("unstranded")
    sig = "genomic_sequence:contig-order:%s:%s" % (spec["scenario"], path)
    if stranded:
        got = run_stranded(col, lambda: g.call(path, ivs), sig, case, ivs)
    else:
        got = col.guarded(lambda: rows_of(g.call(path, ivs)), sig, case)
    if got is None:
        return
    expected = stranded_expected(lambda iv: g.seqs[iv[3]], ivs, "acgtn", stranded)
    report_stranded(col, sig, "acgtn", case, ivs, got, expected)


def contig_sequence(k, length):
    """contig number k: at every position the contigs 0..4 of one file carry five different symbols (so the slice of
    a wrong contig never equals the right one), both cases and N included"""
    out = []
    for i in range(length):
        c = "ACGTN"[(2 * i + k) % 5]
        out.append(c.lower() if (i + k) % 3 == 1 else c)
    return "".join(out)


def width_variants(n_records, which):
    """line widths per record: 'narrow' = 2 everywhere (every contig spans several lines), 'wide' = 60 (one line per
    record), 'mixed' = 3, 2, 60, 4, 2 ... per record (the line geometry differs between the records)"""
    if which == "narrow":
        return [2] * n_records
    if which == "wide":
        return [60] * n_records
    return [(3, 2, 60, 4, 2)[i % 5] for i in range(n_records)]


def order_specs(tier):
    """every genome whose contig order can differ from the file order, within the bounds"""
    quick = tier == "quick"
    variants = ["narrow", "wide", "mixed"]
    specs = []

    def add(scenario, names, lengths, how, k, all_widths=False, **kw):
        records = [[name, contig_sequence(i, lengths[name])] for i, name in enumerate(names)]
        for which in (variants if all_widths else [variants[k % 3]]):
            spec = {"scenario": scenario, "records": records, "widths": width_variants(len(records), which), "open": how}
            spec.update(kw)
            specs.append(spec)

    # (1) underscore-named contigs (ignored by the default filter and moved behind the others in the genome context)
    #     at every place among 2 and 3 regular chromosomes; the placements with all of them last are the controls.
    #     quick: every placement of 1 among 2, every 3rd placement of 2 among 3, the first placement of the others
    reg = ["chr1", "chr2", "chr3"]
    und = ["chr1_gl000191_random", "chrUn_gl000211"]
    lengths = {"chr1": 5, "chr2": 4, "chr3": 6, "chr1_gl000191_random": 7, "chrUn_gl000211": 4, "chr10": 4}
    k = 0
    for n_reg in (2, 3):
        for n_und in (1, 2):
            n = n_reg + n_und
            for pi, places in enumerate(itertools.combinations(range(n), n_und)):
                names, r, u = [], iter(reg[:n_reg]), iter(und[:n_und])
                for i in range(n):
                    names.append(next(u) if i in places else next(r))
                k += 1
                if quick and not ((n_reg, n_und) == (2, 1) or ((n_reg, n_und) == (3, 2) and pi % 3 == 0) or pi == 0):
                    continue
                add("underscore-contigs", names, lengths, "fasta", k, all_widths=not quick)
                if not quick or (n_reg, n_und, pi) == (3, 2, 0):
                    add("underscore-contigs:keep_all", names, lengths, "fasta", k + 1, filter="keep_all")
    # (2) sort_names=True on every file order of {chr1, chr10, chr2} (thorough: and of these plus an underscore contig)
    names3 = ["chr1", "chr10", "chr2"]
    for k, perm in enumerate(itertools.permutations(names3)):
        add("sort_names", list(perm), lengths, "fasta", k, sort_names=True)
    if not quick:
        for k, perm in enumerate(itertools.permutations(names3 + [und[0]])):
            add("sort_names", list(perm), lengths, "fasta", k, sort_names=True)
    # (3) chrom.sizes file / dict in another order than the FASTA: every order of every subset of >= 2 contigs
    #     against three file orders; the dict for every 3rd of them, chrom.sizes + sort_names=True for every full order
    #     on the first file order (quick: one file order, every full order and every 2nd ordered pair for the
    #     chrom.sizes file, two orders for the dict)
    file_orders = list(itertools.permutations(reg))
    file_orders = [file_orders[4]] if quick else [file_orders[4], file_orders[0], file_orders[3]]
    k = 0
    for forder in file_orders:
        for m in (3, 2):
            for oi, order in enumerate(itertools.permutations(reg, m)):
                k += 1
                if quick and m == 2 and oi % 2:
                    continue
                add("chrom.sizes", list(forder), lengths, "sizes", k, order=list(order))
                if (m, oi) in ((3, 0), (2, 2)) or (not quick and k % 3 == 0):
                    add("from_dict", list(forder), lengths, "dict", k + 1, order=list(order))
        if not quick and forder == file_orders[0]:
            for order in itertools.permutations(reg):
                k += 1
                add("chrom.sizes:sort_names", list(forder), lengths, "sizes", k, order=list(order), sort_names=True)
    return specs


def order_included(spec):
    """contigs an interval may lie on: listed in the genome and not ignored by the filter"""
    names = spec.get("order") or [r[0] for r in spec["records"]]
    if spec.get("filter") == "keep_all" or spec["open"] == "dict":
        return list(names)
    return [n for n in names if "_" not in n]


def order_interval_lists(spec, quick):
    """(path, intervals) to evaluate for one genome.  Interval lists are long here (one call extracts many intervals):
    the shapes of short lists are the subject of enum_genomic, this part is about WHICH record an interval is cut from"""
    seqs = {name: seq for name, seq in spec["records"]}
    inc = order_included(spec)
    out = []
    # (A) every interval x strand of one contig in one call (quick: the two paths that take genome-encoded intervals
    #     with strands); the Bed6 path walks the intervals one by one in Python and gets a shorter list below
    per_contig = {name: [(a, b, strand, name) for (a, b, strand) in all_intervals(len(seqs[name]))] for name in inc}
    fast_paths = [p for p in ORDER_PATHS if not p.startswith("extract_intervals")]
    for name in inc:
        for path in (("getitem:stranded", "getitem:from_fields:stranded") if quick else fast_paths):
            out.append((path, per_contig[name]))
    # (B) every interval x strand of every contig in one call, contigs interleaved (round robin), forwards and backwards
    mixed = [iv for group in itertools.zip_longest(*[per_contig[name] for name in inc]) for iv in group if iv is not None]
    for path in fast_paths:
        out.append((path, mixed))
        if not quick or path == "getitem:stranded":
            out.append((path, mixed[::-1]))
    ends = [(a, b, strand, name) for name in inc for (a, b, strand) in
            ((0, len(seqs[name]), "-"), (1, len(seqs[name]), "+"), (0, len(seqs[name]) - 1, "-"))]
    out.append(("extract_intervals:bed6:stranded", ends[::2] + ends[1::2]))
    if not quick:
        out.append(("extract_intervals:bed6:stranded", [(a, b, "+" if s == "-" else "-", name) for a, b, s, name in ends]))
    # (C) one interval per contig in every order of the contigs (quick: the cyclic rotations) x strand assignments
    #     (quick: exactly one '-' or all '-')
    perms = list(itertools.permutations(inc))
    if len(perms) > 6:
        perms = perms[::len(perms) // 6]
    if quick:
        perms = [tuple(inc[i:] + inc[:i]) for i in range(len(inc))]
    for perm in perms:
        for strands in itertools.product("+-", repeat=len(perm)):
            if quick and strands.count("-") not in (1, len(perm)):
                continue
            ivs = [(min(1, len(seqs[name]) - 1), len(seqs[name]), strand, name) for name, strand in zip(perm, strands)]
            out.append(("getitem:stranded", ivs))
    return out


def enum_genomic_order(col, tier, tmp):
    import random
    quick = tier == "quick"
    specs = order_specs(tier)
    col.bounds["genomic_sequence.contig_order"] = (
        "%d file-backed genomes (Genome.from_file(fasta / chrom.sizes).read_sequence(), Genome.from_dict): underscore contigs "
        "at every place among 2..3 chromosomes (default filter and keep_all), sort_names=True on every file order of 3 names%s, "
        "chrom.sizes / dict listing ordered subsets of >= 2 of 3 contigs (see order_specs) against %s file order(s); contig lengths 4..7, "
        "line widths narrow(2) / wide(60) / mixed per record%s; paths %s; per call: every interval x strand of one contig, "
        "of all contigs interleaved (both directions), one interval per contig in every contig order x strand assignment, "
        "seeded lists of 3..5 non-empty intervals"
        % (len(specs), "" if quick else " (and of 4 with an underscore contig)", "1" if quick else "3",
           " (one variant per genome, rotating; thorough: all three for the underscore genomes)", ORDER_PATHS))
    rng = random.Random("c14-contig-order-%d" % col.seed)
    for gi, spec in enumerate(specs):
        g = col.guarded(lambda: OrderedGenome(tmp, spec, str(gi)), "genomic_sequence:contig-order:%s:open" % spec["scenario"],
                        {"kind": "genomic_order-open", "spec": spec})
        if g is None:
            continue
        try:
            for path, ivs in order_interval_lists(spec, quick):
                check_genomic_order(col, g, path, ivs)
            inc = order_included(spec)
            for i in range(4 if quick else 12):
                ivs = []
                for _ in range(rng.randint(3, 5)):
                    name = rng.choice(inc)
                    a = rng.randint(0, len(g.seqs[name]) - 1)
                    ivs.append((a, rng.randint(a + 1, len(g.seqs[name])), rng.choice("+-"), name))
                check_genomic_order(col, g, ORDER_PATHS[i % len(ORDER_PATHS)], ivs)
        finally:
            g.close()
        if col.out_of_time():
            return


# ----------------------------------------------------------------------------------------------------------------
# contract 4: translation

def check_translate(col, rows, container, label):
    from bionumpy.sequence import translate_dna_to_protein
    case = {"kind": "translate", "rows": list(rows), "container": container, "label": label}
    col.case(case, nontrivial=any(rows), contract="translate")
    sig = "translate:" + container
    x = col.guarded(lambda: build(rows, "ascii", container), "build-input:ascii:" + container, case)
    if x is None:
        return
    got = col.guarded(lambda: rows_of(translate_dna_to_protein(x)), sig, case)
    if got is None:
        return
    expected = [translate_model(r) for r in rows]
    if got == expected:
        return
    if [len(g) for g in got] != [len(r) // 3 for r in rows]:
        col.fail("translate:row-lengths:" + label, case, "row lengths %r expected %r" % ([len(g) for g in got], [len(r) // 3 for r in rows]))
    else:
        col.fail("translate:wrong-amino-acid:" + label, case, "got %r expected %r" % (got, expected))


def case_patterns(codon):
    for mask in range(8):
        yield "".join(c.lower() if (mask >> i) & 1 else c for i, c in enumerate(codon))


def enum_translate(col, tier):
    quick = tier == "quick"
    col.bounds["translate"] = ("all 64 codons x 8 case patterns x containers {list of str, ragged ASCII, SequenceEntry}; every "
                               "concatenation of 2%s codons (one row); every pair of codons as two rows; every list of <= 3 rows "
                               "with 0..3 codons per row x fillings; seeded longer lists" % ("" if quick else " and 3"))
    for codon in CODONS:
        for c in case_patterns(codon):
            for container in ("pylist", "ragged", "entry"):
                check_translate(col, [c], container, "single-codon")
    for c1 in CODONS:
        for c2 in CODONS:
            check_translate(col, [c1 + c2], "pylist", "two-codons-one-row")
            check_translate(col, [c1, c2], "ragged", "two-rows")
        if col.out_of_time():
            return
    # row structure: 0..3 codons per row, up to 3 rows
    for n in range(0, 4):
        for counts in itertools.product(range(4), repeat=n):
            for offset, step in ((0, 1), (17, 5), (40, 11)):
                k, rows = offset, []
                for cnt in counts:
                    row = ""
                    for _ in range(cnt):
                        row += CODONS[k % 64]
                        k += step
                    rows.append(row)
                check_translate(col, rows, "ragged" if n == 0 or offset else "pylist", "row-structure")
                if n >= 1:
                    check_translate(col, rows, "entry", "row-structure")
    if not quick:
        for c1 in CODONS:
            for c2 in CODONS:
                for c3 in CODONS:
                    check_translate(col, [c1 + c2 + c3], "pylist", "three-codons-one-row")
            if col.out_of_time():
                return
    for i in range(200 if quick else 5000):
        rows = ["".join(col.rng.choice("ACGTacgt") for _ in range(3 * col.rng.randint(0, 8)))
                for _ in range(col.rng.randint(1, 6))]
        check_translate(col, rows, ("pylist", "ragged", "entry")[i % 3], "sampled")
        if i % 100 == 0 and col.out_of_time():
            return


# ----------------------------------------------------------------------------------------------------------------
# contract 5 (added scope "code-storage"): the same three contracts on sequences that were NOT made from text.
#
# An EncodedArray is (raw integer codes, encoding); the raw codes may be stored in any integer dtype (the class
# docstring builds one from np.array([0, 1, 2, 3]); bionumpy.simulate draws them with rng.choice -> int64) and the
# array may be a view (strided, Fortran order).  The property speaks about the SEQUENCE, so the result must not depend
# on how the codes are stored.  Axes added here:
#   dtype   uint8 (control) int8 int16 uint16 int32 uint32 int64 uint64, thorough also big-endian >i2 >i4 >i8
#   layout  contiguous | strided view (every 2nd slot of a buffer whose other slots hold other valid codes) |
#           Fortran-ordered 2-D matrix
#   source  codes written by the spec-level encoder below (code = position in the alphabet, ASCII = ord) |
#           bionumpy.simulate.sequences.simulate_sequence / simulate_sequences (public API; int64 codes)
# The input text is never obtained from bionumpy: for source=codes it is the string the codes were computed from, for
# source=simulate it is decoded from the raw codes with the alphabet (alphabet[code]).

ALPHABET = {"acgt": "ACGT", "acgtn": "ACGTN", "actg": "ACTG", "actgn": "ACTGN"}
CODE_SYMBOLS = {"ascii": "ACGTNacgtn", "acgt": "ACGT", "acgtn": "ACGTN", "actg": "ACTG", "actgn": "ACTGN"}
DTYPES_QUICK = ["int16", "int32", "int64", "uint64"]
DTYPES_ALL = ["int8", "int16", "uint16", "int32", "uint32", "int64", "uint64", ">i2", ">i4", ">i8"]
STORAGE_TAG = "code-storage"


def codes_of(s, enc_name):
    """spec-level encoder: ASCII code, or the position of the (upper-cased) symbol in the encoding's alphabet"""
    if enc_name == "ascii":
        return [ord(c) for c in s]
    return [ALPHABET[enc_name].index(c.upper()) for c in s]


def storage_class(dtype, layout):
    """part of the signature: one defect class per way of storing the codes - not per dtype, encoding, container or
    origin of the array (these are in the recorded case and in the message)"""
    import numpy as np
    base = "one-byte-codes" if np.dtype(dtype).itemsize == 1 else "multi-byte-codes"
    return base if layout == "contiguous" else base + ":non-contiguous-view"


def code_array(codes, enc_name, dtype, layout, shape=None):
    """numpy array of the given dtype / layout holding `codes` (reshaped to `shape` for a matrix)"""
    import numpy as np
    a = np.array(codes, dtype=np.int64).astype(np.dtype(dtype))
    if layout == "strided":
        n_codes = 0 if enc_name == "ascii" else len(ALPHABET[enc_name])
        filler = [ord("ACGT"[c % 4]) for c in codes] if enc_name == "ascii" else [(c + 1) % n_codes for c in codes]
        buf = np.zeros(2 * len(codes), dtype=np.dtype(dtype))
        buf[::2] = a
        buf[1::2] = np.array(filler, dtype=np.int64).astype(np.dtype(dtype))
        a = buf[::2]
    if shape is not None:
        a = a.reshape(shape)
        if layout == "fortran":
            a = np.asfortranarray(a)
    return a


def build_codes(strings, enc_name, container, dtype, layout):
    from bionumpy.encoded_array import EncodedArray, EncodedRaggedArray
    enc = get_encoding(enc_name)
    if container == "flat":
        return EncodedArray(code_array(codes_of(strings[0], enc_name), enc_name, dtype, layout), enc)
    codes = [c for s in strings for c in codes_of(s, enc_name)]
    if container == "ragged":
        return EncodedRaggedArray(EncodedArray(code_array(codes, enc_name, dtype, layout), enc), [len(s) for s in strings])
    if container == "matrix":
        return EncodedArray(code_array(codes, enc_name, dtype, layout, (len(strings), len(strings[0]))), enc)
    raise ValueError(container)


def decode_codes(raw, alphabet):
    return "".join(alphabet[int(c)] for c in raw)


def simulated(spec):
    """spec: {'alphabet', 'lengths' (int: one sequence; list: simulate_sequences rows), 'rng': seed, 'as': flat|ragged|entry}.
    Returns (value for the function under test, rows as text decoded from the raw codes, dtype name of the codes)"""
    import numpy as np
    from bionumpy.simulate.sequences import simulate_sequence, simulate_sequences
    rng = np.random.default_rng(spec["rng"])
    if spec["as"] == "flat":
        x = simulate_sequence(spec["alphabet"], spec["lengths"], rng)
        raw = np.asarray(x.raw())
        return x, [decode_codes(raw, spec["alphabet"])], raw.dtype.name
    entry = simulate_sequences(spec["alphabet"], {"r%d" % i: L for i, L in enumerate(spec["lengths"])}, rng)
    raw = np.asarray(entry.sequence.ravel().raw())
    rows, k = [], 0
    for L in spec["lengths"]:
        rows.append(decode_codes(raw[k:k + L], spec["alphabet"]))
        k += L
    return (entry if spec["as"] == "entry" else entry.sequence), rows, raw.dtype.name


def raw_snapshot(x):
    import numpy as np
    if hasattr(x, "sequence") and hasattr(x, "name"):
        x = x.sequence
    return np.array(x.ravel().raw()).tolist()


def check_rc_codes(col, case):
    """case: kind 'rc_codes'; either source=codes (strings, enc, container, dtype, layout) or source=simulate (sim spec).
    Signatures: reverse_complement:code-storage:<storage class>:<what>"""
    from bionumpy.sequence import get_reverse_complement
    container = case["container"]
    if case["source"] == "simulate":
        built = col.guarded(lambda: simulated(case["sim"]), "build-input:%s:simulate" % STORAGE_TAG, case)
        if built is None:
            return
        x, strings, dtype = built
        ctype, layout = "alphabet(%s)" % case["sim"]["alphabet"], "contiguous"
    else:
        strings, ctype, dtype, layout = case["strings"], case["enc"], case["dtype"], case["layout"]
        x = col.guarded(lambda: build_codes(strings, ctype, container, dtype, layout),
                        "build-input:%s:%s:%s" % (STORAGE_TAG, ctype, container), case)
        if x is None:
            return
    col.case(case, nontrivial=any(strings), contract="reverse_complement")
    sig = "reverse_complement:%s:%s" % (STORAGE_TAG, storage_class(dtype, layout))
    how = "(%s codes, %s, %s, %s)" % (dtype, layout, ctype, container)
    canon_t = "ascii" if ctype == "ascii" else "upper"
    before = raw_snapshot(x)
    r = col.guarded(lambda: get_reverse_complement(x), sig, case)
    if r is None:
        return
    got = col.guarded(lambda: rows_of(r), sig + ":result-type", case)
    if got is None:
        return
    expected = [canon(canon_t, rc_model(s)) for s in strings]
    in_rows = [canon(canon_t, s) for s in strings]
    same_shape = col.check([len(g) for g in got] == [len(s) for s in strings], sig + ":row-lengths-changed", case,
                           "row lengths %r, input row lengths %r %s" % ([len(g) for g in got], [len(s) for s in strings], how))
    if same_shape:
        col.check(got == expected, sig + ":wrong-sequence", case, "got %r expected %r %s" % (got, expected, how))
    col.check(raw_snapshot(x) == before, sig + ":argument-modified", case, "the argument changed during the call " + how)
    rr = col.guarded(lambda: rows_of(get_reverse_complement(r)), sig + ":second-application", case)
    if rr is None:
        return
    col.check(rr == in_rows, sig + ":twice-not-identity", case, "rc(rc(x)) = %r, x = %r %s" % (rr, in_rows, how))


def rc_codes_case(strings, enc_name, container, dtype, layout):
    return {"kind": "rc_codes", "source": "codes", "strings": list(strings), "enc": enc_name, "container": container,
            "dtype": dtype, "layout": layout}


def storage_rng(col, part):
    """sampling of the added scope has its own seeded generator (the samples of the original scope stay what they were)"""
    import random
    return random.Random("c14-code-storage-%s-%d" % (part, col.seed))


def enum_rc_codes(col, tier):
    quick = tier == "quick"
    rng = storage_rng(col, "rc")
    dtypes = DTYPES_QUICK if quick else DTYPES_ALL
    single_max = {e: (2 if quick else 3) for e in CODE_SYMBOLS}
    R, M = 3, 3
    col.bounds["code_storage.reverse_complement"] = (
        "code dtypes %s (+ uint8 for the view layouts); (a) every string up to length %r, 1-D, contiguous, every dtype "
        "(length 3: two dtypes rotating with the string), strided view for one dtype rotating with the string; (b) every row-length vector with <= %d rows of length 0..%d x "
        "{ragged; 2-D matrix when rows are equally long} x every dtype (quick: two dtypes rotating with the vector; thorough: a second "
        "filling with three rotating dtypes, and every vector with 4 rows with two rotating dtypes), views (strided / Fortran order) for a dtype "
        "rotating with the vector; (c) simulate_sequence of every length 0..12 and simulate_sequences of every row-length "
        "vector with <= 3 rows of 0..3 (alphabets ACGT, ACGTN, ACTG, ACTGN; as EncodedRaggedArray and as SequenceEntry - quick: <= 2 rows); "
        "(d) seeded longer lists (<= 6 rows, row length <= 12) with random dtype / layout"
        % (dtypes, single_max, R, M))
    view_dtypes = ["uint8"] + dtypes
    k = 0
    # (a) single strings, 1-D
    for enc_name, maxlen in single_max.items():
        for s in strings_upto(CODE_SYMBOLS[enc_name], maxlen):
            k += 1
            for dtype in (dtypes if len(s) <= 2 else [dtypes[k % len(dtypes)], dtypes[(k + 5) % len(dtypes)]]):
                check_rc_codes(col, rc_codes_case([s], enc_name, "flat", dtype, "contiguous"))
            if s and (len(s) <= 2 or k % 2):
                check_rc_codes(col, rc_codes_case([s], enc_name, "flat", view_dtypes[k % len(view_dtypes)], "strided"))
        if col.out_of_time():
            return
    # (b) row structure
    fillings = [(0, 1)] if quick else [(0, 1), (5, 3)]
    for enc_name in CODE_SYMBOLS:
        symbols = CODE_SYMBOLS[enc_name]
        for n in range(R + (1 if quick else 2)):
            for lengths in itertools.product(range(M + 1), repeat=n):
                k += 1
                for fi, (offset, step) in enumerate(fillings[:1] if n > R else fillings):
                    rows = fill(lengths, symbols, offset, step)
                    equal = n >= 1 and len(set(lengths)) == 1
                    some = [dtypes[k % len(dtypes)], dtypes[(k + 2) % len(dtypes)]] + ([] if quick or n > R else [dtypes[(k + 5) % len(dtypes)]])
                    for dtype in (some if (quick or fi or n > R) else dtypes):
                        check_rc_codes(col, rc_codes_case(rows, enc_name, "ragged", dtype, "contiguous"))
                        if equal:
                            check_rc_codes(col, rc_codes_case(rows, enc_name, "matrix", dtype, "contiguous"))
                    vd = view_dtypes[k % len(view_dtypes)]
                    if any(lengths):
                        check_rc_codes(col, rc_codes_case(rows, enc_name, "ragged", vd, "strided"))
                        if equal and n >= 2 and lengths[0] >= 2:
                            check_rc_codes(col, rc_codes_case(rows, enc_name, "matrix", vd, "fortran"))
            if col.out_of_time():
                return
    # (c) sequences from bionumpy.simulate
    for alphabet in ("ACGT", "ACGTN", "ACTG", "ACTGN"):
        for L in range(13):
            for rng_seed in ((1,) if quick else (1, 2, 3)):
                check_rc_codes(col, {"kind": "rc_codes", "source": "simulate", "container": "flat",
                                     "sim": {"alphabet": alphabet, "lengths": L, "rng": rng_seed, "as": "flat"}})
        for n in range(1, 4):
            for lengths in itertools.product(range(4), repeat=n):
                for how in (("ragged", "entry") if (n <= 2 or not quick) else ("ragged",)):
                    check_rc_codes(col, {"kind": "rc_codes", "source": "simulate", "container": how,
                                         "sim": {"alphabet": alphabet, "lengths": list(lengths), "rng": 1 + n, "as": how}})
        if col.out_of_time():
            return
    # (d) above the bounds
    encs = list(CODE_SYMBOLS)
    for i in range(150 if quick else 1500):
        enc_name = encs[i % len(encs)]
        symbols = CODE_SYMBOLS[enc_name]
        rows = ["".join(rng.choice(symbols) for _ in range(rng.randint(0, 12))) for _ in range(rng.randint(1, 6))]
        dtype = rng.choice(["uint8"] + DTYPES_ALL)
        layout = rng.choice(["contiguous", "contiguous", "strided"]) if any(rows) else "contiguous"
        check_rc_codes(col, rc_codes_case(rows, enc_name, "ragged", dtype, layout))
        if i % 200 == 0 and col.out_of_time():
            return


def report_stranded_codes(col, prefix, how, case, ivs, got, expected):
    if got == expected:
        return
    if len(got) != len(expected):
        col.fail(prefix + ":wrong-number-of-rows", case, "got %r expected %r %s" % (got, expected, how))
        return
    strands = sorted({iv[2] for iv, g, e in zip(ivs, got, expected) if g != e})
    col.fail(prefix + ":wrong-sequence:strand" + "".join(strands), case, "got %r expected %r %s" % (got, expected, how))


def check_strand_specific_codes(col, case):
    """case: kind 'strand_codes'; the reference sequence is built from codes (seq, enc, dtype, layout) or simulated (sim).
    Signatures: strand_specific:code-storage:<storage class>:<what>"""
    import numpy as np
    from bionumpy.sequence import get_strand_specific_sequences
    ivs = [tuple(iv) for iv in case["intervals"]]
    if case["source"] == "simulate":
        built = col.guarded(lambda: simulated(case["sim"]), "build-input:%s:simulate" % STORAGE_TAG, case)
        if built is None:
            return
        arr, (seq,), dtype = built
        enc_label, layout, canon_t = "alphabet(%s)" % case["sim"]["alphabet"], "contiguous", "upper"
    else:
        seq, enc_label, dtype, layout = case["seq"], case["enc"], case["dtype"], case["layout"]
        canon_t = "ascii" if enc_label == "ascii" else "upper"
        arr = col.guarded(lambda: build_codes([seq], enc_label, "flat", dtype, layout),
                          "build-input:%s:%s:flat" % (STORAGE_TAG, enc_label), case)
    bed = col.guarded(lambda: make_bed6(ivs), "build-intervals", case)
    if arr is None or bed is None:
        return
    col.case(case, nontrivial=any(iv[1] > iv[0] for iv in ivs), contract="strand_specific")
    sig = "strand_specific:%s:%s" % (STORAGE_TAG, storage_class(dtype, layout))
    how = "(%s codes, %s, %s)" % (dtype, layout, enc_label)
    before = np.array(arr.raw()).tolist()
    got = run_stranded(col, lambda: get_strand_specific_sequences(arr, bed), sig, case, ivs)
    if got is None:
        return
    expected = stranded_expected(lambda iv: seq, ivs, canon_t)
    report_stranded_codes(col, sig, how, case, ivs, got, expected)
    col.check(np.array(arr.raw()).tolist() == before, sig + ":reference-modified", case,
              "the reference sequence changed during the call " + how)


def observable(ivs):
    """interval lists outside the region `total length <= number of intervals` (there the unchanged library raises in
    np.where - SIG_WHERE, enumerated by the original scope - and nothing can be observed)"""
    return sum(iv[1] - iv[0] for iv in ivs) > len(ivs)


def enum_strand_specific_codes(col, tier):
    quick = tier == "quick"
    rng = storage_rng(col, "strand")
    dtypes = DTYPES_QUICK if quick else DTYPES_ALL
    seqs = {"ascii": "AcGtN", "acgt": "ACGTT", "acgtn": "ACNGT", "actg": "CATGG", "actgn": "TNGAC"}
    L1 = 4 if quick else 5
    col.bounds["code_storage.strand_specific"] = (
        "reference sequences %r cut to length %d stored with code dtypes %s: every single interval x strand for every dtype "
        "(contiguous) and as strided view (uint8 and one wide dtype); every ordered pair of intervals x strands on the length-4 "
        "prefix%s; simulate_sequence references of length 8 (alphabets ACGT, ACGTN): every single interval x strand, seeded "
        "lists of 2..4 intervals; only interval lists with total length > number of intervals"
        % (seqs, L1, dtypes, " for a dtype rotating with the first interval (quick: every 4th first interval)" if quick
           else " for int32 and int64"))
    k = 0
    for enc_name, s in seqs.items():
        s1 = s[:L1]
        singles = [iv for iv in all_intervals(len(s1)) if observable([iv])]
        for dtype in dtypes:
            for iv in singles:
                check_strand_specific_codes(col, {"kind": "strand_codes", "source": "codes", "seq": s1, "enc": enc_name,
                                                  "dtype": dtype, "layout": "contiguous", "intervals": [list(iv)]})
        for dtype in ("uint8", dtypes[k % len(dtypes)]):
            for iv in singles:
                check_strand_specific_codes(col, {"kind": "strand_codes", "source": "codes", "seq": s1, "enc": enc_name,
                                                  "dtype": dtype, "layout": "strided", "intervals": [list(iv)]})
        k += 1
        s2 = s[:4]
        ivs = all_intervals(len(s2))
        for i1, iv1 in enumerate(ivs[::4] if quick else ivs):
            for dtype in ([dtypes[(i1 + k) % len(dtypes)]] if quick else ["int32", "int64"]):
                for iv2 in ivs:
                    if observable([iv1, iv2]):
                        check_strand_specific_codes(col, {"kind": "strand_codes", "source": "codes", "seq": s2, "enc": enc_name,
                                                          "dtype": dtype, "layout": "contiguous",
                                                          "intervals": [list(iv1), list(iv2)]})
            if col.out_of_time():
                return
    for alphabet in ("ACGT", "ACGTN"):
        for rng_seed in ((5,) if quick else (5, 6, 7)):
            sim = {"alphabet": alphabet, "lengths": 8, "rng": rng_seed, "as": "flat"}
            for iv in all_intervals(8):
                if observable([iv]):
                    check_strand_specific_codes(col, {"kind": "strand_codes", "source": "simulate", "sim": sim,
                                                      "intervals": [list(iv)]})
            for i in range(40 if quick else 200):
                ivs = []
                for _ in range(rng.randint(2, 4)):
                    a = rng.randint(0, 8)
                    ivs.append([a, rng.randint(a, 8), rng.choice("+-")])
                if observable(ivs):
                    check_strand_specific_codes(col, {"kind": "strand_codes", "source": "simulate", "sim": sim, "intervals": ivs})
        if col.out_of_time():
            return


CODES_GENOMIC_PATHS = ["dict:extract_intervals:stranded", "dict:getitem:genomic_intervals", "dict:extract_intervals:unstranded"]


class CodesDictBackend:
    """GenomicSequence.from_dict over chromosomes given as EncodedArrays whose codes are stored as described by `spec`:
    {'source': 'codes', 'chroms': [[name, text]..], 'enc', 'dtype', 'layout'} or
    {'source': 'simulate', 'chroms': [[name, length]..], 'alphabet', 'rng'}"""

    def __init__(self, spec):
        from bionumpy.genomic_data import GenomicSequence
        self.spec = spec
        values, self.seqs = {}, {}
        if spec["source"] == "simulate":
            for i, (name, length) in enumerate(spec["chroms"]):
                x, (text,), self.dtype = simulated({"alphabet": spec["alphabet"], "lengths": length, "rng": spec["rng"] + i, "as": "flat"})
                values[name], self.seqs[name] = x, text
            self.storage = storage_class(self.dtype, "contiguous")
            self.how = "(simulate_sequence, %s codes, alphabet %s)" % (self.dtype, spec["alphabet"])
        else:
            for name, text in spec["chroms"]:
                values[name] = build_codes([text], spec["enc"], "flat", spec["dtype"], spec["layout"])
                self.seqs[name] = text
            self.storage = storage_class(spec["dtype"], spec["layout"])
            self.how = "(%s codes, %s, %s)" % (spec["dtype"], spec["layout"], spec["enc"])
        self.dict_gs = GenomicSequence.from_dict(values)

    def call(self, path, ivs):
        from bionumpy.genomic_data import GenomicIntervals
        bed = make_bed6(ivs)
        if path == "dict:extract_intervals:stranded":
            return self.dict_gs.extract_intervals(bed, stranded=True)
        if path == "dict:extract_intervals:unstranded":
            return self.dict_gs.extract_intervals(bed, stranded=False)
        if path == "dict:getitem:genomic_intervals":
            gi = GenomicIntervals.from_fields(self.dict_gs.genome_context, [iv[3] for iv in ivs], [iv[0] for iv in ivs],
                                              [iv[1] for iv in ivs], [iv[2] for iv in ivs])
            return self.dict_gs[gi]
        raise ValueError(path)


def check_genomic_codes(col, backend, path, ivs):
    case = {"kind": "genomic_codes", "spec": backend.spec, "path": path, "intervals": [list(iv) for iv in ivs]}
    col.case(case, nontrivial=any(iv[1] > iv[0] for iv in ivs), contract="genomic_sequence")
    stranded = not path.endswith("unstranded")
    sig = "genomic_sequence:%s:%s:%s" % (STORAGE_TAG, backend.storage, path)
    if stranded:
        got = run_stranded(col, lambda: backend.call(path, ivs), sig, case, ivs)
    else:
        got = col.guarded(lambda: rows_of(backend.call(path, ivs)), sig, case)
    if got is None:
        return
    # the genomic sequence is served in the ACGTN encoding: upper case whatever the stored encoding was
    expected = stranded_expected(lambda iv: backend.seqs[iv[3]], ivs, "acgtn", stranded)
    report_stranded_codes(col, sig, backend.how, case, ivs, got, expected)


def enum_genomic_codes(col, tier):
    quick = tier == "quick"
    rng = storage_rng(col, "genomic")
    dtypes = ["int32", "int64"] if quick else ["int16", "int32", "int64", ">i8"]
    texts = {"ascii": [("chr1", "AcGTn"), ("chr2", "tTGa")], "acgt": [("chr1", "ACGTT"), ("chr2", "GATC")],
             "acgtn": [("chr1", "ACNGT"), ("chr2", "NCAT")]}
    specs = []
    for k, (enc_name, chroms) in enumerate(texts.items()):
        chroms = [[name, text[:len(text) - 1] if quick else text] for name, text in chroms]
        for dtype in dtypes:
            specs.append({"source": "codes", "chroms": chroms, "enc": enc_name, "dtype": dtype, "layout": "contiguous"})
        specs.append({"source": "codes", "chroms": chroms, "enc": enc_name, "dtype": (["uint8"] + dtypes)[k % (len(dtypes) + 1)],
                      "layout": "strided"})
    for alphabet in ("ACGT", "ACGTN"):
        for rng_seed in ((11,) if quick else (11, 21)):
            specs.append({"source": "simulate", "chroms": [["chr1", 4 if quick else 6], ["chr2", 3 if quick else 4]],
                          "alphabet": alphabet, "rng": rng_seed})
    col.bounds["code_storage.genomic_sequence"] = (
        "GenomicSequence.from_dict over EncodedArray chromosomes: %d genomes = texts %r (quick: last symbol dropped) stored with "
        "code dtypes %s + one strided view per encoding, and simulate_sequence chromosomes (ACGT, ACGTN); paths %s; every single "
        "interval x strand (unstranded path: the non-empty '-' intervals), seeded lists of 2..4 intervals; stranded paths only on lists "
        "with total length > number of intervals"
        % (len(specs), texts, dtypes, CODES_GENOMIC_PATHS))
    for spec in specs:
        b = col.guarded(lambda: CodesDictBackend(spec), "genomic_sequence:%s:open" % STORAGE_TAG,
                        {"kind": "genomic_codes-open", "spec": spec})
        if b is None:
            continue
        ivs = [(a, e, s, name) for name, text in b.seqs.items() for (a, e, s) in all_intervals(len(text))]
        for path in CODES_GENOMIC_PATHS:
            for iv in ivs:
                if (iv[2] == "-" and iv[1] > iv[0]) if path.endswith("unstranded") else observable([iv]):
                    check_genomic_codes(col, b, path, [iv])
        for i in range(12 if quick else 30):
            path = CODES_GENOMIC_PATHS[i % 2]
            pick = [ivs[rng.randrange(len(ivs))] for _ in range(rng.randint(2, 4))]
            if observable(pick):
                check_genomic_codes(col, b, path, pick)
        if col.out_of_time():
            return


def enum_code_storage(col, tier):
    enum_rc_codes(col, tier)
    if not col.out_of_time():
        enum_strand_specific_codes(col, tier)
    if not col.out_of_time():
        enum_genomic_codes(col, tier)


# ----------------------------------------------------------------------------------------------------------------

def run(tier="quick", seed=0):
    col = Collector("C14", tier, seed,
                    "exhaustive within the stated bounds, then seeded samples above them: (rc) every string / list of strings over "
                    "the symbols of each encoding x container; (strand) every interval x strand and every ordered pair (triple) of "
                    "them; (genomic) the same through every GenomicSequence backend and indexing path; (translate) every codon, "
                    "case pattern and codon concatenation.  distinct = distinct (input, encoding, container/path); non-trivial = "
                    "at least one non-empty row / interval")
    col.bounds = {"encodings": ENC_SYMBOLS}
    enum_code_storage(col, tier)
    if col.out_of_time():
        return col.result()
    enum_translate(col, tier)
    if not col.out_of_time():
        enum_strand_specific(col, tier)
    if not col.out_of_time():
        with TmpDir() as tmp:
            enum_genomic(col, tier, tmp)
        if not col.out_of_time():
            with TmpDir() as tmp:
                enum_genomic_order(col, tier, tmp)
    if not col.out_of_time():
        enum_rc(col, tier)
    return col.result()


def replay(case):
    col = Collector("C14", "quick", 0, "replay")
    kind = case["kind"]
    if kind == "rc":
        check_rc(col, case["strings"], case["enc"], case["container"], case.get("tag"))
    elif kind == "strand_specific":
        check_strand_specific(col, case["seq"], case["enc"], [tuple(iv) for iv in case["intervals"]], case.get("tag"))
    elif kind == "translate":
        check_translate(col, case["rows"], case["container"], case["label"])
    elif kind in ("genomic", "genomic-open"):
        with TmpDir() as tmp:
            b = GenomicBackends(tmp, [tuple(c) for c in case["chroms"]], case["width"], "replay")
            try:
                if kind == "genomic":
                    check_genomic(col, b, case["path"], [tuple(iv) for iv in case["intervals"]])
            finally:
                b.close()
    elif kind in ("genomic_order", "genomic_order-open"):
        with TmpDir() as tmp:
            g = OrderedGenome(tmp, case["spec"], "replay")
            try:
                if kind == "genomic_order":
                    check_genomic_order(col, g, case["path"], [tuple(iv) for iv in case["intervals"]])
            finally:
                g.close()
    elif kind == "rc_codes":
        check_rc_codes(col, case)
    elif kind == "strand_codes":
        check_strand_specific_codes(col, case)
    elif kind in ("genomic_codes", "genomic_codes-open"):
        b = CodesDictBackend(case["spec"])
        if kind == "genomic_codes":
            check_genomic_codes(col, b, case["path"], [tuple(iv) for iv in case["intervals"]])
    else:
        return False, "unknown case kind %r" % (kind,)
    if col.failures:
        return False, "; ".join(f["signature"] + ": " + f["message"] for f in col.failures)
    return True, "ok"
