"""Reference serialisers for property C03, written from the public format descriptions only (BED / bedGraph /
narrowPeak / GTF / SAM / VCF: one record per line, TAB separated columns, VCF POS 1-based; FASTA: '>name', then the
sequence wrapped at a fixed width; FASTQ: '@name', sequence, '+', quality as Phred+33 characters).

Nothing here imports bionumpy.  A *row* is a list of plain Python values, one per field of the type, in the order of
`fields`.  Field kinds:
    id, str, strand, seq : str          written verbatim
    int                  : int          written as decimal (str(int))
    vcfpos               : int          0-based in the table, written 1-based
    bool                 : bool         written as 1 / 0
    float                : float        any decimal text that parses back to the value (compared numerically)
    intlist              : list[int]    comma joined
    qual                 : str          Phred+33 text; the table holds the scores ord(c)-33
"""
import math


class Spec:
    def __init__(self, name, cls, suffix, fields, layout="tsv", buffer=None, sep="\t", header=None, read_cls=None):
        self.name, self.cls, self.suffix, self.fields = name, cls, suffix, fields
        self.layout, self.buffer, self.sep, self.header = layout, buffer, sep, header
        self.has_float = any(k == "float" for _, k in fields)

    def index(self, fname):
        return [n for n, _ in self.fields].index(fname)


_BED3 = [("chromosome", "id"), ("start", "int"), ("stop", "int")]
_BED6 = _BED3 + [("name", "id"), ("score", "int"), ("strand", "strand")]

SPECS = {s.name: s for s in [
    Spec("interval", "Interval", ".bed", _BED3),
    Spec("bed6", "Bed6", ".bed", _BED6, buffer="Bed6Buffer"),
    Spec("bed12", "Bed12", ".bed", _BED6 + [("thick_start", "int"), ("thick_end", "int"), ("item_rgb", "str"),
                                             ("block_count", "int"), ("block_sizes", "intlist"),
                                             ("block_starts", "intlist")], buffer="Bed12Buffer"),
    Spec("bedgraph", "BedGraph", ".bdg", _BED3 + [("value", "float")]),
    Spec("narrowpeak", "NarrowPeak", ".narrowPeak", _BED6 + [("signal_value", "float"), ("p_value", "float"),
                                                             ("q_value", "float"), ("summit", "int")]),
    Spec("fasta", "SequenceEntry", ".fa", [("name", "id"), ("sequence", "seq")], layout="fasta80"),
    Spec("fasta2", "SequenceEntry", ".fa", [("name", "id"), ("sequence", "seq")], layout="fasta2",
         buffer="TwoLineFastaBuffer"),
    Spec("fastq", "SequenceEntryWithQuality", ".fq", [("name", "id"), ("sequence", "seq"), ("quality", "qual")],
         layout="fastq"),
    Spec("vcf", "VCFWithInfoAsStringEntry", ".vcf",
         [("chromosome", "id"), ("position", "vcfpos"), ("id", "str"), ("ref_seq", "str"), ("alt_seq", "str"),
          ("quality", "str"), ("filter", "str"), ("info", "str")], header="vcf"),
    # the same table built as the library's declared VCF entry type (its `info` field is typed Union[dataclass, str])
    Spec("vcfentry", "VCFEntry", ".vcf",
         [("chromosome", "id"), ("position", "vcfpos"), ("id", "str"), ("ref_seq", "str"), ("alt_seq", "str"),
          ("quality", "str"), ("filter", "str"), ("info", "str")], header="vcf"),
    Spec("sam", "SAMEntry", ".sam",
         [("name", "id"), ("flag", "int"), ("chromosome", "id"), ("position", "int"), ("mapq", "int"),
          ("cigar", "str"), ("next_chromosome", "str"), ("next_position", "int"), ("length", "int"),
          ("sequence", "str"), ("quality", "str"), ("extra", "str")]),
    Spec("gtf", "GTFEntry", ".gtf",
         [("chromosome", "id"), ("source", "str"), ("feature_type", "id"), ("start", "int"), ("stop", "int"),
          ("score", "str"), ("strand", "strand"), ("phase", "str"), ("atributes", "str")]),
    # generic delimited table with a column-name header line (get_bufferclass_for_datatype(..., has_header=True))
    Spec("custom_tsv", "custom", ".tsv", [("name", "str"), ("count", "int"), ("flag", "bool"), ("ratio", "float"),
                                          ("tags", "intlist")], buffer="custom", header="columns"),
    Spec("custom_csv", "custom", ".csv", [("name", "str"), ("count", "int"), ("flag", "bool"), ("ratio", "float")],
         buffer="custom", sep=",", header="columns"),
]}


def field_text(kind, v):
    """canonical text of one field; None for a float (compared numerically)"""
    if kind in ("id", "str", "strand", "seq", "qual"):
        return v
    if kind == "int":
        return str(int(v))
    if kind == "vcfpos":
        return str(int(v) + 1)
    if kind == "bool":
        return "1" if v else "0"
    if kind == "intlist":
        return ",".join(str(int(x)) for x in v)
    if kind == "float":
        return None
    raise ValueError(kind)


MIN_NORMAL = 2.2250738585072014e-308        # smallest normal double; below it doubles lose relative precision


def float_close(a, b):
    """equal to printing precision: 1e-9 relative; for magnitudes below the smallest normal double (where the
    spacing of doubles is absolute, 5e-324) the tolerance stays that of the smallest normal"""
    if a == b:
        return True
    return math.isfinite(a) and math.isfinite(b) and abs(a - b) <= 1e-9 * max(abs(a), abs(b), MIN_NORMAL)


def wrap(seq, width):
    return [seq[i:i + width] for i in range(0, len(seq), width)]


def serialise(spec, rows, fasta_width=80):
    """canonical body bytes (no header).  For types with float columns the floats are printed with repr(); use
    body_matches() to compare such bodies (it compares float columns numerically)."""
    out = []
    if spec.layout == "tsv":
        for r in rows:
            toks = []
            for (_, kind), v in zip(spec.fields, r):
                t = field_text(kind, v)
                toks.append(repr(float(v)) if t is None else t)
            out.append(spec.sep.join(toks) + "\n")
    elif spec.layout == "fasta80":
        for name, seq in rows:
            out.append(">" + name + "\n")
            for line in wrap(seq, fasta_width):
                out.append(line + "\n")
    elif spec.layout == "fasta2":
        for name, seq in rows:
            out.append(">" + name + "\n" + seq + "\n")
    elif spec.layout == "fastq":
        for name, seq, qual in rows:
            out.append("@" + name + "\n" + seq + "\n+\n" + qual + "\n")
    else:
        raise ValueError(spec.layout)
    return "".join(out).encode("ascii")


def body_matches(spec, rows, got, fasta_width=None):
    """is `got` (bytes) a canonical serialisation of rows?  -> (ok, message)"""
    exp = serialise(spec, rows, fasta_width or 80)
    if not spec.has_float:
        if got == exp:
            return True, ""
        return False, "got %r expected %r" % (got[:300], exp[:300])
    # float columns: record/column structure exact, float fields numerically
    if got == exp:
        return True, ""
    try:
        text = got.decode("ascii")
    except UnicodeDecodeError:
        return False, "non-ascii output %r" % (got[:200],)
    if text and not text.endswith("\n"):
        return False, "last record not newline-terminated: %r" % (got[-80:],)
    lines = text.split("\n")[:-1] if text else []
    if len(lines) != len(rows):
        return False, "%d records written, %d expected: %r" % (len(lines), len(rows), got[:300])
    for i, (line, r) in enumerate(zip(lines, rows)):
        toks = line.split(spec.sep)
        if len(toks) != len(spec.fields):
            return False, "record %d has %d columns, expected %d: %r" % (i, len(toks), len(spec.fields), line)
        for tok, (fname, kind), v in zip(toks, spec.fields, r):
            t = field_text(kind, v)
            if t is None:
                try:
                    x = float(tok)
                except ValueError:
                    return False, "record %d column %s: %r is not a number" % (i, fname, tok)
                if tok != tok.strip() or not float_close(x, float(v)):
                    return False, "record %d column %s: %r written for %r" % (i, fname, tok, v)
            elif tok != t:
                return False, "record %d column %s: %r written, expected %r" % (i, fname, tok, t)
    return True, ""


def expected_columns(spec, rows):
    """the table as plain Python columns, as reading the file back must return them"""
    cols = {}
    for i, (fname, kind) in enumerate(spec.fields):
        vals = [r[i] for r in rows]
        if kind == "qual":
            vals = [[ord(c) - 33 for c in v] for v in vals]
        elif kind == "intlist":
            vals = [[int(x) for x in v] for v in vals]
        elif kind in ("int", "vcfpos"):
            vals = [int(v) for v in vals]
        elif kind == "bool":
            vals = [bool(v) for v in vals]
        elif kind == "float":
            vals = [float(v) for v in vals]
        cols[fname] = vals
    return cols


def column_equal(kind, got, exp):
    if kind == "float":
        return len(got) == len(exp) and all(float_close(float(a), float(b)) for a, b in zip(got, exp))
    return got == exp


def split_header(spec, data, marker):
    """split written bytes into (header_lines, body_bytes): header lines are the lines starting with `marker`
    (only meaningful for formats whose records never start with it)"""
    lines = data.split(b"\n")
    tail = lines.pop() if lines else b""
    head = [l for l in lines if l.startswith(marker)]
    body = [l for l in lines if not l.startswith(marker)]
    return head, b"".join(l + b"\n" for l in body) + tail
