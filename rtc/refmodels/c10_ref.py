"""Reference model for C10: single-contig operations in plain Python, applied per chromosome.

Everything here works on plain lists/tuples; nothing imports bionumpy.  An interval is (start, stop) half open,
0 <= start < stop <= size unless a function says otherwise.
"""

COMP = {"A": "T", "C": "G", "G": "C", "T": "A", "N": "N"}


def included_names(genome, filt):
    """genome: list of (name, size); filt: 'keep' | 'ign' (names containing '_' are ignored)"""
    return [n for n, _ in genome if filt == "keep" or "_" not in n]


def mask(ivs, size):
    return [any(s <= p < e for s, e in ivs) for p in range(size)]


def pileup(ivs, size):
    return [sum(1 for s, e in ivs if s <= p < e) for p in range(size)]


def merge(ivs, distance=0):
    """overlapping, touching, or closer than/equal to `distance` -> one interval (bedtools merge -d semantics)"""
    out = []
    for s, e in sorted(ivs):
        if out and s <= out[-1][1] + distance:
            out[-1][1] = max(out[-1][1], e)
        else:
            out.append([s, e])
    return [tuple(x) for x in out]


def clip(iv, size):
    s, e = iv
    return (max(0, s), min(size, e))


def extend_to_size(iv, strand, length, size):
    s, e = iv
    if strand == "+":
        return (s, min(s + length, size))
    return (max(e - length, 0), e)


def windows_flank(p, flank, size):
    return [(max(0, p - flank), min(size, p + flank + 1))]


def windows_size(p, w, size):
    """acceptable windows of width w around p (for even w the side of the extra base is not specified)"""
    h = w // 2
    if w % 2:
        return [(max(0, p - h), min(size, p + h + 1))]
    return [(max(0, p - h), min(size, p + h)), (max(0, p - h + 1), min(size, p + h + 1))]


def location(iv, strand, where):
    """acceptable positions. strand None = unstranded"""
    s, e = iv
    if where == "center":
        return [(s + e) // 2]
    if strand is None:
        return [s] if where == "start" else [e - 1, e]
    five = s if strand == "+" else e - 1
    three = e - 1 if strand == "+" else s
    return [five] if where == "start" else [three]


def revcomp(seq):
    return "".join(COMP[c] for c in reversed(seq))


def runs(values):
    """maximal runs of equal values: list of (start, stop, value)"""
    out = []
    for i, v in enumerate(values):
        if out and out[-1][2] == v:
            out[-1][1] = i + 1
        else:
            out.append([i, i + 1, v])
    return [tuple(x) for x in out]


def offsets(sizes):
    out, acc = [], 0
    for s in sizes:
        out.append(acc)
        acc += s
    return out
