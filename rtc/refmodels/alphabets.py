"""Reference model for C06: what an alphabet encoding must accept and what the text must decode to.

Written from the property statement and the public format specifications only:
  * DNA  ACGT / ACTG (+ N), RNA ACUG, IUPAC amino acids + '*',
  * BAM 4-bit base codes  '=ACMGRSVTWYHKDBN'  (SAM spec 4.2),  CIGAR operations 'MIDNSHP=X' (SAM spec 1.4.6),
  * strand '+-.', decimal digits.
"Letters matched case-insensitively": a..z are equivalent to A..Z; every other byte only equals itself.
Nothing here imports or calls bionumpy.
"""

# name of the module-level object in bionumpy.encodings.alphabet_encoding -> alphabet as declared in the specs
ALPHABETS = {
    "ACGTEncoding": "ACGT",
    "ACTGEncoding": "ACTG",
    "ACGTnEncoding": "ACGTN",
    "ACTGnEncoding": "ACTGN",
    "ACUGEncoding": "ACUG",
    "AminoAcidEncoding": "ACDEFGHIKLMNPQRSTVWY*",
    "BamEncoding": "=ACMGRSVTWYHKDBN",
    "CigarOpEncoding": "MIDNSHP=X",
    "StrandEncoding": "+-.",
    "DigitEncoding": "0123456789",
}
# other public names of the same objects
ALIASES = {"DNAEncoding": "ACGTEncoding", "RNAENcoding": "ACUGEncoding"}


def up(b: int) -> int:
    """upper-case one byte: a..z -> A..Z, identity elsewhere"""
    return b - 32 if 97 <= b <= 122 else b


def is_letter_lower(b):
    return 97 <= b <= 122


def alphabet_bytes(alphabet: str):
    return [up(ord(c)) for c in alphabet]


def valid(b: int, alphabet: str) -> bool:
    return up(b) in alphabet_bytes(alphabet)


def all_valid(data, alphabet):
    ab = set(alphabet_bytes(alphabet))
    return all(up(b) in ab for b in data)


def expected_text(data):
    """the text the encoded data must decode to: upper-cased original, element for element"""
    return "".join(chr(up(b)) for b in data)


def foreign_bytes(data, alphabet):
    ab = set(alphabet_bytes(alphabet))
    return [b for b in data if up(b) not in ab]


def classify_foreign(fbytes, alphabet):
    """relation of wrongly accepted foreign bytes to the alphabet (used only to name the failure class)"""
    ab = set(alphabet_bytes(alphabet))
    if fbytes and all(((f - 32) % 256) in ab for f in fbytes):
        return "nonletter+32"          # byte = non-letter alphabet member + 32
    if fbytes and all(((f + 32) % 256) in ab for f in fbytes):
        return "member-32"
    if fbytes and all(f >= 128 for f in fbytes):
        return "high-byte"
    return "other"
