"""Reference model for C06: what an alphabet encoding must accept and what the text must decode to.

Written from the property statement and the public format specifications only:
  * DNA  ACGT / ACTG (+ N), RNA ACUG, IUPAC amino acids + '*',
  * BAM 4-bit base codes  '=ACMGRSVTWYHKDBN'  (SAM spec 4.2),  CIGAR operations 'MIDNSHP=X' (SAM spec 1.4.6),
  * strand '+-.', decimal digits.
"Letters matched case-insensitively": a..z are equivalent to A..Z; every other byte only equals itself.
Nothing here imports or calls bionumpy.
"""

# name of the module-level object in bionumpy.encodings.alphabet_encoding -> alphabet as declared in the specs
ALPHABETS = {
    "ACGTEncoding": "ACGT",
    "ACTGEncoding": "ACTG",
    "ACGTnEncoding": "ACGTN",
    "ACTGnEncoding": "ACTGN",
    "ACUGEncoding": "ACUG",
    "AminoAcidEncoding": "ACDEFGHIKLMNPQRSTVWY*",
    "BamEncoding": "=ACMGRSVTWYHKDBN",
    "CigarOpEncoding": "MIDNSHP=X",
    "StrandEncoding": "+-.",
    "DigitEncoding": "0123456789",
}
# other public names of the same objects
ALIASES = {"DNAEncoding": "ACGTEncoding", "RNAENcoding": "ACUGEncoding"}


def up(b: int) -> int:
    """upper-case one byte: a..z -> A..Z, identity elsewhere"""
    return b - 32 if 97 <= b <= 122 else b


def is_letter_lower(b):
    return 97 <= b <= 122


def alphabet_bytes(alphabet: str):
    return [up(ord(c)) for c in alphabet]


def valid(b: int, alphabet: str) -> bool:
    return up(b) in alphabet_bytes(alphabet)


def all_valid(data, alphabet):
    ab = set(alphabet_bytes(alphabet))
    return all(up(b) in ab for b in data)


def expected_text(data):
    """the text the encoded data must decode to: upper-cased original, element for element"""
    return "".join(chr(up(b)) for b in data)


def foreign_bytes(data, alphabet):
    ab = set(alphabet_bytes(alphabet))
    return [b for b in data if up(b) not in ab]


def classify_foreign(fbytes, alphabet):
    """relation of wrongly accepted foreign bytes to the alphabet (used only to name the failure class)"""
    ab = set(alphabet_bytes(alphabet))
    if fbytes and all(((f - 32) % 256) in ab for f in fbytes):
        return "nonletter+32"          # byte = non-letter alphabet member + 32
    if fbytes and all(((f + 32) % 256) in ab for f in fbytes):
        return "member-32"
    if fbytes and all(f >= 128 for f in fbytes):
        return "high-byte"
    return "other"


# ---------------------------------------------------------------------------------------------------- row views
# Model of "an earlier indexing step" on a list of rows (or on one flat sequence), in plain Python list semantics.
# A view is a list of steps, each step one subscription  a[rows]  or  a[rows, c0:c1]:
#     {"rows": ["all"] | ["slice", start, stop, step] | ["list", [i, ..]] | ["array", [i, ..]] | ["mask", [0/1, ..]],
#      "cols": None | [c0, c1]}
# "list" / "array" (python list / integer ndarray as the subscript) select, reorder and repeat rows, negative
# numbers count from the end; "mask" keeps the rows whose flag is set; "cols" trims every selected row to r[c0:c1].
def select_rows(rows, spec):
    kind = spec[0]
    if kind == "all":
        return list(rows)
    if kind == "slice":
        return list(rows[slice(spec[1], spec[2], spec[3])])
    if kind in ("list", "array"):
        return [rows[i] for i in spec[1]]
    if kind == "mask":
        assert len(spec[1]) == len(rows), "a mask has one flag per row"
        return [r for r, m in zip(rows, spec[1]) if m]
    raise KeyError(kind)


def apply_view(rows, steps):
    """rows: list of rows (each a list of bytes) -> the rows the view stands for"""
    rows = [list(r) for r in rows]
    for st in steps:
        rows = select_rows(rows, st["rows"])
        if st.get("cols") is not None:
            c0, c1 = st["cols"]
            rows = [r[slice(c0, c1)] for r in rows]
    return rows


def apply_view_flat(data, steps):
    """the same for one flat sequence of bytes (no column step)"""
    data = list(data)
    for st in steps:
        assert st.get("cols") is None
        data = select_rows(data, st["rows"])
    return data


# ---------------------------------------------------------------------------------------------------- characters beyond 8 bits
# Text handed over as python str (str, list of str, numpy string arrays, pandas Series) can hold characters that are no byte at
# all.  None of them is a member of any alphabet (all alphabets are ASCII); the dangerous ones are those whose code point,
# cut to 8 or 16 bits, IS a member (or the lower-case twin of a member): 'A' + 0x100 = U+0141, 'a' + 0x10000 = U+10061 ...
SURROGATES = range(0xD800, 0xE000)
MAX_CODE_POINT = 0x10FFFF


def case_twins(alphabet):
    """the bytes an alphabet encoding accepts: the members and the lower-case twins of its letters (ascending)"""
    out = set()
    for m in alphabet_bytes(alphabet):
        out.add(m)
        if 65 <= m <= 90:
            out.add(m + 32)
    return sorted(out)


def wide_points(alphabet, offsets):
    """[(code point, accepted byte it truncates to)]: member / twin + offset, for offsets that are multiples of 256"""
    out = []
    for b in case_twins(alphabet):
        for off in offsets:
            cp = b + off
            assert off % 256 == 0 and off > 0
            if cp <= MAX_CODE_POINT and cp not in SURROGATES:
                out.append((cp, b))
    return out


def classify_wide(fpoints, alphabet):
    """relation of wrongly accepted characters >= 256 to the alphabet (used only to name the failure class)"""
    w = [f for f in fpoints if f >= 256]
    if w and all(valid(f % 256, alphabet) for f in w):
        return "truncated-code-point-in-alphabet"       # cut to 8 bits (hence also: to 16 bits, if that is below 256) a member
    return "other"
