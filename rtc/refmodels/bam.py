"""Independent spec-level BAM encoder / decoder (SAM/BAM specification, "SAMv1", sections 4.1 BGZF and 4.2 BAM).

Written from the specification only (struct + zlib); nothing here imports bionumpy.

A record is a plain dict (JSON-able):
    ref       int    refID, -1 = unmapped / no reference
    pos       int    0-based leftmost position, -1 = none
    name      str    read name, 1..254 printable characters (stored NUL terminated, l_read_name = len+1)
    mapq      int    0..255
    flag      int    0..65535
    cigar     list of [op_char, length]   op_char in "MIDNSHP=X", length < 2**28
    seq       str    over "=ACMGRSVTWYHKDBN"
    qual      list of int (len == len(seq)), phred values
    next_ref  int    (default -1)
    next_pos  int    (default -1)
    tlen      int    (default 0)
    tags      str    hex string of the raw optional-field bytes (default "")
"""
import gzip
import struct
import zlib

SEQ_CODE = "=ACMGRSVTWYHKDBN"      # spec 4.2: 4-bit encoded read
CIGAR_CODE = "MIDNSHP=X"           # spec 4.2: op -> 0..8
REF_CONSUMING = "MDN=X"            # spec 1.4.6 table: operations that consume the reference

# spec 4.1.2: the 28-byte empty BGZF block that marks end of file
BGZF_EOF = bytes.fromhex("1f8b08040000000000ff0600424302001b0003000000000000000000")


# ------------------------------------------------------------------------------------------------- reference length
def reference_length(cigar):
    return sum(n for op, n in cigar if op in REF_CONSUMING)


def reg2bin(beg, end):
    """spec 5.3 (C code transcribed)"""
    end -= 1
    if beg >> 14 == end >> 14:
        return ((1 << 15) - 1) // 7 + (beg >> 14)
    if beg >> 17 == end >> 17:
        return ((1 << 12) - 1) // 7 + (beg >> 17)
    if beg >> 20 == end >> 20:
        return ((1 << 9) - 1) // 7 + (beg >> 20)
    if beg >> 23 == end >> 23:
        return ((1 << 6) - 1) // 7 + (beg >> 23)
    if beg >> 26 == end >> 26:
        return ((1 << 3) - 1) // 7 + (beg >> 26)
    return 0


def record_bin(rec):
    pos = rec["pos"]
    if pos < 0:
        return 4680  # reg2bin(-1, 0)
    rl = reference_length(rec.get("cigar", []))
    end = pos + (rl if rl > 0 else 1)
    return reg2bin(pos, end) & 0xFFFF


# ------------------------------------------------------------------------------------------------- encoder
def encode_record(rec):
    """one alignment: block_size followed by the block (spec 4.2 table)"""
    name = rec["name"].encode("ascii")
    assert 1 <= len(name) <= 254 and 0 not in name
    seq = rec.get("seq", "")
    qual = list(rec.get("qual", []))
    assert len(qual) == len(seq)
    cigar = rec.get("cigar", [])
    assert len(cigar) <= 0xFFFF
    tags = bytes.fromhex(rec.get("tags", ""))
    fixed = struct.pack("<iiBBHHHIiii",
                        rec["ref"], rec["pos"], len(name) + 1, rec.get("mapq", 0), record_bin(rec), len(cigar),
                        rec.get("flag", 0), len(seq), rec.get("next_ref", -1), rec.get("next_pos", -1),
                        rec.get("tlen", 0))
    assert len(fixed) == 32
    cig = b"".join(struct.pack("<I", (n << 4) | CIGAR_CODE.index(op)) for op, n in cigar)
    codes = [SEQ_CODE.index(c) for c in seq]
    if len(codes) % 2:
        codes.append(0)          # spec: the low nibble of the last byte is unspecified padding (0)
    packed = bytes((codes[i] << 4) | codes[i + 1] for i in range(0, len(codes), 2))
    block = fixed + name + b"\0" + cig + packed + bytes(qual) + tags
    return struct.pack("<i", len(block)) + block


def encode_header(refs, text=""):
    """refs: list of (name, length)"""
    t = text.encode("ascii")
    out = b"BAM\1" + struct.pack("<i", len(t)) + t + struct.pack("<i", len(refs))
    for name, length in refs:
        n = name.encode("ascii") + b"\0"
        out += struct.pack("<i", len(n)) + n + struct.pack("<i", length)
    return out


def sam_header_text(refs):
    return "@HD\tVN:1.6\tSO:unsorted\n" + "".join("@SQ\tSN:%s\tLN:%d\n" % (n, l) for n, l in refs)


def encode_uncompressed(refs, records, text=None):
    if text is None:
        text = sam_header_text(refs)
    return encode_header(refs, text) + b"".join(encode_record(r) for r in records)


def bgzf_block(payload, level=6):
    """one BGZF block (spec 4.1): gzip member with the 'BC' extra subfield holding BSIZE = total size - 1"""
    assert len(payload) <= 0xFF00
    co = zlib.compressobj(level, zlib.DEFLATED, -15)
    cdata = co.compress(payload) + co.flush()
    bsize = 12 + 6 + len(cdata) + 8
    head = struct.pack("<BBBBIBBH", 31, 139, 8, 4, 0, 0, 255, 6) + struct.pack("<BBHH", 66, 67, 2, bsize - 1)
    return head + cdata + struct.pack("<II", zlib.crc32(payload) & 0xFFFFFFFF, len(payload) & 0xFFFFFFFF)


def bgzf(data, block_payload=0xFF00, eof=True, level=6):
    """BGZF file: the data cut into blocks of `block_payload` uncompressed bytes, then the EOF marker block"""
    out = bytearray()
    for i in range(0, len(data), block_payload):
        out += bgzf_block(data[i:i + block_payload], level)
    if eof:
        out += BGZF_EOF
    return bytes(out)


def encode_bam(refs, records, text=None, block_payload=0xFF00, eof=True):
    return bgzf(encode_uncompressed(refs, records, text), block_payload, eof)


# ------------------------------------------------------------------------------------------------- decoder
def gunzip_members(data):
    """concatenated gzip members (BGZF blocks are gzip members) -> uncompressed bytes"""
    return gzip.decompress(data)


def check_bgzf_framing(data):
    """-> (n_blocks, ends_with_eof_marker, all_members_have_BC_field).  Walks gzip members with zlib."""
    n = 0
    all_bc = True
    pos = 0
    while pos < len(data):
        d = zlib.decompressobj(31)
        d.decompress(data[pos:])
        assert d.eof, "truncated gzip member"
        used = len(data) - pos - len(d.unused_data)
        flg = data[pos + 3]
        has_bc = False
        if flg & 4:
            xlen = struct.unpack_from("<H", data, pos + 10)[0]
            extra = data[pos + 12:pos + 12 + xlen]
            i = 0
            while i + 4 <= len(extra):
                si1, si2, slen = extra[i], extra[i + 1], struct.unpack_from("<H", extra, i + 2)[0]
                if (si1, si2, slen) == (66, 67, 2):
                    has_bc = struct.unpack_from("<H", extra, i + 4)[0] + 1 == used
                i += 4 + slen
        all_bc = all_bc and has_bc
        pos += used
        n += 1
    return n, data.endswith(BGZF_EOF), all_bc


def decode_uncompressed(raw):
    """-> (text, refs, records); every record also carries 'bin' as stored"""
    assert raw[:4] == b"BAM\1", raw[:4]
    p = 4
    (l_text,) = struct.unpack_from("<i", raw, p)
    p += 4
    text = raw[p:p + l_text].decode("ascii")
    p += l_text
    (n_ref,) = struct.unpack_from("<i", raw, p)
    p += 4
    refs = []
    for _ in range(n_ref):
        (l_name,) = struct.unpack_from("<i", raw, p)
        p += 4
        name = raw[p:p + l_name]
        assert name[-1:] == b"\0"
        p += l_name
        (l_ref,) = struct.unpack_from("<i", raw, p)
        p += 4
        refs.append((name[:-1].decode("ascii"), l_ref))
    records = []
    while p < len(raw):
        (block_size,) = struct.unpack_from("<i", raw, p)
        p += 4
        end = p + block_size
        assert end <= len(raw), "truncated record"
        (ref, pos, l_read_name, mapq, bin_, n_cigar, flag, l_seq, next_ref, next_pos, tlen) = \
            struct.unpack_from("<iiBBHHHIiii", raw, p)
        q = p + 32
        name = raw[q:q + l_read_name]
        assert name[-1:] == b"\0"
        q += l_read_name
        cigar = []
        for (c,) in struct.iter_unpack("<I", raw[q:q + 4 * n_cigar]):
            cigar.append([CIGAR_CODE[c & 0xF], c >> 4])
        q += 4 * n_cigar
        nb = (l_seq + 1) // 2
        seq = "".join(SEQ_CODE[b >> 4] + SEQ_CODE[b & 0xF] for b in raw[q:q + nb])[:l_seq]
        q += nb
        qual = list(raw[q:q + l_seq])
        q += l_seq
        assert q <= end
        records.append({"ref": ref, "pos": pos, "name": name[:-1].decode("ascii"), "mapq": mapq, "flag": flag,
                        "cigar": cigar, "seq": seq, "qual": qual, "next_ref": next_ref, "next_pos": next_pos,
                        "tlen": tlen, "tags": raw[q:end].hex(), "bin": bin_})
        p = end
    return text, refs, records


def decode_bam(data):
    return decode_uncompressed(gunzip_members(data))


def normalise(rec):
    """record with all defaults filled in (for comparisons with decoder output)"""
    return {"ref": rec["ref"], "pos": rec["pos"], "name": rec["name"], "mapq": rec.get("mapq", 0),
            "flag": rec.get("flag", 0), "cigar": [[op, n] for op, n in rec.get("cigar", [])],
            "seq": rec.get("seq", ""), "qual": list(rec.get("qual", [])), "next_ref": rec.get("next_ref", -1),
            "next_pos": rec.get("next_pos", -1), "tlen": rec.get("tlen", 0), "tags": rec.get("tags", "")}


def selfcheck():
    """encoder/decoder agree with each other and the BGZF framing is readable by Biopython's independent reader"""
    import io
    refs = [("chr1", 1000), ("c2", 5)]
    recs = [
        {"ref": 0, "pos": 3, "name": "r1", "mapq": 60, "flag": 16, "cigar": [["M", 3], ["D", 2], ["S", 1]],
         "seq": "ACGN", "qual": [0, 1, 93, 40], "tags": "4e4d4305"},
        {"ref": -1, "pos": -1, "name": "x" * 254, "flag": 4, "seq": "=AC", "qual": [1, 2, 3]},
        {"ref": 1, "pos": 0, "name": "q", "cigar": [], "seq": "", "qual": []},
    ]
    raw = encode_uncompressed(refs, recs)
    for payload in (7, 64, 0xFF00):
        data = bgzf(raw, payload)
        t, r, d = decode_bam(data)
        assert r == refs and t == sam_header_text(refs)
        assert [{k: v for k, v in x.items() if k != "bin"} for x in d] == [normalise(x) for x in recs]
        nblocks, eof, bc = check_bgzf_framing(data)
        assert eof and bc and nblocks == -(-len(raw) // payload) + 1
        try:
            from Bio import bgzf as biobgzf
        except Exception:
            continue
        h = biobgzf.BgzfReader(fileobj=io.BytesIO(data), mode="rb")
        got = h.read(len(raw) + 10)
        assert got == raw, "Bio.bgzf reads something else"
    # byte-level spot check against the spec table for a hand-computed record
    one = encode_record({"ref": 1, "pos": 2, "name": "ab", "mapq": 7, "flag": 0x0110, "cigar": [["M", 2], ["I", 1]],
                         "seq": "ACG", "qual": [10, 20, 30]})
    expect = (struct.pack("<i", 32 + 3 + 8 + 2 + 3) + struct.pack("<i", 1) + struct.pack("<i", 2) + bytes([3, 7])
              + struct.pack("<H", 4681) + struct.pack("<H", 2) + struct.pack("<H", 0x0110) + struct.pack("<I", 3)
              + struct.pack("<iii", -1, -1, 0) + b"ab\0" + struct.pack("<II", 0x20, 0x11) + bytes([0x12, 0x40])
              + bytes([10, 20, 30]))
    assert one == expect, (one, expect)
    return True
