"""Reference BAM encoder written from the SAM/BAM specification (SAMv1.pdf, section 4): used by enum_c04 to
build small well-formed BAM files with records of unequal length and to know the exact bytes of every record.
No bionumpy code is used here.
"""
import gzip
import struct
import zlib

SEQ_CODES = "=ACMGRSVTWYHKDBN"
CIGAR_OPS = "MIDNSHP=X"
BGZF_EOF = bytes.fromhex("1f8b08040000000000ff0600424302001b0003000000000000000000")


def reg2bin(beg, end):
    end -= 1
    if beg >> 14 == end >> 14:
        return ((1 << 15) - 1) // 7 + (beg >> 14)
    if beg >> 17 == end >> 17:
        return ((1 << 12) - 1) // 7 + (beg >> 17)
    if beg >> 20 == end >> 20:
        return ((1 << 9) - 1) // 7 + (beg >> 20)
    if beg >> 23 == end >> 23:
        return ((1 << 6) - 1) // 7 + (beg >> 23)
    if beg >> 26 == end >> 26:
        return ((1 << 3) - 1) // 7 + (beg >> 26)
    return 0


def encode_header(text, refs):
    """text: SAM header text (str); refs: list of (name, length) -> bytes of the BAM header section"""
    t = text.encode()
    out = b"BAM\x01" + struct.pack("<i", len(t)) + t + struct.pack("<i", len(refs))
    for name, length in refs:
        n = name.encode() + b"\x00"
        out += struct.pack("<i", len(n)) + n + struct.pack("<i", length)
    return out


def encode_record(ref_id, pos, mapq, flag, name, cigar, seq, qual, next_ref_id=-1, next_pos=-1, tlen=0, tags=b""):
    """cigar: list of (op_char, length); seq: str over SEQ_CODES; qual: list of ints (or None -> 0xff);
    tags: already encoded optional fields.  Returns the full record including the leading block_size."""
    rname = name.encode() + b"\x00"
    ref_len = sum(l for op, l in cigar if op in "MDN=X")
    end = pos + (ref_len if ref_len > 0 else 1)
    cig = b"".join(struct.pack("<I", (l << 4) | CIGAR_OPS.index(op)) for op, l in cigar)
    codes = [SEQ_CODES.index(c) for c in seq]
    if len(codes) % 2:
        codes.append(0)
    packed = bytes((codes[i] << 4) | codes[i + 1] for i in range(0, len(codes), 2))
    q = bytes([0xff] * len(seq)) if qual is None else bytes(qual)
    assert len(q) == len(seq)
    body = struct.pack("<iiBBHHHiiii", ref_id, pos, len(rname), mapq, reg2bin(max(pos, 0), max(end, 1)), len(cigar), flag,
                       len(seq), next_ref_id, next_pos, tlen) + rname + cig + packed + q + tags
    return struct.pack("<i", len(body)) + body


def tag_int(tag, value):
    return tag.encode() + b"i" + struct.pack("<i", value)


def tag_str(tag, value):
    return tag.encode() + b"Z" + value.encode() + b"\x00"


def tag_char(tag, value):
    return tag.encode() + b"A" + value.encode()


def bgzf_block(data):
    assert len(data) < 65000
    c = zlib.compressobj(6, zlib.DEFLATED, -15)
    comp = c.compress(data) + c.flush()
    bsize = len(comp) + 25
    return (b"\x1f\x8b\x08\x04\x00\x00\x00\x00\x00\xff\x06\x00BC\x02\x00" + struct.pack("<H", bsize) + comp +
            struct.pack("<II", zlib.crc32(data) & 0xffffffff, len(data)))


def bgzf_compress(data, block_size=200):
    """BGZF: a series of gzip members, each with the BC extra field, followed by the EOF marker.  A small block
    size is used on purpose so that records straddle block boundaries."""
    out = b""
    for i in range(0, len(data), block_size):
        out += bgzf_block(data[i:i + block_size])
    return out + BGZF_EOF


def decompress(data):
    """all gzip members concatenated (a BGZF file is a multi-member gzip file)"""
    return gzip.decompress(data)
