"""Reference generators for C01: well-formed small files of every text format together with the entries they
contain (plain Python values, written down from the format definitions - no bionumpy involved).

An entry is described by (index i, size class s) with s in {1, 2, 5}: s scales every variable-length field (names,
sequences, digit counts), i makes entries pairwise different (so loss, duplication and reordering are all visible).
Two further size classes exist for the formats that allow them (spec.size_classes):
    0  (ZERO)  the variable-length fields that the format allows to be EMPTY are empty: FASTA / FASTQ records of a
               zero-length read (name of 1 letter, empty sequence line, empty quality line: '@a\n\n+\n\n', '>a\n\n')
    9  (WIDE)  delimited formats: text fields as short as in class 1, but every coordinate-like integer column has
               9 digits, so that one column holds numbers of width 1 and 9 in the same file ('a\t2\t3' next to
               'b\t234567890\t345678901')

    spec = FORMATS[name]
    lines, ref = spec.entry(i, s)       # text lines of the entry (no line ends), tuple of reference field values
    spec.header                         # list of header lines (no line ends)
    spec.fields                         # attribute names compared, in the order of `ref`
    build(name, sizes, final_newline, crlf) -> (data: bytes, body_offset: int, entry_bytes: [bytes], refs: [tuple])
"""

LET = "abcdefghijklmnopqrstuvwxyz"
ACGT = "ACGT"


def word(n, i, salt=0):
    """n letters, the first one identifies the entry"""
    return "".join(LET[(i * 5 + salt * 3 + j * (j + 1 + salt)) % 26] if j else LET[(i + 7 * salt) % 26] for j in range(n))


def num(nd, i, salt=0):
    """an nd-digit decimal number without leading zero, different for different i"""
    ds = [str((i + 1 + salt + 3 * j) % 10) for j in range(nd)]
    if ds[0] == "0" and nd > 1:
        ds[0] = "7"
    return "".join(ds)


def seq(n, i, salt=0):
    return "".join(ACGT[(i + salt + j * (j + 3)) % 4] for j in range(n))


def qual(n, i):
    # phred+33 characters; entry 1 starts with '@' and entry 2 with '+' (legal quality characters that look like
    # the record markers)
    chars = "!#5?I"
    q = "".join(chars[(i + j) % 5] for j in range(n))
    if n and i % 4 == 1:
        q = "@" + q[1:]
    if n and i % 4 == 2:
        q = "+" + q[1:]
    return q


FLOATS = {1: ["1", "2", "3", "4"], 2: ["0.5", "1.5", "2.5", "3.5"], 5: ["10.25", "11.25", "-12.5", "13.75"]}


ZERO, WIDE = 0, 9


def tw(s):
    """size of the text fields of an entry of size class s"""
    return 1 if s == WIDE else s


def nsc(s):
    """digits of a BED score (0..1000 by the format definition; the classic class 5 predates this rule)"""
    return 3 if s == WIDE else s


class Spec:
    def __init__(self, name, suffix, fields, entry, header=(), buffer_type=None, float_fields=()):
        self.name, self.suffix, self.fields, self.entry = name, suffix, fields, entry
        self.header = list(header)
        self.buffer_type = buffer_type      # attribute name in bionumpy.io.* to pass as buffer_type (None: by suffix)
        self.float_fields = set(float_fields)
        self.size_classes = (1, 2, 5)       # + ZERO / WIDE where the format allows them (set below)


def _fasta(width):
    def entry(i, s):
        name = word(max(s, 1), i) if s < 5 else word(2, i) + " " + word(2, i, 1)      # s=5: header with a description
        sq = seq(s, i)
        w = width or max(len(sq), 1)
        # s=0: a zero-length sequence is one empty sequence line
        return [">" + name] + ([sq[a:a + w] for a in range(0, len(sq), w)] or [""]), (name, sq)
    return entry


def _fastq(i, s):
    name, sq, q = word(max(s, 1), i), seq(s, i), qual(s, i)          # s=0: zero-length read
    return ["@" + name, sq, "+", q], (name, sq, [ord(c) - 33 for c in q])


def _bed3(i, s):
    c, a, b = word(tw(s), i), num(s, i), num(s, i, 1)
    return ["\t".join((c, a, b))], (c, int(a), int(b))


def _bed6(i, s):
    c, a, b, n, sc, st = word(tw(s), i), num(s, i), num(s, i, 1), word(tw(s), i, 2), num(nsc(s), i, 2), "+-."[(i + s) % 3]
    return ["\t".join((c, a, b, n, sc, st))], (c, int(a), int(b), n, int(sc), st)


def _bdg(i, s):
    c, a, b, v = word(tw(s), i), num(s, i), num(s, i, 1), FLOATS[tw(s)][i % 4]
    return ["\t".join((c, a, b, v))], (c, int(a), int(b), float(v))


def _narrowpeak(i, s):
    c, a, b = word(tw(s), i), num(s, i), num(s, i, 1)
    n = "." if tw(s) == 1 else word(s, i, 2)
    sc, st = num(nsc(s), i, 2), "+-."[(i + s) % 3]
    t = tw(s)
    sig, p, q, summit = FLOATS[t][i % 4], FLOATS[t][(i + 1) % 4], "-1" if t == 1 else FLOATS[t][(i + 2) % 4], num(s, i, 3)
    return (["\t".join((c, a, b, n, sc, st, sig, p, q, summit))],
            (c, int(a), int(b), n, int(sc), st, float(sig), float(p), float(q), int(summit)))


def _vcf(extra_cols):
    def entry(i, s):
        c, pos = word(tw(s), i), num(s, i)
        if int(pos) == 0:
            pos = "1"
        s = tw(s)                                 # WIDE: only POS is wide
        vid = "." if s == 1 else "rs" + num(s - 1, i, 1)
        ref = seq(s, i)
        alt = seq(1, i, 1) if s < 5 else seq(2, i, 1) + "," + seq(2, i, 2)
        q = "." if s == 1 else num(s, i, 2)
        flt = {1: ".", 2: "q" + str(i), 5: "PASS"}[s]
        info = {1: ".", 2: "DP=%d" % i, 5: "DP=1%d;AF=0.5" % i}[s]
        cols = [c, pos, vid, ref, alt, q, flt, info]
        if extra_cols:
            cols += ["GT", "%d/1" % (i % 2), "1|%d" % (i % 2)]
        return ["\t".join(cols)], (c, int(pos) - 1, vid, ref, alt, q, flt, info)
    return entry


VCF_HEADER = ["##fileformat=VCFv4.2", "##source=c01", "#CHROM\tPOS\tID\tREF\tALT\tQUAL\tFILTER\tINFO"]


def _sam(i, s):
    t = tw(s)                                     # WIDE: POS, PNEXT and TLEN are wide
    name, flag, c, pos, mapq = word(t, i), ["0", "16", "99", "147"][i % 4], word(t, i, 1), num(s, i), num(min(t, 2), i, 1)
    sq = seq(t, i)
    cigar = "%dM" % len(sq)
    nxt, npos, tlen = "*=" [i % 2], num(s, i, 2), num(s, i, 3)
    s = t
    q = "".join("5?IAB"[(i + j) % 5] for j in range(len(sq)))
    extra = {1: [], 2: ["NM:i:%d" % i], 5: ["NM:i:%d" % i, "MD:Z:%d" % len(sq)]}[s]
    cols = [name, flag, c, pos, mapq, cigar, nxt, npos, tlen, sq, q] + extra
    return ["\t".join(cols)], (name, int(flag), c, int(pos), int(mapq), cigar, nxt, int(npos), int(tlen), sq, q, "\t".join(extra))


SAM_HEADER = ["@HD\tVN:1.0\tSO:unsorted", "@SQ\tSN:a\tLN:99999"]


def _gtf(i, s):
    c, src, ft, a, b = word(tw(s), i), word(tw(s), i, 1), ["gene", "transcript", "exon", "CDS"][i % 4], num(s, i), num(s, i, 1)
    if s == WIDE:                                 # 10 digits (< 2**31): the coordinates stand behind three text columns
        a, b = "1" + a, "1" + b
    s = tw(s)
    sc, st, ph = "." if s < 5 else "0.5", "+-."[(i + s) % 3], ".012"[i % 4]
    att = {1: 'gene_id "g%d";' % i, 2: 'gene_id "g%d"; transcript_id "t%d";' % (i, i),
           5: 'gene_id "g%d"; transcript_id "t%d"; exon_number "%d";' % (i, i, i + 1)}[s]
    return ["\t".join((c, src, ft, a, b, sc, st, ph, att))], (c, src, ft, int(a), int(b), sc, st, ph, att)


SEQ_FIELDS = ["name", "sequence"]
FORMATS = {}
for _s in [
    Spec("fasta2", ".fa", SEQ_FIELDS, _fasta(0)),
    Spec("fasta2-twoline", ".fa", SEQ_FIELDS, _fasta(0), buffer_type="TwoLineFastaBuffer"),
    Spec("fastaW1", ".fa", SEQ_FIELDS, _fasta(1)),
    Spec("fastaW2", ".fa", SEQ_FIELDS, _fasta(2)),
    Spec("fastaW3", ".fasta", SEQ_FIELDS, _fasta(3)),
    Spec("fastq", ".fq", SEQ_FIELDS + ["quality"], _fastq),
    Spec("bed3", ".bed", ["chromosome", "start", "stop"], _bed3),
    Spec("bed3-comment", ".bed", ["chromosome", "start", "stop"], _bed3, header=["#track c01", "#x"]),
    Spec("bed6", ".bed", ["chromosome", "start", "stop", "name", "score", "strand"], _bed6, buffer_type="Bed6Buffer"),
    Spec("bedgraph", ".bdg", ["chromosome", "start", "stop", "value"], _bdg, float_fields=["value"]),
    Spec("narrowpeak", ".narrowPeak", ["chromosome", "start", "stop", "name", "score", "strand", "signal_value", "p_value",
                                       "q_value", "summit"], _narrowpeak, float_fields=["signal_value", "p_value", "q_value"]),
    Spec("vcf", ".vcf", ["chromosome", "position", "id", "ref_seq", "alt_seq", "quality", "filter", "info"], _vcf(False),
         header=VCF_HEADER),
    Spec("vcf-samples", ".vcf", ["chromosome", "position", "id", "ref_seq", "alt_seq", "quality", "filter", "info"], _vcf(True),
         header=VCF_HEADER[:2] + [VCF_HEADER[2] + "\tFORMAT\tS1\tS2"]),
    Spec("sam", ".sam", ["name", "flag", "chromosome", "position", "mapq", "cigar", "next_chromosome", "next_position",
                         "length", "sequence", "quality", "extra"], _sam, header=SAM_HEADER),
    Spec("sam-noheader", ".sam", ["name", "flag", "chromosome", "position", "mapq", "cigar", "next_chromosome",
                                  "next_position", "length", "sequence", "quality", "extra"], _sam),
    Spec("gtf", ".gtf", ["chromosome", "source", "feature_type", "start", "stop", "score", "strand", "phase", "atributes"], _gtf),
]:
    FORMATS[_s.name] = _s
    if _s.suffix in (".fa", ".fasta", ".fq"):
        _s.size_classes = (ZERO, 1, 2, 5)
    else:
        _s.size_classes = (1, 2, 5, WIDE)


def build(fmt, sizes, final_newline=True, crlf=False):
    """-> data bytes, offset of the first entry (= header length), the bytes of every entry as they stand in the
    file (line ends included; the last one without its line end when final_newline is False), reference entries"""
    spec = FORMATS[fmt]
    eol = b"\r\n" if crlf else b"\n"
    head = b"".join(h.encode() + eol for h in spec.header)
    ebytes, refs = [], []
    for i, s in enumerate(sizes):
        lines, ref = spec.entry(i, s)
        ebytes.append(b"".join(l.encode() + eol for l in lines))
        refs.append(ref)
    if ebytes and not final_newline:
        ebytes[-1] = ebytes[-1][:-len(eol)]
    return head + b"".join(ebytes), len(head), ebytes, refs
