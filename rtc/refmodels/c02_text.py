"""C02 reference model: what the text of a file means, written from the public format descriptions
(UCSC BED/bedGraph/narrowPeak/chrom.sizes, VCF 4.2, SAM 1, GTF/GFF3, GFA1 S-lines, pairs, FASTA, FASTQ) in plain
Python (bytes.split, int, float).  Nothing here imports bionumpy.

Every parser takes the file content as `bytes` and returns (n_records, {column name: list of python values}) with
the column names of the bionumpy dataclass of that format.

Conventions shared with the enumerator (they are the statement's, not the library's code):
  * lines end in LF or CRLF; the CR is not part of the last field;
  * header lines = the maximal prefix of lines starting with the format's comment character; for GFF3 and
    wig-style bedGraph every line starting with '#' is a comment wherever it stands;
  * strings verbatim, ints and floats by value, '.' in an optional numeric column = missing (MISSING_INT /
    nan, the library's documented missing values), strands/qualities by symbol, lists element by element
    (a trailing comma does not add an element), VCF POS minus one, all other coordinates as written.
"""
import math

MISSING_INT = 0          # str_to_int_with_missing(missing_value=0)
MISSING_FLOAT = math.nan


def split_lines(data: bytes):
    """list of lines as str without the line terminator (LF or CRLF)"""
    parts = data.split(b"\n")
    if parts and parts[-1] == b"":
        parts = parts[:-1]
    out = []
    for p in parts:
        if p.endswith(b"\r"):
            p = p[:-1]
        out.append(p.decode("latin1"))
    return out


def data_lines(data: bytes, comment, interior=False):
    lines = split_lines(data)
    if comment is None:
        return [], lines
    if interior:
        return [l for l in lines if l.startswith(comment)], [l for l in lines if not l.startswith(comment)]
    k = 0
    while k < len(lines) and lines[k].startswith(comment):
        k += 1
    return lines[:k], lines[k:]


def conv_int(t):
    return int(t)


def conv_optint(t):
    return MISSING_INT if t in (".", "") else int(t)


def conv_float(t):
    return float(t)


def conv_optfloat(t):
    return MISSING_FLOAT if t in (".", "") else float(t)


def conv_intlist(t):
    if t.endswith(","):
        t = t[:-1]
    return [int(x) for x in t.split(",")] if t != "" else []


def conv_floatlist(t):
    if t.endswith(","):
        t = t[:-1]
    return [float(x) for x in t.split(",")] if t != "" else []


CONV = {"id": str, "str": str, "strand": str, "int": conv_int, "sint": conv_int, "pos1": lambda t: int(t) - 1,
        "optint": conv_optint, "float": conv_float, "optfloat": conv_optfloat, "intlist": conv_intlist,
        "floatlist": conv_floatlist}


def parse_delimited(data: bytes, columns, comment="#", interior=False, sep="\t", first_col=0):
    """columns: list of (name, kind); column i of the dataclass is field first_col + i of the line"""
    _, lines = data_lines(data, comment, interior)
    out = {name: [] for name, _ in columns}
    for line in lines:
        fields = line.split(sep)
        for i, (name, kind) in enumerate(columns):
            out[name].append(CONV[kind](fields[first_col + i]))
    return len(lines), out


def parse_sam(data: bytes):
    cols = [("name", "id"), ("flag", "int"), ("chromosome", "id"), ("position", "int"), ("mapq", "int"), ("cigar", "str"),
            ("next_chromosome", "str"), ("next_position", "int"), ("length", "sint"), ("sequence", "str"),
            ("quality", "str")]
    _, lines = data_lines(data, "@")
    out = {name: [] for name, _ in cols}
    out["extra"] = []
    for line in lines:
        fields = line.split("\t", 11)
        for i, (name, kind) in enumerate(cols):
            out[name].append(CONV[kind](fields[i]))
        out["extra"].append(fields[11] if len(fields) > 11 else "")
    return len(lines), out


def parse_fasta(data: bytes):
    names, seqs = [], []
    for line in split_lines(data):
        if line.startswith(">"):
            names.append(line[1:])
            seqs.append("")
        else:
            seqs[-1] += line
    return len(names), {"name": names, "sequence": seqs}


def parse_fastq(data: bytes):
    lines = split_lines(data)
    assert len(lines) % 4 == 0
    names, seqs, quals = [], [], []
    for i in range(0, len(lines), 4):
        assert lines[i][0] == "@" and lines[i + 2][0] == "+"
        names.append(lines[i][1:])
        seqs.append(lines[i + 1])
        quals.append([ord(c) - 33 for c in lines[i + 3]])
    return len(names), {"name": names, "sequence": seqs, "quality": quals}


# ---------------------------------------------------------------------------------------------- VCF
def vcf_info_declarations(header_lines):
    """[(ID, Number, Type)] of the ##INFO lines, in order"""
    out = []
    for l in header_lines:
        if l.startswith("##INFO=<") and l.endswith(">"):
            body = l[len("##INFO=<"):-1]
            d = {}
            # ID, Number, Type come first and contain no commas; Description is quoted and last
            for part in body.split(",Description=")[0].split(","):
                k, v = part.split("=", 1)
                d[k] = v
            out.append((d["ID"], d["Number"], d["Type"]))
    return out


def vcf_info_value(number, typ, present, text):
    """value of one INFO key for one record; `text` is None for a key without '=' or an absent key"""
    if typ == "Flag":
        return bool(present)
    is_list = number not in ("0", "1")
    if typ == "Integer":
        if is_list:
            return conv_intlist(text) if present else []
        return conv_optint(text) if present else MISSING_INT
    if typ == "Float":
        if is_list:
            return conv_floatlist(text) if present else []
        return conv_optfloat(text) if present else MISSING_FLOAT
    return text if present else ""          # String / Character: verbatim


def parse_vcf(data: bytes, info_as_string=False, genotypes=None):
    """genotypes: None | 'strings' (GT sub-field per sample, verbatim) | 'matrix' / 'phased' / 'haplotype'
    (encoded as documented in bionumpy.encodings.vcf_encoding: alphabet [0,1,2,.,|,/] base-6 triplet code;
    phased 2*a+b; one allele index 0..4 / '.'=5 per haplotype)"""
    header, lines = data_lines(data, "#")
    decl = vcf_info_declarations(header)
    out = {k: [] for k in ("chromosome", "position", "id", "ref_seq", "alt_seq", "quality", "filter")}
    info_typed = bool(decl) and not info_as_string
    info = {k: [] for k, _, _ in decl} if info_typed else []
    gts = []
    for line in lines:
        f = line.split("\t")
        out["chromosome"].append(f[0])
        out["position"].append(int(f[1]) - 1)
        for name, i in (("id", 2), ("ref_seq", 3), ("alt_seq", 4), ("quality", 5), ("filter", 6)):
            out[name].append(f[i])
        if info_typed:
            kv = {}
            for item in f[7].split(";"):
                if "=" in item:
                    k, v = item.split("=", 1)
                    kv[k] = v
                else:
                    kv[item] = None
            for k, number, typ in decl:
                info[k].append(vcf_info_value(number, typ, k in kv, kv.get(k)))
        else:
            info.append(f[7])
        if genotypes is not None:
            samples = f[9:]
            gt = [s.split(":")[0] for s in samples]
            if genotypes == "strings":
                gts.append(gt)
            elif genotypes == "matrix":
                alpha = "012.|/"
                gts.append([36 * alpha.index(g[0]) + 6 * alpha.index(g[1]) + alpha.index(g[2]) for g in gt])
            elif genotypes == "phased":
                gts.append([2 * int(g[0] == "1") + int(g[2] == "1") for g in gt])
            elif genotypes == "haplotype":
                alpha = "01234."
                row = []
                for g in gt:
                    row += [alpha.index(g[0]), alpha.index(g[2])]
                gts.append(row)
    out["info"] = info
    if genotypes is not None:
        out["genotype" if genotypes == "strings" else "genotypes"] = gts
    return len(lines), out


def values_equal(got, exp, rel=1e-9):
    """python-value equality with float tolerance (nan == nan)"""
    if isinstance(exp, float):
        if not isinstance(got, (int, float)) or isinstance(got, bool):
            return False
        if math.isnan(exp):
            return isinstance(got, float) and math.isnan(got)
        if isinstance(got, float) and math.isnan(got):
            return False
        return abs(got - exp) <= rel * max(abs(exp), abs(got))
    if isinstance(exp, (list, tuple)):
        if not isinstance(got, (list, tuple)) or len(got) != len(exp):
            return False
        return all(values_equal(g, e, rel) for g, e in zip(got, exp))
    if isinstance(exp, bool):
        return isinstance(got, (bool, int)) and bool(got) == exp
    if isinstance(exp, int):
        return isinstance(got, (int, float)) and not isinstance(got, bool) and got == exp
    return got == exp
