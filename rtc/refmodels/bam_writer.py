"""Reference BAM encoder written from the SAM/BAM specification (SAMv1.pdf, section 4), used to build small
well-formed BAM inputs.  Plain struct + zlib; no bionumpy code.

records: dicts with keys ref_id, pos (0-based), name, mapq, flag, cigar [(op_char, length)], seq (str), qual (list of
int phred values), optional next_ref_id, next_pos, tlen.
"""
import struct
import zlib

SEQ_CODES = "=ACMGRSVTWYHKDBN"
CIGAR_OPS = "MIDNSHP=X"

BGZF_EOF = bytes.fromhex("1f8b08040000000000ff0600424302001b0003000000000000000000")


def reg2bin(beg, end):
    end -= 1
    if beg >> 14 == end >> 14:
        return ((1 << 15) - 1) // 7 + (beg >> 14)
    if beg >> 17 == end >> 17:
        return ((1 << 12) - 1) // 7 + (beg >> 17)
    if beg >> 20 == end >> 20:
        return ((1 << 9) - 1) // 7 + (beg >> 20)
    if beg >> 23 == end >> 23:
        return ((1 << 6) - 1) // 7 + (beg >> 23)
    if beg >> 26 == end >> 26:
        return ((1 << 3) - 1) // 7 + (beg >> 26)
    return 0


def encode_header(text, refs):
    out = b"BAM\x01" + struct.pack("<i", len(text)) + text.encode()
    out += struct.pack("<i", len(refs))
    for name, length in refs:
        out += struct.pack("<i", len(name) + 1) + name.encode() + b"\x00" + struct.pack("<i", length)
    return out


def encode_record(r):
    name = r["name"].encode() + b"\x00"
    cigar = r["cigar"]
    seq = r["seq"]
    ref_len = sum(n for op, n in cigar if op in "MDN=X") or 1
    body = struct.pack("<iiBBHHHiiii", r["ref_id"], r["pos"], len(name), r["mapq"],
                       reg2bin(r["pos"], r["pos"] + ref_len), len(cigar), r["flag"], len(seq),
                       r.get("next_ref_id", -1), r.get("next_pos", -1), r.get("tlen", 0))
    body += name
    for op, n in cigar:
        body += struct.pack("<I", (n << 4) | CIGAR_OPS.index(op))
    codes = [SEQ_CODES.index(c) for c in seq]
    if len(codes) % 2:
        codes.append(0)
    body += bytes((codes[i] << 4) | codes[i + 1] for i in range(0, len(codes), 2))
    body += bytes(r["qual"])
    return struct.pack("<i", len(body)) + body


def bgzf_block(data):
    comp = zlib.compressobj(6, zlib.DEFLATED, -15)
    cdata = comp.compress(data) + comp.flush()
    bsize = len(cdata) + 25
    head = struct.pack("<BBBBIBBHBBHH", 0x1f, 0x8b, 8, 4, 0, 0, 0xff, 6, 66, 67, 2, bsize)
    return head + cdata + struct.pack("<II", zlib.crc32(data) & 0xffffffff, len(data) & 0xffffffff)


def encode_bam(text, refs, records, block_size=60000):
    """whole BAM file: BGZF blocks of the header and of the records, then the EOF block"""
    raw_header = encode_header(text, refs)
    raw_records = b"".join(encode_record(r) for r in records)
    out = bgzf_block(raw_header)
    for i in range(0, len(raw_records), block_size):
        out += bgzf_block(raw_records[i:i + block_size])
    return out + BGZF_EOF
