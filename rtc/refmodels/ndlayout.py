"""Reference model for n-dimensional arrays of characters and the indexing / reshaping steps that change how such an array lies
in memory (transpose, column-major fill, strided and reversed slices, windows) WITHOUT changing which element sits at which index.

An array is  (shape, flat)  : a tuple of axis lengths and the plain Python list of its elements in row-major (C, "last index runs
fastest") order of the INDICES.  Nothing here knows about memory: the model is the mathematical definition
    transpose:  t[i0, .., ik] = a[ik, .., i0]
    subscript:  r[j0, .., jm] = a[p0[j0], .., pn[jn]]     (p_axis = the positions a slice / index list selects; integers drop the axis)
    reshape / ravel:  same elements in row-major order of the indices
    column-major fill ("order F"):  a[i0, .., ik] = seq[i0 + n0 * (i1 + n1 * (...))]
    window(k) of a 1-d array:  w[i, j] = a[i + j]
Nothing here imports numpy or bionumpy.

Steps (JSON):  ["T"] | ["idx", [sub, ..]] | ["reshape", [n0, ..]] | ["ravel"] | ["copy"] | ["window", k]
    sub (one per leading axis; missing axes are taken whole):  ["s", start, stop, step] | ["i", k] | ["l", [k, ..]]
    at most one ["l", ..] per subscript and never together with ["i", ..] (numpy then moves axes; outside this model)
"""
import itertools


def size_of(shape):
    n = 1
    for s in shape:
        n *= s
    return n


def indices(shape):
    return itertools.product(*(range(n) for n in shape))


def get(arr, idx):
    shape, flat = arr
    off = 0
    for i, n in zip(idx, shape):
        assert 0 <= i < n
        off = off * n + i
    return flat[off]


def build(seq, shape, order="C"):
    """the array of the given shape filled with seq in row-major ('C') or column-major ('F') order"""
    shape = tuple(shape)
    seq = list(seq)
    assert len(seq) == size_of(shape), "a fill needs exactly one element per index"
    if order == "C":
        return shape, seq
    assert order == "F"
    out = []
    for idx in indices(shape):
        off, mul = 0, 1
        for i, n in zip(idx, shape):
            off += i * mul
            mul *= n
        out.append(seq[off])
    return shape, out


def transpose(arr):
    shape, _ = arr
    new = tuple(reversed(shape))
    return new, [get(arr, idx[::-1]) for idx in indices(new)]


def subscript(arr, subs):
    shape, _ = arr
    assert len(subs) <= len(shape)
    kinds = [s[0] for s in subs]
    assert kinds.count("l") <= 1 and not ("l" in kinds and "i" in kinds), "outside the model"
    picks, keep = [], []
    for a, n in enumerate(shape):
        sub = subs[a] if a < len(subs) else ["s", None, None, None]
        if sub[0] == "s":
            picks.append(list(range(n))[slice(sub[1], sub[2], sub[3])])
            keep.append(True)
        elif sub[0] == "i":
            k = sub[1]
            if not -n <= k < n:
                raise IndexError(k)
            picks.append([k % n])
            keep.append(False)
        elif sub[0] == "l":
            for k in sub[1]:
                if not -n <= k < n:
                    raise IndexError(k)
            picks.append([k % n for k in sub[1]])
            keep.append(True)
        else:
            raise KeyError(sub[0])
    new = tuple(len(p) for p, k in zip(picks, keep) if k)
    return new, [get(arr, idx) for idx in itertools.product(*picks)]


def reshape(arr, shape):
    shape = tuple(shape)
    assert size_of(shape) == len(arr[1])
    return shape, list(arr[1])


def window(arr, k):
    shape, flat = arr
    assert len(shape) == 1 and 1 <= k <= shape[0]
    n = shape[0] - k + 1
    return (n, k), [flat[i + j] for i in range(n) for j in range(k)]


def apply(arr, steps):
    for st in steps:
        if st[0] == "T":
            arr = transpose(arr)
        elif st[0] == "idx":
            arr = subscript(arr, st[1])
        elif st[0] == "reshape":
            arr = reshape(arr, st[1])
        elif st[0] == "ravel":
            arr = reshape(arr, (len(arr[1]),))
        elif st[0] == "copy":
            arr = (arr[0], list(arr[1]))
        elif st[0] == "window":
            arr = window(arr, st[1])
        else:
            raise KeyError(st[0])
    return arr


def blocks(arr):
    """the sub-arrays a[0], a[1], .. along the first axis, each as its flat row-major element list"""
    shape, flat = arr
    assert len(shape) >= 1
    if shape[0] == 0:
        return []
    m = len(flat) // shape[0]
    return [flat[i * m:(i + 1) * m] for i in range(shape[0])]


def last_axis_rows(arr):
    """the 1-d rows along the last axis, in row-major order of the leading indices"""
    shape, flat = arr
    w = shape[-1]
    if w == 0:
        return []
    return [flat[i:i + w] for i in range(0, len(flat), w)]
