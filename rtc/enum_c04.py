"""C04 bounded stand-in: unmodified records / fields are written back byte-for-byte.

Run-time contract, evaluated on the real bionumpy reader / lazy table / writer:

  write(P(read(file)))  ==  the source bytes of the records selected by P, in the order selected by P
                            (pass-through; P = any composition of NumPy-style selections and concatenations)
  write(P(...replace...)) : every field of the entry type that was NOT replaced has, in every record, exactly
                            the text it has in the source record; replaced columns carry the new values.

The oracle is a plain Python model: a table is a list of rows (source file, record number, {field: new text});
selection is the same NumPy index applied to `range(len(rows))`, concatenation is list concatenation, the
expected bytes are the source record bytes (known because this file wrote the source files from a list of
records).  BAM files are produced by the reference encoder rtc/refmodels/bam_ref.py.

Programs are expression trees (JSON):
  ["read", F]                 F in {"A","B"}: two files of the same format, 4 and 3 records of unequal length
  ["chunks", F, k, op|None]   file read with read_chunks(min_chunk_size=k), op applied to each chunk, chunks concatenated
  ["idx", e, op]              e[index];  op = ["slice",a,b,c] | ["mask",[..]] | ["ints",[..]] (list) | ["npints",[..]] (array)
                              | the same selections in the other forms NumPy accepts for an index (INDEX_FORMS, gen_index_forms):
                              ["lmask",[..]] Python list of bool | ["lnpmask",[..]] list of numpy bools | ["tupmask",[..]] 1-tuple
                              holding a mask array | ["npints32"|"npints8"|"npuints8",[..]] integer arrays of a narrow dtype |
                              ["lnpints",[..]] list of numpy integers | ["range",a,b,c] a range object (understood by the
                              evaluator, not enumerated: not one of the index kinds the property quantifies over)
  ["touch", e, field]         read-only access of a field (fills the lazy cache), table unchanged
                              (["touch", e, field, "if-parsable"]: a parse error of the field is not a failure)
  ["mat", e]                  write e (checked) and go on with the same object (compaction happens in place)
  ["cat", [e1, e2, ...]]      np.concatenate
  ["rep", e, [fields]]        bnp.replace(e, field=new values ...)
  ["after", e1, e2]           evaluate and write e1 (checked), then evaluate e2: e1 must not disturb the tables it was derived from
  ["set", e, [fields]]        attribute assignment e.field = new values on the table object e (in place; unlike bnp.replace it keeps
                              the cache of the fields read before); only applied to freshly selected tables
  ["hist", e, [step, ...]]    a history on ONE table object: e is evaluated once, then the steps are applied to that same object
                              ["w"] write it (checked; compacts a selection in place) | ["t", field] read a field (fills the caches)
                              | ["rw", [fields]] bnp.replace + write of the replaced copy (checked), the history goes on with e
All ["read", F] nodes of one program denote the same table object (one read per file and program).

Besides the main files (SPECS: one pair of files per format) there is a second family of files (COLUMN_SPECS) that
varies the NUMBER OF COLUMNS BEHIND the fields of the entry type - VCF without FORMAT / with 0, 1, 3 sample columns,
SAM without tags / with exactly one tag per record, BED with extra columns - because the 'rest of line' of a record is
fetched by code that depends on that number; they run a reduced program set (gen_columns) and their failures have
signatures of their own (trailing-columns:<buffer>:<column count>:<write path>:<symptom>).
"""
import itertools
import os

from .common import Collector, TmpDir

PID = "C04"


# --------------------------------------------------------------------------------------------------------------
# source data: records with non-canonical but valid text, unequal lengths
# --------------------------------------------------------------------------------------------------------------

def _tab(*cols):
    return "\t".join(cols)


VCF_HEAD_INFO = ("##fileformat=VCFv4.2\n"
                 "##INFO=<ID=DP,Number=1,Type=Integer,Description=\"depth\">\n"
                 "##INFO=<ID=AC,Number=A,Type=Integer,Description=\"count\">\n"
                 "#CHROM\tPOS\tID\tREF\tALT\tQUAL\tFILTER\tINFO\tFORMAT\ts1\ts2\n")
VCF_HEAD_NOINFO = ("##fileformat=VCFv4.2\n"
                   "#CHROM\tPOS\tID\tREF\tALT\tQUAL\tFILTER\tINFO\tFORMAT\ts1\ts2\n")
VCF_A = [[_tab("chr1", "0012", "rs1", "A", "T", "1e3", "PASS", "DP=05;AC=1", "GT", "0|1", "1/1")],
         [_tab("chr2", "7", ".", "ACG", "A,T", ".", ".", "AC=1,2", "GT:DP", "0/0:3", "./.:.")],
         [_tab("chr2", "100", "x", "G", "C", "+5", "q10", "DP=1", "GT", "1|1", "0|0")],
         [_tab("chrX_alt", "00100", "id4;id5", "T", "TACGTACGT", "29.50", "q10;s50", "DP=10;AC=02", "GT:DP", "0/1:10", "1/1:2")]]
VCF_B = [[_tab("c", "1", ".", "C", "G", "0", "PASS", "DP=7", "GT", "0/0", "0/1")],
         [_tab("chr10", "020", "rs22222", "GG", "G", "1E2", ".", "AC=3;DP=1", "GT", "1|0", "1|1")],
         [_tab("chr1", "3", "a", "T", "A", "3.0", "PASS", "DP=2", "GT:DP", "0|0:1", "0|1:22")]]

SAM_HEAD = "@HD\tVN:1.6\tSO:unsorted\n@SQ\tSN:chr1\tLN:1000\n@SQ\tSN:chr2\tLN:500\n"
SAM_A = [[_tab("r1", "0", "chr1", "0010", "60", "4M", "*", "0", "0", "ACGT", "IIII", "NM:i:0", "MD:Z:4")],
         [_tab("read2", "16", "chr2", "5", "07", "2M1I2M", "=", "20", "-15", "ACGTA", "*")],
         [_tab("r3", "4", "*", "0", "0", "*", "*", "0", "0", "AC", "#!", "XS:A:+")],
         [_tab("fourth_read/1", "0099", "chr1", "123", "255", "3S4M", "chr2", "007", "+30", "ACGTACG", "IIIIII#",
               "NM:i:1", "XZ:Z:a b c", "RG:Z:grp")]]
SAM_B = [[_tab("b1", "0", "chr2", "1", "0", "1M", "*", "0", "0", "A", "I")],
         [_tab("bb2", "83", "chr1", "0400", "30", "10M", "=", "350", "-60", "ACGTACGTAC", "IIIIIIIIII", "AS:i:-5")],
         [_tab("b3", "4", "*", "0", "0", "*", "*", "0", "0", "ACG", "*", "YT:Z:UU", "NM:i:00")]]

GTF_HEAD = "#!genome-build test\n"
GTF_A = [[_tab("chr1", "src", "gene", "10", "200", ".", "+", ".", 'gene_id "g1"; x "y";')],
         [_tab("chr2", "s", "exon", "5", "90", "1e3", "-", "0", 'gene_id "g2";')],
         [_tab("c", "longsource", "transcript", "7", "8", "0.5", ".", "2", 'gene_id "g3"; transcript_id "t3"; note "a b";')],
         [_tab("chrX_alt", "s", "CDS", "1000", "123456", ".", "+", "1", 'gene_id "g4";')]]
GTF_B = [[_tab("chr10", "b", "gene", "1", "2", ".", "-", ".", 'gene_id "h1";')],
         [_tab("c", "bsrc", "exon", "30", "40000", "7", "+", "0", 'gene_id "h2"; exon_number "1";')],
         [_tab("chr2", "b", "exon", "12", "13", ".", "+", ".", 'gene_id "h3";')]]
GTF_A_NC = [[_tab("chr1", "src", "gene", "0010", "200", ".", "+", ".", 'gene_id "g1"; x "y";')],
            [_tab("chr2", "s", "exon", "5", "+90", "1e3", "-", "0", 'gene_id "g2";')],
            [_tab("c", "longsource", "transcript", "007", "8", "0.5", ".", "2", 'gene_id "g3";')],
            [_tab("chrX_alt", "s", "CDS", "1000", "0123456", ".", "+", "1", 'gene_id "g4";')]]

BED_A = [[_tab("chr1", "0010", "+20")], [_tab("chr2", "5", "123456")], [_tab("c", "007", "8")], [_tab("chrX_alt", "00", "1")]]
BED_B = [[_tab("chr10", "1", "02")], [_tab("c", "+3", "40000")], [_tab("chr2", "12", "13")]]
BED6_A = [[_tab("chr1", "0010", "+20", "nm1", "05", "+")], [_tab("chr2", "5", "123456", "name2", "3", "-")],
          [_tab("c", "007", "8", "n", "1000", ".")], [_tab("chrX_alt", "00", "1", "fourth_name", "007", "+")]]
BED6_B = [[_tab("chr10", "1", "02", "b", "0", "-")], [_tab("c", "+3", "40000", "bname", "00", "+")],
          [_tab("chr2", "12", "13", "x_y.z", "999", ".")]]
NP_A = [[_tab("chr1", "0010", "+20", "nm1", "05", "+", "1.50", "1e3", "-1", "007")],
        [_tab("chr2", "5", "123456", "name2", "0", "-", "2", "3.25", "0.5", "1")],
        [_tab("c", "7", "8", "n", "1000", ".", "0.0", "-1", "-1", "-1")],
        [_tab("chrX_alt", "00", "1", "fourth_name", "7", "+", "12.125", "+2.5", "1E1", "0")]]
NP_B = [[_tab("chr10", "1", "02", "b", "0", "-", "1", "1", "1", "1")],
        [_tab("c", "3", "40000", "bname", "00", "+", "0.25", "10.0", "3", "0020")],
        [_tab("chr2", "12", "13", "x_y.z", "999", ".", "5e0", "2", "2.50", "6")]]

FQ_A = [["@r1 desc", "ACGT", "+r1 desc", "IIII"], ["@r2", "AC", "+", "#!"], ["@read3", "GGGTTTA", "+read3", "@@@+++I"],
        ["@fourth/1 x=y", "T", "+", "+"]]
FQ_B = [["@b1", "ACGTACGTAC", "+b1", "IIIIIIIIII"], ["@bb2 q", "G", "+", "@"], ["@b3", "TTA", "+b3", "+@I"]]
FA_A = [[">s1 d", "ACGT"], [">s2", "A"], [">seq3", "GGGTTTA"], [">fourth one", "acgtnACGTN"]]
FA_B = [[">b1", "ACGTACGTACGT"], [">bb2 q", "G"], [">b3", "TTA"]]


def _split_tab(lines, n_fixed, names, rest_name=None, at_least=False):
    cols = lines[0].split("\t")
    if rest_name is not None:
        if len(cols) < n_fixed:
            raise ValueError("too few columns: %r" % (lines[0],))
        d = dict(zip(names, cols[:n_fixed]))
        d[rest_name] = "\t".join(cols[n_fixed:])
        return d
    if at_least:
        if len(cols) < n_fixed:
            raise ValueError("too few columns: %r" % (lines[0],))
    elif len(cols) != n_fixed:
        raise ValueError("expected %d columns: %r" % (n_fixed, lines[0]))
    return dict(zip(names, cols[:n_fixed]))


def _delimited(names, rest_name=None, at_least=False):
    return lambda lines: _split_tab(lines, len(names), names, rest_name, at_least)


def _parse_fastq(lines):
    if lines[0][:1] != "@" or lines[2][:1] != "+":
        raise ValueError("not a fastq record: %r" % (lines,))
    return {"name": lines[0][1:], "sequence": lines[1], "quality": lines[3]}


def _parse_fasta(lines):
    if lines[0][:1] != ">":
        raise ValueError("not a fasta record: %r" % (lines,))
    return {"name": lines[0][1:], "sequence": lines[1]}


BED_F = [("chromosome", "seqid"), ("start", "int"), ("stop", "int")]
BED6_F = BED_F + [("name", "seqid"), ("score", "int"), ("strand", "strand")]
NP_F = BED6_F + [("signal_value", "float"), ("p_value", "float"), ("q_value", "float"), ("summit", "int")]
VCF_F = [("chromosome", "seqid"), ("position", "vcfpos"), ("id", "str"), ("ref_seq", "str"), ("alt_seq", "str"),
         ("quality", "str"), ("filter", "str"), ("info", "str")]
VCF_F_INFO = VCF_F[:7] + [("info", None)]
SAM_F = [("name", "seqid"), ("flag", "int"), ("chromosome", "seqid"), ("position", "int"), ("mapq", "int"), ("cigar", "str"),
         ("next_chromosome", "str"), ("next_position", "int"), ("length", "int"), ("sequence", "str"), ("quality", "str"),
         ("extra", "str")]
GTF_F = [("chromosome", "seqid"), ("source", "str"), ("feature_type", "seqid"), ("start", "int"), ("stop", "int"),
         ("score", "str"), ("strand", "strand"), ("phase", "str"), ("atributes", "str")]
FQ_F = [("name", "seqid"), ("sequence", "dna_same_len"), ("quality", "quality")]
FA_F = [("name", "seqid"), ("sequence", "str")]
BAM_F = [(n, None) for n in ("chromosome", "name", "flag", "position", "mapq", "cigar_op", "cigar_length", "sequence", "quality")]


def _names(fields):
    return [n for n, _ in fields]


# variant -> spec
SPECS = {
    "bed": dict(family="delimited", suffix=".bed", buffer=None, header="", A=BED_A, B=BED_B, fields=BED_F,
                parse=_delimited(_names(BED_F)), lines=1, touch=["start", "chromosome"]),
    "bed6": dict(family="delimited", suffix=".bed", buffer="Bed6Buffer", header="", A=BED6_A, B=BED6_B, fields=BED6_F,
                 parse=_delimited(_names(BED6_F)), lines=1, touch=["stop", "name", "strand"]),
    "narrowPeak": dict(family="delimited", suffix=".narrowPeak", buffer=None, header="", A=NP_A, B=NP_B, fields=NP_F,
                       parse=_delimited(_names(NP_F)), lines=1, touch=["start", "summit", "name"]),
    "vcf": dict(family="vcf", suffix=".vcf", buffer=None, header=VCF_HEAD_INFO, A=VCF_A, B=VCF_B, fields=VCF_F_INFO,
                parse=_delimited(_names(VCF_F), at_least=True), lines=1, touch=["position", "ref_seq", "chromosome"]),
    "vcf_noinfo": dict(family="vcf", suffix=".vcf", buffer=None, header=VCF_HEAD_NOINFO, A=VCF_A, B=VCF_B, fields=VCF_F,
                       parse=_delimited(_names(VCF_F), at_least=True), lines=1, touch=["position", "info"], solo=["info"]),
    "vcf2": dict(family="vcf", suffix=".vcf", buffer="VCFBuffer2", header=VCF_HEAD_NOINFO, A=VCF_A, B=VCF_B,
                 fields=VCF_F + [("genotype", None)], parse=_delimited(_names(VCF_F), rest_name="genotype"), lines=1,
                 touch=["position", "alt_seq"], solo=["info"]),
    "sam": dict(family="sam", suffix=".sam", buffer=None, header=SAM_HEAD, A=SAM_A, B=SAM_B, fields=SAM_F,
                parse=_delimited(_names(SAM_F)[:11], rest_name="extra"), lines=1, touch=["position", "name", "cigar", "extra"]),
    "gtf": dict(family="gtf", suffix=".gtf", buffer=None, header=GTF_HEAD, A=GTF_A, B=GTF_B, fields=GTF_F,
                parse=_delimited(_names(GTF_F)), lines=1, touch=["start"]),
    "gtf_noncanon": dict(family="gtf", suffix=".gtf", buffer=None, header=GTF_HEAD, A=GTF_A_NC, B=GTF_B, fields=GTF_F,
                         parse=_delimited(_names(GTF_F)), lines=1, touch=[]),
    "fastq": dict(family="fastq", suffix=".fq", buffer=None, header="", A=FQ_A, B=FQ_B, fields=FQ_F, parse=_parse_fastq,
                  lines=4, touch=["name", "sequence", "quality"]),
    "fasta2": dict(family="fasta2", suffix=".fa", buffer="TwoLineFastaBuffer", header="", A=FA_A, B=FA_B, fields=FA_F,
                   parse=_parse_fasta, lines=2, touch=["name", "sequence"]),
    "bam": dict(family="bam", suffix=".bam", buffer=None, header=None, A=None, B=None, fields=BAM_F, parse=None, lines=0,
                touch=_names(BAM_F)),
}
TEXT_VARIANTS = [v for v in SPECS if v != "bam"]


# --------------------------------------------------------------------------------------------------------------
# scope extension: the NUMBER OF COLUMNS BEHIND the fields of the entry type.  The 'rest of line' of a record (VCF:
# FORMAT + sample columns, SAM: optional tags, BED: columns the 3-column entry type does not name) is fetched by code
# that depends on how many columns there are, so every count at and around the boundaries gets files of its own:
# VCF without FORMAT column (8 columns), FORMAT but no sample, exactly 1 sample, 3 samples (the files above have 2),
# read with the genotype-carrying buffer, with the default buffer and with ##INFO header lines; SAM files in which no
# record / every record has exactly one tag (the files above mix 0..3 tags); BED files with 5 columns read as BED3.
# Same records (same non-canonical text, same unequal lengths) as VCF_A/VCF_B, SAM_A/SAM_B, BED6_A/BED6_B.
# --------------------------------------------------------------------------------------------------------------

def _vcf_columns(recs, n_samples, fmt=True):
    out = []
    for r, (line,) in enumerate(recs):
        cols = line.split("\t")
        fixed, f, s = cols[:8], cols[8], cols[9:]
        # a third sample value of the record's FORMAT: 'GT:DP' -> DP with one more digit, 'GT' -> alleles swapped
        pool = s + [s[0] + "0" if ":" in f else s[1][::-1]]
        if not fmt:
            out.append([_tab(*fixed)])
        elif n_samples == 1:
            out.append([_tab(*(fixed + [f, pool[r % 2]]))])
        else:
            out.append([_tab(*(fixed + [f] + pool[:n_samples]))])
    return out


def _vcf_head(n_samples, fmt=True, info=False):
    head = VCF_HEAD_INFO if info else VCF_HEAD_NOINFO
    cols = "#CHROM\tPOS\tID\tREF\tALT\tQUAL\tFILTER\tINFO" + ("\tFORMAT" if fmt else "") + "".join("\ts%d" % (i + 1) for i in range(n_samples))
    return head[:head.index("#CHROM")] + cols + "\n"


def _sam_tags(recs, n_tags):
    out = []
    for r, (line,) in enumerate(recs):
        cols = line.split("\t")
        tags = cols[11:] or ["NM:i:0%d" % r]
        out.append([_tab(*(cols[:11] + tags[-n_tags:] if n_tags else cols[:11]))])
    return out


VCF_F_COLS = VCF_F[:7] + [("info", None)]      # INFO is checked, not replaced (replacing it: variant vcf_noinfo, 'solo')


def _vcf_column_spec(buffer, n_samples, fmt, info, tag, kind):
    genotypes = buffer == "VCFBuffer2"
    return dict(family="vcf", suffix=".vcf", buffer=buffer, header=_vcf_head(n_samples, fmt, info),
                A=_vcf_columns(VCF_A, n_samples, fmt), B=_vcf_columns(VCF_B, n_samples, fmt),
                fields=VCF_F_COLS + ([("genotype", None)] if genotypes else []),
                parse=_delimited(_names(VCF_F), rest_name="genotype") if genotypes else _delimited(_names(VCF_F), at_least=True),
                lines=1, touch=["position", "alt_seq"] + (["genotype"] if genotypes else []), columns=tag, colgen=kind)


# variant -> spec; "columns": the tag of the variant in the signatures, "colgen": which programs (gen_columns)
COLUMN_SPECS = {
    "vcf2_nofmt": _vcf_column_spec("VCFBuffer2", 0, False, False, "vcf2:no-FORMAT-column", "rest"),
    "vcf2_s0": _vcf_column_spec("VCFBuffer2", 0, True, False, "vcf2:FORMAT-and-0-samples", "rest"),
    "vcf2_s1": _vcf_column_spec("VCFBuffer2", 1, True, False, "vcf2:1-sample", "rest"),
    "vcf2_s3": _vcf_column_spec("VCFBuffer2", 3, True, False, "vcf2:3-samples", "rest"),
    "vcf2_info_s1": _vcf_column_spec("VCFBuffer2", 1, True, True, "vcf2+INFO-header:1-sample", "mini"),
    "vcf_nofmt": _vcf_column_spec(None, 0, False, False, "vcf:no-FORMAT-column", "plain"),
    "vcf_s1": _vcf_column_spec(None, 1, True, False, "vcf:1-sample", "plain"),
    "vcf_s3": _vcf_column_spec(None, 3, True, False, "vcf:3-samples", "plain"),
    "sam_t0": dict(family="sam", suffix=".sam", buffer=None, header=SAM_HEAD, A=_sam_tags(SAM_A, 0), B=_sam_tags(SAM_B, 0),
                   fields=SAM_F, parse=_delimited(_names(SAM_F)[:11], rest_name="extra"), lines=1,
                   touch=["position", "name", "extra"], columns="sam:no-tags", colgen="rest"),
    "sam_t1": dict(family="sam", suffix=".sam", buffer=None, header=SAM_HEAD, A=_sam_tags(SAM_A, 1), B=_sam_tags(SAM_B, 1),
                   fields=SAM_F, parse=_delimited(_names(SAM_F)[:11], rest_name="extra"), lines=1,
                   touch=["position", "name", "extra"], columns="sam:1-tag-in-every-record", colgen="rest"),
    "bed3_c5": dict(family="delimited", suffix=".bed", buffer=None, header="", A=[[_tab(*l[0].split("\t")[:5])] for l in BED6_A],
                    B=[[_tab(*l[0].split("\t")[:5])] for l in BED6_B], fields=BED_F, parse=_delimited(_names(BED_F), at_least=True),
                    lines=1, touch=["start", "chromosome"], columns="bed3:5-columns", colgen="plain"),
}
SPECS.update(COLUMN_SPECS)
COLUMN_VARIANTS = list(COLUMN_SPECS)


def bam_material():
    from .refmodels import bam_ref as R
    header = R.encode_header("@HD\tVN:1.6\tSO:unsorted\n@SQ\tSN:chr1\tLN:1000\n@SQ\tSN:chr2\tLN:500\n", [("chr1", 1000), ("chr2", 500)])
    A = [R.encode_record(0, 9, 60, 0, "r1", [("M", 4)], "ACGT", [40, 40, 40, 40], tags=R.tag_int("NM", 0) + R.tag_str("MD", "4")),
         R.encode_record(1, 4, 7, 16, "read2", [("M", 2), ("I", 1), ("M", 2)], "ACGTA", None, next_ref_id=1, next_pos=19, tlen=-15),
         R.encode_record(0, 0, 0, 4, "r3", [], "AC", [2, 0], tags=R.tag_char("XS", "+")),
         R.encode_record(0, 122, 255, 99, "fourth_read/1", [("S", 3), ("M", 4)], "ACGTNCG", [40, 40, 40, 40, 40, 40, 2],
                         next_ref_id=1, next_pos=6, tlen=30, tags=R.tag_int("NM", 1) + R.tag_str("XZ", "a b c") + R.tag_str("RG", "grp"))]
    B = [R.encode_record(1, 0, 0, 0, "b1", [("M", 1)], "A", [40]),
         R.encode_record(0, 399, 30, 83, "bb2", [("M", 10)], "ACGTACGTAC", [40] * 10, next_ref_id=0, next_pos=349, tlen=-60,
                         tags=R.tag_int("AS", -5)),
         R.encode_record(1, 10, 3, 0, "b3", [("M", 3)], "ACG", None, tags=R.tag_str("YT", "UU"))]
    return header, A, B


# --------------------------------------------------------------------------------------------------------------
# index operations
# --------------------------------------------------------------------------------------------------------------

def build_index(op):
    import numpy as np
    k = op[0]
    if k == "slice":
        return slice(op[1], op[2], op[3])
    if k == "mask":
        return np.array(op[1], dtype=bool)
    if k == "ints":
        return list(op[1])
    if k == "npints":
        return np.array(op[1], dtype=int)
    # the other forms of the same selections (scope extension 'index forms')
    if k == "lmask":
        return [bool(x) for x in op[1]]
    if k == "lnpmask":
        return [np.bool_(x) for x in op[1]]
    if k == "tupmask":
        return (np.array(op[1], dtype=bool),)
    if k in ("npints32", "npints8", "npuints8"):
        return np.array(op[1], dtype={"npints32": np.int32, "npints8": np.int8, "npuints8": np.uint8}[k])
    if k == "lnpints":
        return [np.int64(x) for x in op[1]]
    if k == "range":
        return range(op[1], op[2], op[3])
    raise ValueError(op)


# index forms: kind of op -> (what the values are, class of the form in the signatures)
INDEX_FORMS = {"lmask": ("mask", "mask-as-list"), "lnpmask": ("mask", "mask-as-list"), "tupmask": ("mask", "mask-in-tuple"),
               "npints32": ("ints", "int-array-of-narrow-dtype"), "npints8": ("ints", "int-array-of-narrow-dtype"),
               "npuints8": ("ints", "int-array-of-narrow-dtype"), "lnpints": ("ints", "list-of-numpy-ints"),
               "range": ("range", "range-object")}


def op_family(op):
    if op[0] == "slice":
        return "step" if op[3] not in (None, 1) else "slice"
    return op[0]


def form_order(op, m):
    """NumPy's meaning of an index in one of the INDEX_FORMS on a sequence of length m, spelled out in plain Python:
    a boolean mask (in whatever container) selects the positions where it is True, integers select those positions
    (negative: from the end), a range its members"""
    what = INDEX_FORMS[op[0]][0]
    if what == "mask":
        if len(op[1]) != m:
            raise ValueError("mask of length %d for %d rows" % (len(op[1]), m))
        return [i for i, b in enumerate(op[1]) if b]
    if what == "ints":
        if any(not -m <= j < m for j in op[1]):
            raise ValueError("index out of range: %r for %d rows" % (op[1], m))
        return [j if j >= 0 else m + j for j in op[1]]
    if any(not 0 <= j < m for j in range(op[1], op[2], op[3])):
        raise ValueError("range out of bounds: %r for %d rows" % (op[1:], m))
    return list(range(op[1], op[2], op[3]))


def apply_model(rows, op):
    import numpy as np
    if op[0] in INDEX_FORMS:
        return [rows[j] for j in form_order(op, len(rows))]
    order = np.arange(len(rows))[build_index(op)]
    return [rows[int(j)] for j in np.atleast_1d(order)]


def S(a, b, c=None):
    return ["slice", a, b, c]


def core_ops(m):
    if m == 0:
        return [S(None, None)]
    alt = [bool((i + 1) % 2) for i in range(m)]
    return [S(1, None), S(None, -1), S(None, None, 2), S(None, None, -1), ["mask", alt], ["mask", [not x for x in alt]],
            ["ints", [m - 1, 0, 0]], ["npints", [-1, 0]]]


def full_ops(m):
    if m == 0:
        return [S(None, None), ["mask", []], ["npints", []]]
    ops = core_ops(m) + [S(None, None), S(1, -1), S(1, None, 2), S(None, None, -2), S(m - 1, None), S(None, 1), S(None, 0),
                         ["mask", [True] * m], ["mask", [False] * m], ["mask", [False] * (m - 1) + [True]],
                         ["npints", []], ["ints", [min(1, m - 1)] * 3]]
    if m <= 4:
        ops.append(["npints", list(range(m)) * 2])
        ops += [["ints", [i]] for i in range(m)]
    return ops


def chains(m0, max_len, ops_at):
    """all op sequences of length 0..max_len; ops_at(depth, m) -> ops available at that depth for current length m"""
    def rec(prefix, m, depth):
        yield prefix
        if depth == max_len:
            return
        for op in ops_at(depth, m):
            m2 = len(apply_model(list(range(m)), op))
            yield from rec(prefix + [op], m2, depth + 1)
    return rec([], m0, 0)


def chain_expr(base, ops, mat=False):
    e = base
    for op in ops:
        e = ["idx", e, op]
        if mat:
            e = ["mat", e]
    return e


# --------------------------------------------------------------------------------------------------------------
# evaluation of a program on the real library and on the model
# --------------------------------------------------------------------------------------------------------------

class EvalError(Exception):
    def __init__(self, where, exc):
        super().__init__("%s: %r" % (where, exc))
        self.where, self.exc = where, exc


class Violation(Exception):
    def __init__(self, kind, message, field=None):
        super().__init__(message)
        self.kind, self.message, self.field = kind, message, field


class Ctx:
    def __init__(self, tmp, variant, eol):
        self.tmp, self.variant, self.eol = tmp, variant, eol
        self.spec = SPECS[variant]
        self.family = self.spec["family"]
        self.eolb = b"\r\n" if eol == "crlf" else b"\n"
        self.rep_count = 0
        self.n_out = 0
        self.io_mode = "file"
        self.tables = {}
        if variant == "bam":
            from .refmodels import bam_ref as R
            self.header, A, B = bam_material()
            self.recs = {"A": A, "B": B}
            self.fieldtext = None
            self.filebytes = {n: R.bgzf_compress(self.header + b"".join(self.recs[n])) for n in "AB"}
        else:
            sp = self.spec
            self.header = sp["header"].replace("\n", "\r\n").encode() if eol == "crlf" else sp["header"].encode()
            self.recs = {n: [self.eolb.join(l.encode() for l in rec) + self.eolb for rec in sp[n]] for n in "AB"}
            self.fieldtext = {n: [sp["parse"](rec) for rec in sp[n]] for n in "AB"}
            self.filebytes = {n: self.header + b"".join(self.recs[n]) for n in "AB"}
        for name in "AB":
            with open(self.path(name), "wb") as f:
                f.write(self.filebytes[name])

    def path(self, name):
        return os.path.join(self.tmp, "%s_%s_%s%s" % (self.variant, self.eol, name, self.spec["suffix"]))

    def buffer_type(self):
        b = self.spec["buffer"]
        if b is None:
            return None
        if b == "Bed6Buffer":
            from bionumpy.io.delimited_buffers import Bed6Buffer
            return Bed6Buffer
        if b == "VCFBuffer2":
            from bionumpy.io.vcf_buffers import VCFBuffer2
            return VCFBuffer2
        if b == "TwoLineFastaBuffer":
            from bionumpy.io.one_line_buffer import TwoLineFastaBuffer
            return TwoLineFastaBuffer
        raise ValueError(b)

    def _buffer_class(self):
        bt = self.buffer_type()
        if bt is None:
            from bionumpy.io.files import buffer_types
            bt = buffer_types[self.spec["suffix"]]
        return bt

    def _open_read(self, name):
        """bnp.open on the real file, or (in-memory mode) the same reader classes that bnp.open assembles, over a
        BytesIO holding the same bytes: file opens dominate the run time in the sandbox, so only the shallow
        programs and the chunked reads go through the file system"""
        import bionumpy as bnp
        if self.io_mode == "file":
            return bnp.open(self.path(name), buffer_type=self.buffer_type())
        import io
        import gzip
        from bionumpy.io.parser import NumpyFileReader
        from bionumpy.io.npdataclassreader import NpDataclassReader
        raw = io.BytesIO(self.filebytes[name])
        if self.variant == "bam":
            reader = NumpyFileReader(gzip.GzipFile(fileobj=raw, mode="rb"), self._buffer_class())
            reader.set_prepend_mode()
        else:
            reader = NumpyFileReader(raw, self._buffer_class())
        return NpDataclassReader(reader)

    def read(self, name):
        # one read per file and program: all operands taken from the same file share one table object (the usual
        # shape of user code: np.concatenate([t[i], t[j]])); operands from A and B are distinct buffers
        if name not in self.tables:
            with self._open_read(name) as f:
                self.tables[name] = f.read()
        return self.tables[name]

    def read_chunks(self, name, k):
        with self._open_read(name) as f:
            return list(f.read_chunks(min_chunk_size=k))

    def write(self, table):
        import bionumpy as bnp
        self.n_out += 1
        if self.io_mode == "file":
            p = os.path.join(self.tmp, "out_%s%s" % (self.variant, self.spec["suffix"]))
            with bnp.open(p, "w", buffer_type=self.buffer_type()) as f:
                f.write(table)
            with open(p, "rb") as f:
                data = f.read()
        else:
            import io
            import gzip
            from bionumpy.io.parser import NpBufferedWriter

            class Keep(io.BytesIO):
                def close(self):
                    self.kept = self.getvalue()
                    super().close()
            sink = Keep()
            if self.variant == "bam":
                gz = gzip.GzipFile(fileobj=sink, mode="wb")
                with NpBufferedWriter(gz, self._buffer_class()) as f:
                    f.write(table)
                data = sink.getvalue()
            else:
                with NpBufferedWriter(sink, self._buffer_class()) as f:
                    f.write(table)
                data = sink.kept
        if self.variant == "bam":
            from .refmodels import bam_ref as R
            data = R.decompress(data)
        return data

    # ---- new values for replaced fields -------------------------------------------------------------------
    def new_values(self, field, kind, rows):
        """-> (array handed to bnp.replace, list of expected texts (or ('float', v)))"""
        import numpy as np
        import bionumpy as bnp
        from bionumpy.string_array import as_string_array
        from bionumpy.encoded_array import EncodedArray, EncodedRaggedArray
        salt = self.rep_count
        m = len(rows)
        if kind in ("int", "vcfpos"):
            v = [3 + 7 * j + salt for j in range(m)]
            return np.array(v, dtype=int), [str(x + (1 if kind == "vcfpos" else 0)) for x in v]
        if kind == "float":
            v = [0.5 + j + salt for j in range(m)]
            return np.array(v, dtype=float), [("float", x) for x in v]
        if kind == "str":
            v = ["s%dq%s" % (salt, "x" * j) for j in range(m)]
            return bnp.as_encoded_array(v) if m else bnp.as_encoded_array(["x"])[:0], v
        if kind == "seqid":
            v = ["n%d_%s" % (salt, "y" * j) for j in range(m)]
            return as_string_array(v), v
        if kind == "strand":
            from bionumpy.encodings import StrandEncoding
            v = ["+-"[(j + salt) % 2] for j in range(m)]
            return bnp.as_encoded_array("".join(v), StrandEncoding), v
        if kind == "dna_same_len":
            v = ["ACGT"[(j + salt) % 4] * len(self.fieldtext[f][i][field]) for j, (f, i, _) in enumerate(rows)]
            return bnp.as_encoded_array(v), v
        if kind == "quality":
            from bionumpy.encodings import QualityEncoding
            v = ["".join(chr(33 + (j + salt + k) % 41) for k in range(len(self.fieldtext[f][i][field])))
                 for j, (f, i, _) in enumerate(rows)]
            flat = np.array([ord(c) - 33 for s in v for c in s], dtype=np.uint8)
            return EncodedRaggedArray(EncodedArray(flat, QualityEncoding), [len(s) for s in v]), v
        raise ValueError(kind)

    # ---- expected / observed -----------------------------------------------------------------------------
    def source_bytes(self, rows):
        return b"".join(self.recs[f][i] for f, i, _ in rows)

    def split_output(self, body):
        """observed text -> list of records (each a list of lines without line terminator)"""
        n = self.spec["lines"]
        if body == b"":
            return []
        if not body.endswith(b"\n"):
            raise ValueError("output does not end with a newline: %r" % body[-40:])
        lines = body[:-1].split(b"\n")
        lines = [(l[:-1] if l.endswith(b"\r") else l).decode("latin-1") for l in lines]
        if len(lines) % n:
            raise ValueError("number of output lines %d is not a multiple of %d" % (len(lines), n))
        return [lines[i:i + n] for i in range(0, len(lines), n)]


def classify(cx, body, exp):
    if b"\r\n" in exp and body == exp.replace(b"\r\n", b"\r"):
        return "crlf-newline-dropped"
    if b"\r\n" in exp and body == exp.replace(b"\r\n", b"\n"):
        return "crlf-rewritten-to-lf"
    if cx.variant != "bam":
        try:
            g, e = cx.split_output(body), cx.split_output(exp)
            if len(g) == len(e) and all(len(a) == len(b) for a, b in zip(g, e)):
                diffs = []
                for ra, rb in zip(g, e):
                    for la, lb in zip(ra, rb):
                        ca, cb = la.split("\t"), lb.split("\t")
                        if len(ca) != len(cb):
                            raise ValueError
                        diffs += [(x, y) for x, y in zip(ca, cb) if x != y]

                def canon(s):
                    try:
                        return ("i", int(s))
                    except ValueError:
                        return ("f", float(s))
                if diffs and all(canon(x) == canon(y) for x, y in diffs):
                    return "noncanonical-text-rewritten"
        except Exception:
            pass
    return "wrong-bytes"


def check_table(cx, table, rows, exact, mixed_fields=()):
    """the contract: raises Violation.  exact=True: the table is a pure selection of one file -> the written bytes are
    the source bytes (first sentence of the property); otherwise (concatenated and / or replaced) every field of the
    entry type that was not replaced has its source text (second sentence)"""
    got = cx.write(table)
    header = cx.header
    body = got[len(header):] if (header and got.startswith(header)) else got
    if exact:
        exp = cx.source_bytes(rows)
        if body != exp:
            raise Violation(classify(cx, body, exp), "written %r expected the source bytes %r" % (body[:300], exp[:300]))
        return
    if cx.eol == "crlf" and body.count(b"\r") > body.count(b"\r\n"):
        raise Violation("crlf-newline-dropped", "a carriage return without line feed in the output %r" % body[:300])
    try:
        recs = cx.split_output(body)
        parsed = [cx.spec["parse"](r) for r in recs]
    except ValueError as e:
        raise Violation("record-structure", "output not parseable: %s; output %r" % (e, body[:300]))
    if len(parsed) != len(rows):
        raise Violation("record-structure", "%d records written, %d expected; output %r" % (len(parsed), len(rows), body[:300]))
    for r, (got_f, (f, i, ov)) in enumerate(zip(parsed, rows)):
        src = cx.fieldtext[f][i]
        for name, _ in cx.spec["fields"]:
            if name in mixed_fields:
                continue
            if name in ov:
                e = ov[name]
                ok = (abs(float(got_f[name]) - e[1]) < 1e-9) if isinstance(e, tuple) and _is_float(got_f[name]) else got_f[name] == e
                if not ok:
                    raise Violation("replaced-column-wrong", "record %d field %s: written %r, new value %r; output %r"
                                    % (r, name, got_f[name], e, body[:300]), field=name)
            elif got_f[name] != src[name]:
                raise Violation("noncanonical-text-rewritten" if _same_number(got_f[name], src[name]) else "unreplaced-field-changed", "record %d (source %s[%d]) field %s: written %r, source text %r; output %r"
                                % (r, f, i, name, got_f[name], src[name], body[:300]), field=name)


def _same_number(a, b):
    try:
        return float(a) == float(b)
    except ValueError:
        return False


def _is_float(s):
    try:
        float(s)
        return True
    except ValueError:
        return False


def evaluate(cx, node):
    """-> (real table, model rows); checks at every 'mat'"""
    import numpy as np
    import bionumpy as bnp
    k = node[0]

    def real(where, fn):
        try:
            return fn()
        except (EvalError, Violation):
            raise
        except Exception as e:
            raise EvalError(where, e)

    if k == "read":
        t = real("read", lambda: cx.read(node[1]))
        return t, [(node[1], i, {}) for i in range(len(cx.recs[node[1]]))], True
    if k == "chunks":
        chunks = real("read", lambda: cx.read_chunks(node[1], node[2]))
        rows = [(node[1], i, {}) for i in range(len(cx.recs[node[1]]))]
        lens = real("len", lambda: [len(c) for c in chunks])
        if sum(lens) != len(rows):
            raise Violation("chunks-lose-records", "chunk lengths %r for %d records" % (lens, len(rows)))
        parts, pos = [], 0
        for c, n in zip(chunks, lens):
            r = rows[pos:pos + n]
            pos += n
            if node[3] is not None:
                c = real("idx:" + op_family(node[3]), lambda: c[build_index(node[3])])
                r = apply_model(r, node[3])
            parts.append((c, r))
        if len(parts) == 1:
            return parts[0][0], parts[0][1], True
        t = real("cat", lambda: np.concatenate([p[0] for p in parts]))
        return t, [x for p in parts for x in p[1]], False
    if k == "idx":
        t, rows, exact = evaluate(cx, node[1])
        t2 = real("idx:" + op_family(node[2]), lambda: t[build_index(node[2])])
        return t2, apply_model(rows, node[2]), exact
    if k == "touch":
        t, rows, exact = evaluate(cx, node[1])
        if len(node) > 3 and node[3] == "if-parsable":
            # float columns: the source files hold spellings ('+2.5', '1E1') that the float parser does not accept; whether
            # it should is not this property's business - the column then just stays out of the cache
            from bionumpy.io.exceptions import FormatException, ParsingException
            try:
                getattr(t, node[2])
            except (FormatException, ParsingException):
                pass
            except Exception as e:
                raise EvalError("touch", e)
        else:
            real("touch", lambda: getattr(t, node[2]))
        return t, rows, exact
    if k == "mat":
        t, rows, exact = evaluate(cx, node[1])
        real("write", lambda: check_table(cx, t, rows, exact, cx_mixed(rows)))
        return t, rows, exact
    if k == "cat":
        parts = [evaluate(cx, e) for e in node[1]]
        t = real("cat", lambda: np.concatenate([p[0] for p in parts]))
        return t, [x for p in parts for x in p[1]], False
    if k == "after":
        t, rows, exact = evaluate(cx, node[1])
        real("write", lambda: check_table(cx, t, rows, exact, cx_mixed(rows)))
        return evaluate(cx, node[2])
    if k in ("rep", "set"):
        t, rows, exact = evaluate(cx, node[1])
        t2, rows2 = _replaced(cx, real, t, rows, node[2], in_place=(k == "set"))
        return t2, rows2, False
    if k == "hist":
        t, rows, exact = evaluate(cx, node[1])
        for step in node[2]:
            if step[0] == "w":
                real("write", lambda: check_table(cx, t, rows, exact, cx_mixed(rows)))
            elif step[0] == "t":
                real("touch", lambda: getattr(t, step[1]))
            elif step[0] == "rw":
                t2, rows2 = _replaced(cx, real, t, rows, step[1])
                real("write", lambda: check_table(cx, t2, rows2, False, cx_mixed(rows2)))
            else:
                raise ValueError(step)
        return t, rows, exact
    raise ValueError(node)


def _replaced(cx, real, t, rows, fields, in_place=False):
    """bnp.replace(t, field=new values ...) (or, in place, t.field = new values) -> (table, model rows)"""
    import bionumpy as bnp
    kinds = dict(cx.spec["fields"])
    cx.rep_count += 1
    vals, texts = {}, {}
    for f in fields:
        vals[f], texts[f] = cx.new_values(f, kinds[f], rows)
    if in_place:
        def assign():
            for f in fields:
                setattr(t, f, vals[f])
            return t
        t2 = real("assign", assign)
    else:
        t2 = real("replace", lambda: bnp.replace(t, **vals))
    rows2 = [(f, i, dict(ov, **{name: texts[name][j] for name in fields})) for j, (f, i, ov) in enumerate(rows)]
    return t2, rows2


def n_nodes(e):
    if e[0] in ("read", "chunks"):
        return 1
    if e[0] == "cat":
        return 1 + sum(n_nodes(x) for x in e[1])
    if e[0] == "after":
        return 1 + n_nodes(e[1]) + n_nodes(e[2])
    return 1 + n_nodes(e[1])


def cx_mixed(rows):
    """fields replaced in some rows but not in all (concatenation of replaced and unreplaced operands): what the
    replaced column shows there is not constrained by this property"""
    keys = [frozenset(ov) for _, _, ov in rows]
    if not keys:
        return set()
    return set(frozenset.union(*keys) - frozenset.intersection(*keys))


def replaced_fields(e):
    if e[0] in ("read", "chunks"):
        return set()
    if e[0] == "cat":
        return set().union(*[replaced_fields(x) for x in e[1]])
    if e[0] == "after":
        return replaced_fields(e[1]) | replaced_fields(e[2])
    if e[0] == "hist":
        return replaced_fields(e[1]).union(*[set(st[1]) for st in e[2] if st[0] == "rw"])
    return replaced_fields(e[1]) | (set(e[2]) if e[0] in ("rep", "set") else set())


# groups (first component) whose failures get signatures of their own: <group>:<kind>:<format family>:<line ending>
OWN_SIGNATURE_GROUPS = ("replace-with-cached-field", "selection-history")


def column_signature(cx, program, what):
    """failures in the files of the column-count scope (COLUMN_SPECS): trailing-columns:<buffer>:<column count>:<which
    write path>:<symptom>[:<field>] - independent of the program shape, so that one defect of the 'rest of line' code
    is one finding.  Unreadable files and exceptions of np.concatenate keep the signatures they have for the other
    files (that code does not depend on the number of columns)."""
    path = "replaced-write" if replaced_fields(program) else "passthrough"
    return "trailing-columns:%s:%s:%s" % (cx.spec["columns"], path, what)


def index_form_signature(cx, group, what):
    """failures of the index-form scope (gen_index_forms): index-form:<class of the form>:<symptom>:<reader class> - the
    selection code is shared by all lazily read text formats (one extractor class) and separate for BAM, and does not
    depend on the line ending or on where in the program the index is used, so neither is in the signature"""
    return "index-form:%s:%s:%s" % (group.split(":")[1], what, "bam" if cx.family == "bam" else "lazy-text")


def run_program(cx, group, program):
    """-> None if the contract holds, else (signature, message).
    Signatures: symptoms that do not depend on the program shape (line terminator lost, text canonicalised, file
    unreadable) carry no group; exceptions raised by np.concatenate carry the group (which says what kind of operands
    were concatenated) but no format, because that code is format independent; exceptions while writing a table with
    replaced fields carry the replaced fields; everything else is group:kind:format family:line ending."""
    cx.rep_count = 0
    cx.tables = {}
    fam = cx.family
    cx.io_mode = "file" if (n_nodes(program) <= 2 or group in ("replace", "chunked-read-concat")) else "mem"
    try:
        t, rows, exact = evaluate(cx, program)
        try:
            check_table(cx, t, rows, exact, cx_mixed(rows))
        except Violation:
            raise
        except Exception as e:
            raise EvalError("write", e)
    except Violation as v:
        if group.startswith("index-form:") and v.kind not in ("crlf-newline-dropped", "crlf-rewritten-to-lf"):
            return index_form_signature(cx, group, v.kind), v.message
        if "columns" in cx.spec:
            return column_signature(cx, program, v.kind + (":" + v.field if v.field else "")), v.message
        if group.split(":")[0] in OWN_SIGNATURE_GROUPS:
            g0 = group.split(":")[0]
            if v.kind == "noncanonical-text-rewritten" and replaced_fields(program):
                # a column that was not replaced is written from parsed values instead of its source text: decided in
                # the lazy table, the same for every format and for both groups
                return "replace-with-cached-field:%s" % v.kind, v.message
            return "%s:%s:%s:%s" % (g0, v.kind, fam, cx.eol), v.message
        if v.kind in ("crlf-newline-dropped", "crlf-rewritten-to-lf", "noncanonical-text-rewritten"):
            # bed / bed6 / narrowPeak / vcf share DelimitedBuffer._get_buffer_extractor
            return "passthrough:%s:%s" % (v.kind, "delimited" if fam == "vcf" else fam), v.message
        return "%s:%s:%s:%s" % (group, v.kind, fam, cx.eol), v.message
    except EvalError as e:
        tname = type(e.exc).__name__
        msg = repr(e.exc)[:400]
        if e.where == "read":
            return "read:exception:%s:%s:%s" % (tname, fam, cx.eol), msg
        if group.startswith("index-form:"):
            return index_form_signature(cx, group, "exception-in-%s:%s" % (e.where.split(":")[0], tname)), msg
        if "columns" in cx.spec and e.where != "cat":
            return column_signature(cx, program, "exception-in-%s:%s" % (e.where, tname)), msg
        if group.split(":")[0] in OWN_SIGNATURE_GROUPS:
            return "%s:exception-in-%s:%s:%s:%s" % (group.split(":")[0], e.where, tname, fam, cx.eol), msg
        if e.where == "cat":
            if isinstance(e.exc, AssertionError) and "lazybnpdataclass" in msg and "bnpdataclass.bnpdataclass" in msg:
                # an operand that is itself the result of a non-lazy concatenation, concatenated with a lazy table
                return "concat:eager-and-lazy-operands:exception-in-cat:AssertionError", msg
            return "%s:exception-in-cat:%s" % (group, tname), msg
        rep = replaced_fields(program)
        if rep and e.where in ("write", "replace"):
            # fields that are only enumerated on their own (spec["solo"]) are named, the others are not
            solo = sorted(rep & set(cx.spec.get("solo", [])))
            return "replace%s:exception-in-%s:%s:%s" % ("[%s]" % ",".join(solo) if solo else "", e.where, tname, fam), msg
        return "%s:exception-in-%s:%s:%s:%s" % (group, e.where, tname, fam, cx.eol), msg
    return None


# --------------------------------------------------------------------------------------------------------------
# case generators.  level: 0 = reduced, 1 = standard, 2 = deep
# --------------------------------------------------------------------------------------------------------------

A_, B_ = ["read", "A"], ["read", "B"]
NA, NB = 4, 3
REV = S(None, None, -1)
NEG = ["ints", [-1, 0, 0]]          # valid for every non-empty table: last, first, first


def gen_select(level):
    if level == 2:
        for ops in chains(NA, 3, lambda d, m: full_ops(m)):
            yield "select", chain_expr(A_, ops)
        for ops in chains(NB, 2, lambda d, m: full_ops(m)):
            yield "select", chain_expr(B_, ops)
    elif level == 1:
        for ops in chains(NA, 2, lambda d, m: full_ops(m)):
            yield "select", chain_expr(A_, ops)
        for ops in chains(NA, 3, lambda d, m: core_ops(m)):
            if len(ops) == 3:
                yield "select", chain_expr(A_, ops)
        for ops in chains(NB, 1, lambda d, m: full_ops(m)):
            yield "select", chain_expr(B_, ops)
    else:
        for ops in chains(NA, 2, lambda d, m: full_ops(m) if d == 0 else core_ops(m)):
            yield "select", chain_expr(A_, ops)
    # the same with every intermediate table written (compaction happens in place, the object is used further)
    if level == 2:
        at = lambda d, m: full_ops(m) if d < 1 else core_ops(m)
    else:
        at = lambda d, m: core_ops(m)
    for ops in chains(NA, 3 if level else 2, at):
        if len(ops) >= 2:
            yield "select-materialised", chain_expr(A_, ops, mat=True)


def gen_access(spec, level):
    fields = spec["touch"] if level else spec["touch"][:1]
    for f in fields:
        yield "select-after-field-access", ["touch", A_, f]
        for ops in chains(NA, 2 if level else 1, lambda d, m: core_ops(m)):
            if len(ops) == 0:
                continue
            e = ["touch", A_, f]
            for op in ops:
                e = ["touch", ["idx", e, op], f]
            yield "select-after-field-access", e
    if len(spec["touch"]) > 1:
        e = A_
        for f in spec["touch"]:
            e = ["touch", e, f]
        yield "select-after-field-access", ["idx", e, NEG]


def operand_pool():
    pool = []
    for base, n in ((A_, NA), (B_, NB)):
        pool.append(base)
        for op in core_ops(n):
            pool.append(["idx", base, op])
    return pool


def small_pool():
    return [A_, ["idx", A_, NEG], ["idx", A_, S(1, None)],
            B_, ["idx", B_, REV], ["idx", B_, ["mask", [False, True, True]]]]


def gen_concat(level):
    sp = small_pool()
    posts = [REV, S(1, None), NEG, ["mask", "alt"], S(None, None, 2), S(None, -1), ["npints", [1, 1]]]
    pool = operand_pool() if level else sp
    for a, b in itertools.product(pool, pool):
        e = ["cat", [a, b]]
        yield "concat", e
        if level == 2:
            for post in posts:
                yield "concat-then-select", ["idx", e, post]
        elif level == 1:
            if a[0] == "idx" or b[0] == "idx":
                for post in posts[:2]:
                    yield "concat-then-select", ["idx", e, post]
        else:
            yield "concat-then-select", ["idx", e, NEG]
    # operands / result materialised (contiguous-flag paths), further selection
    for a, b in itertools.product(sp, sp):
        if level == 0 and (a[0] != "idx" or b[0] != "idx"):
            continue
        for ma, mb in ((True, False), (False, True), (True, True)):
            yield "concat-materialised", ["cat", [["mat", a] if ma else a, ["mat", b] if mb else b]]
        yield "concat-materialised", ["idx", ["mat", ["cat", [a, b]]], NEG]
        for post in (posts[:3] if level else posts[:1]):
            yield "concat-then-select", ["idx", ["idx", ["cat", [a, b]], post], REV]
    # three operands (cumulative offsets), nested concatenations
    sp3 = sp if level else [sp[1], sp[3], sp[5]]
    for a, b, c in itertools.product(sp3, sp3, sp3):
        yield "concat3", ["cat", [a, b, c]]
        if level == 2 or (a is not b):
            yield "concat3", ["idx", ["cat", [a, b, c]], REV]
    sp4 = sp if level == 2 else (sp[1:3] + sp[4:6] if level == 1 else [sp[1], sp[4]])
    for a, b, c in itertools.product(sp4, sp4, sp4):
        yield "concat-nested", ["cat", [["cat", [a, b]], c]]
        yield "concat-nested", ["cat", [a, ["cat", [b, c]]]]
    # select, select again, then concatenate
    others = [B_, ["idx", B_, ["ints", [2, 0]]], ["idx", A_, S(1, None)]]
    for ops in chains(NA, 2, lambda d, m: core_ops(m)):
        if len(ops) != 2:
            continue
        x = chain_expr(A_, ops)
        for y in (others if level == 2 else others[:2] if level == 1 else others[1:2]):
            yield "select2-then-concat", ["cat", [x, y]]
            yield "select2-then-concat", ["cat", [y, x]]
    # empty operands
    empty = ["idx", A_, S(None, 0)]
    for y in (B_, ["idx", B_, ["ints", [2, 0]]]):
        yield "concat-empty-operand", ["cat", [empty, y]]
        yield "concat-empty-operand", ["cat", [y, empty]]
        yield "concat-empty-operand", ["cat", [y, empty, y]]


def gen_chunks(level, sizes):
    for k in sizes:
        yield "chunked-read-concat", ["chunks", "A", k, None]
        yield "chunked-read-concat", ["chunks", "A", k, REV]
        yield "chunked-read-concat", ["idx", ["chunks", "A", k, None], REV]
        if level == 2:
            yield "chunked-read-concat", ["chunks", "A", k, ["npints", [-1, 0]]]
            yield "chunked-read-concat", ["idx", ["chunks", "B", k, REV], NEG]
            yield "chunked-read-concat", ["cat", [["chunks", "B", k, None], ["idx", ["chunks", "A", k, None], S(1, None)]]]


def field_subsets(spec):
    names = [n for n, kind in spec["fields"] if kind is not None]
    solo = spec.get("solo", [])
    singles = [[n] for n in names]
    pairs = [list(p) for p in itertools.combinations([n for n in names if n not in solo], 2)]
    return singles, pairs


def gen_replace(spec, level, pair_level=None):
    """pair_level: level used for the two-field subsets (default: level)"""
    singles, pairs = field_subsets(spec)
    single_level = level
    if pair_level is None:
        pair_level = level
    ops = core_ops(NA)
    few = [NEG, S(1, None)]
    for fs in singles + pairs:
        single = len(fs) == 1
        level = single_level if single else pair_level
        yield "replace", ["rep", A_, fs]
        if level == 0 and not single:
            yield "select-then-replace", ["rep", ["idx", A_, NEG], fs]
            yield "replace-then-select", ["idx", ["rep", A_, fs], NEG]
            yield "replace-twice", ["rep", ["idx", ["rep", ["idx", A_, few[0]], fs[:1]], few[1]], fs[1:]]
            continue
        for op in (ops if (single or level == 2) else few):
            yield "select-then-replace", ["rep", ["idx", A_, op], fs]
            yield "replace-then-select", ["idx", ["rep", A_, fs], op]
            if single or level == 2:
                yield "materialise-then-replace", ["rep", ["mat", ["idx", A_, op]], fs]
        for op1, op2 in (itertools.product(few + [REV], repeat=2) if (single and level) else [(few[0], few[1])]):
            yield "select-replace-select", ["idx", ["rep", ["idx", A_, op1], fs], op2]
            yield "select-replace-select", ["idx", ["mat", ["rep", ["mat", ["idx", A_, op1]], fs]], op2]
        for op1, op2 in ([(few[0], REV), (S(1, None), ["mask", [False, True, True]])] if level else [(few[0], REV)]):
            cat = ["cat", [["idx", A_, op1], ["idx", B_, op2]]]
            yield "concat-then-replace", ["rep", cat, fs]
            yield "concat-then-replace", ["idx", ["rep", cat, fs], NEG]
            yield "replace-then-concat", ["cat", [["rep", ["idx", A_, op1], fs], ["rep", ["idx", B_, op2], fs]]]
            yield "replace-then-concat", ["idx", ["cat", [["rep", ["idx", A_, op1], fs], ["rep", B_, fs], ["rep", A_, fs]]], REV]
        if not single:
            yield "replace-twice", ["rep", ["rep", A_, fs[:1]], fs[1:]]
            yield "replace-twice", ["rep", ["idx", ["rep", ["idx", A_, few[0]], fs[:1]], few[1]], fs[1:]]
        else:
            yield "replace-twice", ["rep", ["rep", A_, fs], fs]
    level = single_level
    free = [n for n, kind in spec["fields"] if kind is not None and n not in spec.get("solo", [])]
    if len(free) >= 3:
        for n, tri in enumerate(itertools.combinations(free, 3)):
            if level < 2 and n % 7:
                continue
            yield "replace", ["rep", ["idx", A_, few[0]], list(tri)]
        yield "replace", ["rep", A_, free]
        yield "replace", ["idx", ["rep", ["cat", [["idx", A_, NEG], B_]], free], REV]


def gen_mixed(spec, level):
    """concatenation of operands of which only some had a field replaced / a field accessed"""
    singles, _ = field_subsets(spec)
    for fs in (singles if level == 2 else singles[:3]):
        yield "concat-mixed-replaced:unreplaced-first", ["cat", [A_, ["rep", B_, fs]]]
        yield "concat-mixed-replaced:replaced-first", ["cat", [["rep", A_, fs], B_]]
    for f in spec["touch"]:
        yield "concat-after-field-access:accessed-first", ["cat", [["touch", A_, f], B_]]
        yield "concat-after-field-access:accessed-first", ["cat", [["idx", ["touch", A_, f], ["mask", [True, False, True, True]]], B_]]
        yield "concat-after-field-access:accessed-second", ["cat", [A_, ["touch", B_, f]]]
        yield "concat-after-field-access:accessed-both", ["cat", [["touch", A_, f], ["idx", ["touch", B_, f], REV]]]


def gen_isolation(spec, level, lazy_concat=True):
    """deriving and writing a table (selection compacted in place, replacement, concatenation) must not disturb the
    tables it was derived from: the parent / the operands are used again afterwards"""
    singles, pairs = field_subsets(spec)
    fss = singles if level else singles[:2]
    ops = core_ops(NA) if level else core_ops(NA)[:4]
    for op in ops:
        child = ["mat", ["idx", A_, op]]
        yield "isolation:select-then-parent", ["after", child, A_]
        for op2 in (ops if level == 2 else [NEG, S(None, None, 2)]):
            yield "isolation:select-then-parent", ["after", child, ["idx", A_, op2]]
        for fs in fss:
            yield "isolation:select-then-parent-replaced", ["after", child, ["rep", A_, fs]]
            yield "isolation:select-then-parent-replaced", ["after", child, ["rep", ["idx", A_, NEG], fs]]
    for fs in fss + (pairs[:3] if level else []):
        yield "isolation:replace-then-original", ["after", ["rep", A_, fs], A_]
        yield "isolation:replace-then-original", ["after", ["rep", A_, fs], ["idx", A_, NEG]]
        yield "isolation:replace-then-original", ["after", ["rep", ["idx", A_, S(1, None)], fs], ["idx", A_, S(1, None)]]
        yield "isolation:replace-then-original", ["after", ["rep", ["rep", A_, fs], fs], ["rep", A_, fs]]
        sel = ["idx", A_, S(1, None)]
        yield "isolation:replace-then-original", ["after", ["idx", ["rep", sel, fs], NEG], ["rep", sel, fs]]
    cats = [["cat", [A_, B_]], ["cat", [["idx", A_, NEG], B_, A_]], ["cat", [B_, ["idx", B_, REV], A_]]]
    for cat in cats:
        for base in (A_, B_):
            yield "isolation:concat-then-operand", ["after", cat, base]
            yield "isolation:concat-then-operand", ["after", cat, ["idx", base, NEG]]
            for fs in fss[:2]:
                yield "isolation:concat-then-operand", ["after", cat, ["rep", base, fs]]
                yield "isolation:concat-then-operand", ["after", ["rep", cat, fs], ["rep", ["idx", base, REV], fs]]


def _touch_all(e, fields, kinds={}):
    for g in fields:
        e = ["touch", e, g] + (["if-parsable"] if kinds.get(g) == "float" else [])
    return e


def _free_fields(spec):
    """fields that can be replaced / read on their own in every format variant (no sub-table columns, no 'solo' fields)"""
    return [n for n, kind in spec["fields"] if kind is not None and n not in spec.get("solo", [])]


def gen_cached(spec, level):
    """a field is replaced (bnp.replace or attribute assignment) while OTHER fields of the same table - or of the table
    it is selected from afterwards - have been read before and sit in the cache of the lazy table: the columns that
    were not replaced must still be written with their source text (leading zeros, '+', '1e3' ...).  Every replaceable
    field x (all other fields read | one other field read) x where the read happens relative to the replacement."""
    free = _free_fields(spec)
    kinds = dict(spec["fields"])
    sels = [NEG, ["mask", [True, False, True, True]]] + ([S(1, None), REV] if level == 2 else [])
    G = "replace-with-cached-field:"
    for f in free:
        others = [g for g in free if g != f]
        if not others:
            continue
        yield G + "read-after-replace", _touch_all(["rep", A_, [f]], others, kinds)
        yield G + "read-after-assign", _touch_all(["set", ["idx", A_, S(None, None)], [f]], others, kinds)
        for op in sels:
            yield G + "read-after-replace-then-select", ["idx", _touch_all(["rep", A_, [f]], others, kinds), op]
            yield G + "select-read-assign", ["set", _touch_all(["idx", A_, op], others, kinds), [f]]
            yield G + "select-read-replace", ["rep", _touch_all(["idx", A_, op], others, kinds), [f]]
            yield G + "select-replace-select-read", _touch_all(["idx", ["rep", ["idx", A_, op], [f]], REV], others, kinds)
            yield G + "select-replace-read-select", ["idx", _touch_all(["rep", ["idx", A_, op], [f]], others, kinds), REV]
            yield G + "select-read-assign-select", ["idx", ["set", _touch_all(["idx", A_, op], others, kinds), [f]], S(1, None)]
            # (group selection-history: the selection is compacted between the reads and the assignment)
            yield "selection-history:read-write-assign", ["set", ["mat", _touch_all(["idx", A_, op], others, kinds)], [f]]
        if level and len(others) > 1:
            for g in others:        # exactly one other field in the cache
                yield G + "read-after-replace", _touch_all(["rep", A_, [f]], [g], kinds)
                yield G + "read-after-replace-then-select", ["idx", _touch_all(["rep", A_, [f]], [g], kinds), sels[1]]
                yield G + "select-read-assign", ["set", _touch_all(["idx", A_, NEG], [g], kinds), [f]]
    if level and len(free) >= 3:
        # two fields replaced, the rest read; replaced one after the other with a read in between
        for f, g in itertools.combinations(free, 2):
            others = [h for h in free if h not in (f, g)]
            yield G + "read-after-replace", _touch_all(["rep", A_, [f, g]], others, kinds)
            yield G + "replace-read-replace", ["rep", _touch_all(["rep", ["idx", A_, NEG], [f]], others, kinds), [g]]
            yield G + "assign-read-assign", ["set", _touch_all(["set", ["idx", A_, NEG], [f]], others, kinds), [g]]


def history_alphabet(spec, n_touch, n_rep):
    free = _free_fields(spec)
    touch = list(spec["touch"])
    ints = [n for n, kind in spec["fields"] if kind in ("int", "vcfpos")]
    last = spec["fields"][-1][0]
    # fields read: the last column / rest of line (its end is the end of the entry) first, then an integer column
    t_fields = list(dict.fromkeys(([last] if (last in touch or last in free) else []) + ints[:1] + touch))[:n_touch]
    r_sets = [[f] for f in dict.fromkeys(ints[-1:] + free[:1] + free[-1:])][:n_rep]
    return [["w"]] + [["t", g] for g in t_fields] + [["rw", fs] for fs in r_sets], r_sets


def _histories(alphabet, n):
    for steps in itertools.product(alphabet, repeat=n):
        if all(st[0] == "t" for st in steps):
            continue    # reads only: that is select-after-field-access
        yield [list(st) for st in steps]


def gen_history(spec, level):
    """write / read-field / replace-and-write sequences on ONE selection object (the selection is compacted in place by
    the first unmodified write and the field offsets are re-based: whatever was derived from the offsets before must not
    be used afterwards), closed by an unmodified write or by a replacement + write: 3 steps, 4 in the deep level"""
    small, r_small = history_alphabet(spec, 2, 1)
    if level == 0:
        sels = [["idx", A_, NEG]]
    elif level == 1:
        sels = [["idx", A_, NEG], ["idx", A_, ["mask", [True, False, True, True]]]]
    else:
        sels = [["idx", A_, op] for op in (S(None, None, 2), ["mask", [True, False, True, True]], NEG, S(1, None))]
        sels += [A_, ["idx", ["idx", A_, REV], S(1, None)]]
    alphabet, r_sets = history_alphabet(spec, 3, 2) if level == 2 else (small, r_small)
    for n_sel, sel in enumerate(sels):
        for steps in _histories(alphabet, 2):
            yield "selection-history:closed-by-write", ["hist", sel, steps]
            for fs in r_sets:
                yield "selection-history:closed-by-replace", ["rep", ["hist", sel, steps], fs]
            if level and n_sel < 3:
                # the history goes on in a table selected from the compacted one
                yield "selection-history:then-select", ["rep", ["idx", ["hist", sel, steps], S(1, None)], r_sets[0]]
        if level == 2 and n_sel < 3:
            for steps in _histories(small, 3):
                yield "selection-history:closed-by-write", ["hist", sel, steps]
                yield "selection-history:closed-by-replace", ["rep", ["hist", sel, steps], r_small[0]]


def gen_history_bam():
    """BAM: no replacement; field reads and writes interleaved on one selection object, then a further selection"""
    fields = ["name", "cigar_op", "quality"]
    alphabet = [["w"]] + [["t", g] for g in fields]
    for sel in (["idx", A_, NEG], ["idx", A_, ["mask", [True, False, True, True]]], ["idx", A_, S(1, None)]):
        for steps in itertools.product(alphabet, repeat=3):
            if ["w"] not in steps:
                continue
            e = ["hist", sel, [list(st) for st in steps]]
            yield "selection-history:closed-by-write", e
            yield "selection-history:then-select", ["idx", e, REV]


def form_variants(op):
    """the selection of a ["mask", ..] / ["ints", ..] / ["npints", ..] op in every other form (INDEX_FORMS)"""
    if op[0] == "mask":
        return [[k, list(op[1])] for k in ("lmask", "lnpmask", "tupmask")]
    v = list(op[1])
    out = [["npints32", v], ["lnpints", v], ["npints8", v]]
    if all(j >= 0 for j in v):
        out.append(["npuints8", v])
    return out


def _alt(m, first=True):
    return [bool((i + 1) % 2) == first for i in range(m)]


def gen_index_forms(spec, level, replace=True):
    """scope extension 'index forms': NumPy accepts the same selection in several forms - a boolean mask as an array, as
    a Python list of bool (mask.tolist(), a list comprehension), as a list of numpy bools, inside a 1-tuple; row numbers
    as a list, as an array of any integer dtype, as a list of numpy integers, as a range - and a table must select the same
    records for all of them.  Every mask / integer selection of the main enumeration in every other form: directly on the
    table read, on a selection (at the end and in the middle of a chain of selections, also with the intermediate tables
    written), on a table whose fields were read before, as operands of a concatenation and on its result, and before /
    after a field replacement.  The oracle (form_order) spells the meaning of each form out in plain Python."""
    m = NA
    G = lambda f, where: "index-form:%s:%s" % (INDEX_FORMS[f[0]][1], where)
    masks = [_alt(m), _alt(m, False), [True] * m, [False] * m, [False] * (m - 1) + [True], [True] + [False] * (m - 1)]
    intlists = [[m - 1, 0, 0], [-1, 0], [], [1, 1, 1], list(range(m)) * 2, [-m, -1, m - 1]]
    if level == 0:
        masks, intlists = masks[:4], intlists[:3]
    followers = [REV] if level == 0 else [REV, S(1, None), S(None, None, 2)]
    forms = [f for x in masks for f in form_variants(["mask", x])] + [f for v in intlists for f in form_variants(["ints", v])]
    for f in forms:
        yield G(f, "direct"), ["idx", A_, f]
        for op2 in followers:
            yield G(f, "then-select"), ["idx", ["idx", A_, f], op2]
        if level == 2:
            n1 = len(form_order(f, m))
            if n1:
                for g in form_variants(["mask", _alt(n1)]) + form_variants(["ints", [n1 - 1, 0]]):
                    yield G(g, "twice"), ["idx", ["idx", A_, f], g]
    # on a selection: last in the chain, in the middle, with every intermediate table written
    firsts = core_ops(m) if level else [REV, ["ints", [m - 1, 0, 0]], S(1, None), ["mask", _alt(m)]]
    if level == 2:
        firsts = firsts + [S(None, None), ["npints", list(range(m)) * 2], ["ints", [1]]]
    for op1 in firsts:
        m1 = len(apply_model(list(range(m)), op1))
        seconds = [["mask", _alt(m1)], ["ints", [m1 - 1, 0, 0]]]
        if level:
            seconds += [["mask", _alt(m1, False)], ["ints", [-1, 0]]]
        forms2 = [f for op in seconds for f in form_variants(op)]
        for f in forms2:
            yield G(f, "after-select"), ["idx", ["idx", A_, op1], f]
            for op2 in followers:
                yield G(f, "between-selects"), ["idx", ["idx", ["idx", A_, op1], f], op2]
            if level:
                yield G(f, "between-selects-written"), chain_expr(A_, [op1, f, REV], mat=True)
    # one mask and one list of row numbers in every form: written and used further, fields read before, concatenations,
    # replacements
    reps = form_variants(["mask", [True, False, True, True]]) + form_variants(["ints", [-1, 0, 0]]) + [["npuints8", [m - 1, 0, 0]]]
    fs = history_alphabet(spec, 2, 1)[1][0] if replace else None
    for f in reps:
        what = INDEX_FORMS[f[0]][0]
        yield G(f, "written-then-select"), ["idx", ["mat", ["idx", A_, f]], REV]
        yield G(f, "after-field-access"), ["idx", _touch_all(A_, spec["touch"]), f]
        f3 = [f[0], f[1][1:]] if what == "mask" else [f[0], [j % (m - 1) if j >= 0 else j for j in f[1]]]
        yield G(f3, "after-field-access"), ["idx", _touch_all(["idx", A_, S(1, None)], spec["touch"][:1]), f3]
        if not replace:
            continue        # BAM: the main enumeration has neither concatenations nor replacements of BAM tables
        g = [f[0], f[1][1:]] if what == "mask" else [f[0], [j % NB if j >= 0 else j for j in f[1]]]
        yield G(f, "concat-operands"), ["cat", [["idx", A_, f], ["idx", B_, g], ["idx", A_, f]]]
        h = [f[0], _alt(NA + NB)] if what == "mask" else [f[0], f[1] + [NA]]
        yield G(h, "select-from-concat"), ["idx", ["cat", [A_, B_]], h]
        yield G(f, "select-then-replace"), ["rep", ["idx", A_, f], fs]
        yield G(f, "select-then-replace"), ["rep", ["mat", ["idx", A_, f]], fs]
        yield G(f, "replace-then-select"), ["idx", ["rep", A_, fs], f]
        yield G(f, "select-replace-select"), ["idx", ["rep", ["idx", A_, f], fs], REV]
        if level:
            others = [x for x in _free_fields(spec) if x not in fs]
            kinds = dict(spec["fields"])
            yield G(f, "read-select-replace"), ["rep", ["idx", _touch_all(A_, others, kinds), f], fs]
            yield G(f, "select-read-replace"), ["rep", _touch_all(["idx", A_, f], others, kinds), fs]


def _restricted(spec, n):
    """copy of spec in which only n fields (an integer column, the last and the middle replaceable column) count as
    replaceable: for the generators that are quadratic in the number of fields"""
    free = _free_fields(spec)
    ints = [f for f, kind in spec["fields"] if kind in ("int", "vcfpos") and f in free]
    keep = list(dict.fromkeys(ints[:1] + free[-1:] + [free[len(free) // 2]]))[:n]
    return dict(spec, fields=[(f, kind if f in keep else None) for f, kind in spec["fields"]])


def column_effort(spec, tier, eol):
    """0 / 1 / 2 = small / reduced / standard program set of gen_columns.  SAM rows are ragged and every read of a VCF
    with ##INFO lines rebuilds its classes (4 to 10 ms per program): these get one step less"""
    slow = spec["colgen"] == "mini" or spec["family"] == "sam"
    if tier != "thorough":
        return 0 if (slow or eol != "lf") else 1
    return 1 if (slow or eol != "lf") else 2


def gen_columns(spec, effort, eol):
    """programs for the files of the column-count scope (COLUMN_SPECS); effort: see column_effort.
    colgen 'rest' / 'mini': the entry type has a 'rest of line' field (VCF genotypes, SAM tags) - selections,
    concatenations, every single field and pairs of fields replaced (before / after / between selections and
    concatenations), reads of other fields around the replacement, write / read / replace histories on one selection,
    chunked reads; 'plain': the trailing columns are not part of the entry type - selections, concatenations, chunked
    reads, every single field replaced (the columns of the entry type must keep their text)."""
    lf = eol == "lf"
    # selections: every operation; then 4 core operations on the result of the core ones (standard: the core operations
    # on the result of every operation), also with the intermediate table written
    if effort == 2:
        at = lambda d, m: full_ops(m) if d == 0 else core_ops(m)
    else:
        at = lambda d, m: full_ops(m) if d == 0 else core_ops(m)[:4]
    for ops in chains(NA, 2 if effort else 1, at):
        if effort < 2 and len(ops) == 2 and ops[0] not in core_ops(NA):
            continue
        yield "select", chain_expr(A_, ops)
        if len(ops) == 2:
            yield "select-materialised", chain_expr(A_, ops, mat=True)
    if lf and effort:
        yield from gen_access(spec, effort - 1)
    # concatenations: two files, selected operands, three operands, selection of the result
    sp = small_pool()
    for a, b in itertools.product(sp, sp):
        if effort == 0 and (a[0] != "idx" or b[0] != "idx"):
            continue
        yield "concat", ["cat", [a, b]]
        if effort and (effort == 2 or a is not b):
            yield "concat-then-select", ["idx", ["cat", [a, b]], NEG]
        if effort == 2:
            yield "concat-then-select", ["idx", ["cat", [a, b]], S(1, None, 2)]
            yield "concat-materialised", ["cat", [["mat", a], b]]
    sp3 = [sp, [sp[1], sp[3], sp[5]], [sp[1], sp[4]]][2 - effort]
    for a, b, c in itertools.product(sp3, sp3, sp3):
        yield "concat3", ["cat", [a, b, c]]
    # replaced fields
    singles, pairs = field_subsets(spec)
    rest = spec["colgen"] != "plain"
    if rest and effort == 2:
        yield from gen_replace(spec, 1, 0)
    else:
        cat = ["cat", [["idx", A_, NEG], ["idx", B_, REV]]]
        for fs in singles:
            yield "replace", ["rep", A_, fs]
            yield "select-then-replace", ["rep", ["idx", A_, NEG], fs]
            yield "select-then-replace", ["rep", ["idx", A_, ["mask", [True, False, True, True]]], fs]
            yield "replace-then-select", ["idx", ["rep", A_, fs], REV]
            yield "concat-then-replace", ["rep", cat, fs]
            if effort:
                yield "select-then-replace", ["rep", ["idx", A_, S(1, None)], fs]
                yield "materialise-then-replace", ["rep", ["mat", ["idx", A_, NEG]], fs]
                yield "select-replace-select", ["idx", ["rep", ["idx", A_, NEG], fs], S(1, None)]
                yield "replace-then-concat", ["cat", [["rep", ["idx", A_, NEG], fs], ["rep", B_, fs]]]
            if effort == 2:
                for op in core_ops(NA):
                    yield "select-then-replace", ["rep", ["idx", A_, op], fs]
                    yield "replace-then-select", ["idx", ["rep", A_, fs], op]
        if rest:
            for fs in (pairs if effort else pairs[::3]):
                yield "replace", ["rep", A_, fs]
    if rest:
        yield from gen_history(spec, 1 if effort == 2 else 0)
        if lf:
            yield from (gen_cached(spec, 1) if effort == 2 else gen_cached(_restricted(spec, 2 + effort), 0))
        if effort == 2:
            yield from gen_isolation(spec, 0)
    total = len(spec["header"]) + sum(len(l) + 1 for rec in spec["A"] for l in rec)
    sizes = [[40], [16, total // 2], sorted({1, 16, 40, 64, total // 2, total - 1, total})][effort]
    yield from gen_chunks(0, sizes)


def resolve_masks(e, cx):
    """["mask","alt"] placeholders (length known only from the model) -> concrete masks"""
    if not isinstance(e, list) or not e:
        return e
    if e[0] == "idx" and e[2] == ["mask", "alt"]:
        inner = resolve_masks(e[1], cx)
        m = model_len(inner, cx)
        return ["idx", inner, ["mask", [bool((i + 1) % 2) for i in range(m)]]]
    if e[0] == "cat":
        return ["cat", [resolve_masks(x, cx) for x in e[1]]]
    if e[0] == "after":
        return ["after", resolve_masks(e[1], cx), resolve_masks(e[2], cx)]
    if e[0] in ("idx", "touch", "mat", "rep", "set", "hist"):
        return [e[0], resolve_masks(e[1], cx)] + e[2:]
    return e


def model_len(e, cx):
    k = e[0]
    if k == "read":
        return len(cx.recs[e[1]])
    if k == "chunks":
        raise ValueError("length of a chunked read is not known statically")
    if k == "idx":
        return len(apply_model(list(range(model_len(e[1], cx))), e[2]))
    if k == "cat":
        return sum(model_len(x, cx) for x in e[1])
    if k == "after":
        return model_len(e[2], cx)
    return model_len(e[1], cx)


# quick tier: one representative of every buffer class gets the standard enumeration of selections and
# concatenations, its siblings (same extractor code, other columns) the reduced one; replacements are enumerated
# for every format because they are per field.  thorough tier: deep everywhere.
QUICK_LEVEL = {"bed": 0, "bed6": 0, "narrowPeak": 1, "vcf": 0, "vcf_noinfo": 0, "vcf2": 0, "sam": 0, "fastq": 0, "fasta2": 0, "bam": 1}


# level of gen_history in the quick tier: one representative per extractor class gets level 1
QUICK_HISTORY_LEVEL = {"narrowPeak": 1, "vcf2": 1, "sam": 1, "fastq": 1, "fasta2": 1}


THOROUGH_LEVEL = {"bed": 1, "bed6": 1, "narrowPeak": 2, "vcf": 1, "vcf_noinfo": 1, "vcf2": 2, "sam": 2, "fastq": 2, "fasta2": 2, "bam": 2}


def programs(variant, tier, eol):
    spec = SPECS[variant]
    if "columns" in spec:
        yield from gen_columns(spec, column_effort(spec, tier, eol), eol)
        return
    if tier == "thorough":
        level = THOROUGH_LEVEL.get(variant, 1) if eol == "lf" else 1
        if variant == "vcf" and eol != "lf":      # every read of a VCF with ##INFO lines rebuilds its classes (about 10 ms)
            level = 0
    else:
        level = QUICK_LEVEL.get(variant, 0) if eol == "lf" else 0
    hist_level = (THOROUGH_LEVEL.get(variant, 1) if eol == "lf" else 0) if tier == "thorough" else \
        (QUICK_HISTORY_LEVEL.get(variant, 0) if eol == "lf" else 0)
    form_level = (THOROUGH_LEVEL.get(variant, 1) if eol == "lf" else 0) if tier == "thorough" else (0 if eol == "lf" else None)
    if variant == "bam":
        yield from gen_history_bam()
        yield from gen_index_forms(spec, form_level, replace=False)
        yield from gen_select(level)
        yield from gen_access(spec, level)
        for op in core_ops(NA):
            child = ["mat", ["idx", A_, op]]
            yield "isolation:select-then-parent", ["after", child, A_]
            for op2 in core_ops(NA):
                yield "isolation:select-then-parent", ["after", child, ["idx", A_, op2]]
        return
    if spec["family"] == "gtf":
        # the GTF reader is not lazy: every program goes through parse + format; a reduced enumeration is enough
        for ops in chains(NA, 2, lambda d, m: full_ops(m) if (d == 0 or tier == "thorough") else core_ops(m)[:4]):
            yield "select", chain_expr(A_, ops)
        pool = small_pool()
        for a, b in itertools.product(pool, pool):
            yield "concat", ["cat", [a, b]]
        if variant == "gtf":
            singles, pairs = field_subsets(spec)
            for fs in singles + (pairs if tier == "thorough" else pairs[:6]):
                yield "replace", ["rep", A_, fs]
                yield "select-then-replace", ["rep", ["idx", A_, NEG], fs]
                yield "replace-then-select", ["idx", ["rep", A_, fs], REV]
        return
    if tier == "quick" and variant == "vcf":
        # same extractor code as vcf2 / vcf_noinfo (only the classes derived from the ##INFO lines differ), but every
        # read costs ~10 ms: selections to depth 2 over the core operations and the replacements only
        for ops in chains(NA, 2, lambda d, m: full_ops(m) if d == 0 else core_ops(m)[:4]):
            yield "select", chain_expr(A_, ops)
            if len(ops) == 2:
                yield "select-materialised", chain_expr(A_, ops, mat=True)
        yield "concat", ["cat", [["idx", A_, NEG], B_, ["idx", A_, S(1, None)]]]
        yield from gen_replace(spec, 0, 0)
        yield from gen_history(spec, 0)
        yield from gen_cached(spec, 0)
        for g, e in gen_index_forms(spec, 0):       # every form directly and after a selection (vcf2 / vcf_noinfo: all places)
            if g.endswith((":direct", ":after-select")):
                yield g, e
        return
    # first, because they are few and the enumeration of a format is cut from the end when the machine is slow
    yield from gen_history(spec, hist_level)
    if form_level is not None:
        yield from gen_index_forms(spec, form_level)
    if eol == "lf" or tier == "thorough":
        yield from gen_cached(spec, level if (tier == "thorough" and eol == "lf") else 0)
    yield from gen_select(level)
    if eol == "lf":
        yield from gen_access(spec, level)
    yield from gen_concat(level)
    yield from (gen_replace(spec, 0, 0) if tier == "quick" else gen_replace(spec, level))
    if eol == "lf" or tier == "thorough":
        yield from gen_isolation(spec, level)
    if eol == "lf":
        yield from gen_mixed(spec, level)
    total = len(spec["header"]) + sum(len(l) + 1 for rec in spec["A"] for l in rec)
    if level == 2:
        sizes = sorted({1, 7, 16, 25, 40, 64, total // 2, total - 1, total, total + 1})
    elif eol == "lf":
        sizes = sorted({16, 40, total // 2, total})
    else:
        sizes = [40]
    yield from gen_chunks(level, sizes)


# relative cost of one program (reading a VCF with ##INFO lines rebuilds its classes; SAM rows are ragged)
COST = {"vcf": 5.0, "sam": 2.0, "gtf": 4.0, "gtf_noncanon": 4.0, "fastq": 1.3, "narrowPeak": 1.2,
        "vcf2_info_s1": 5.0, "sam_t0": 2.0, "sam_t1": 2.0}


def plan(tier):
    """(variant, eol) in the order in which they are run"""
    out = [(v, "lf") for v in TEXT_VARIANTS] + [("bam", "lf")]
    crlf = [v for v in TEXT_VARIANTS if v != "gtf_noncanon"]
    if tier == "quick":      # one representative per buffer class
        crlf = ["narrowPeak", "vcf2", "sam", "gtf", "fastq", "fasta2"]
    out = out + [(v, "crlf") for v in crlf]
    # the column-count scope: every variant with LF; CRLF for the one-sample VCF (thorough: every genotype-carrying VCF;
    # a SAM file with CRLF cannot be read at all - see read:exception:...:sam:crlf - so the SAM variants stay LF)
    out += [(v, "lf") for v in COLUMN_VARIANTS]
    out += [(v, "crlf") for v in (["vcf2_s1"] if tier == "quick" else ["vcf2_nofmt", "vcf2_s0", "vcf2_s1", "vcf2_s3", "vcf_s1", "bed3_c5"])]
    return out


RULE = ("exhaustive over expression trees of selections (slice / step / boolean mask / integer list with repeats and "
        "negatives / integer array / one-row selections / empty selections; intermediate tables optionally written), "
        "concatenations (2 and 3 operands, nested, operands from two files of different size, from chunked reads, empty "
        "operands) and field replacements (every single field, every pair, triples, all; before / after / between "
        "selections and concatenations; with other fields read before / after the replacement or attribute assignment, all "
        "others or exactly one), histories of writes / field reads / replace-and-write on one selection object (3-4 steps) "
        "per format and line ending; the same (reduced) for files with every number of trailing columns around the "
        "boundaries of the 'rest of line' code (VCF 0-3 samples / no FORMAT, SAM 0 / 1 tags, BED extra columns); every mask / "
        "row-number selection also in the other forms NumPy accepts for an index (mask as Python list of bool / list of numpy "
        "bools / in a 1-tuple, row numbers as int32 / int8 / uint8 array / list of numpy integers) at every place of a program; "
        "a case is one (format, line ending, program); distinct = "
        "distinct (format, line ending, program); every case except the bare read is non-trivial")


def run(tier="quick", seed=0):
    import logging
    import time
    import warnings
    import bionumpy  # noqa: F401  (imported before the clock of the collector starts)
    col = Collector(PID, tier, seed, RULE)
    col.bounds = {"formats": list(SPECS), "line_endings": ["lf", "crlf (text formats)"],
                  "records": "file A 4 records, file B 3 records, unequal lengths, non-canonical text",
                  "selection_chain_length": "<=3 (standard level: all ops to depth 2 + 8 core ops at depth 3; deep level: all ops to depth 3)",
                  "ops_per_step": "8 core, up to 25 in all (depends on the current length)",
                  "concat_operands": "2 (18x18 pool), 3 and nested (6^3 pool), select-select-concat (64 chains)",
                  "replaced_fields": "every subset of size 1 and 2 of the replaceable fields, triples (every 7th; thorough: all), all fields",
                  "chunk_sizes": "quick 4 sizes, thorough 10 sizes per format",
                  "replace_with_cached_field": "every replaceable field x (all other fields read; standard level and above: also each "
                                               "single other field) x 9 orders of select / read / replace|assign / write; 2 selections "
                                               "(deep: 4); standard level and above: every pair of fields replaced with a read in between",
                  "selection_history": "steps {write, read field (2; deep 3), replace+write (1; deep 2)}: all sequences of 2 steps (deep: "
                                       "also of 3 steps on 3 selections) that are not reads only, closed by a write or a replacement + write, "
                                       "on 1 / 2 / 6 selections (reduced / standard / deep); BAM: write / read sequences of 3 steps on 3 selections",
                  "trailing_columns": "files with a fixed number of columns behind the fields of the entry type: VCF with no FORMAT column / "
                                      "FORMAT and 0 / 1 / 3 samples (2 in the main files) x {VCFBuffer2, default buffer}, VCFBuffer2 with "
                                      "##INFO header and 1 sample; SAM with no tags / exactly 1 tag in every record; 5-column BED read as "
                                      "BED3; per file: selections to depth 2, concatenations of 2 and 3 operands, every single field and "
                                      "pair replaced around selections / concatenations, cached-field and history programs (reduced "
                                      "level; thorough: standard level), chunked reads; variants: %r" % (COLUMN_VARIANTS,),
                  "index_forms": "forms %r of 4 (standard and deep: 6) masks and 3 (6) row-number lists: directly on the table, followed "
                                 "by 1 (3) selections, after each of 4 (8; deep 11) selections and between two selections (standard: also "
                                 "with every intermediate table written; deep: two such indices in a row), on a written selection, after "
                                 "field reads, as concatenation operands / on a concatenation, before / after / between a replacement and "
                                 "a selection (standard: with the other fields read before); all text formats except GTF, and BAM "
                                 "(selections only); quick: reduced level, LF only; thorough: the level of the format, CRLF reduced"
                                 % (sorted(k for k in INDEX_FORMS if k != "range"),),
                  "levels (0 reduced, 1 standard, 2 deep)": "quick: %r for lf, 0 for crlf (6 representative formats); thorough: %r for lf, 1 for crlf"
                  % (QUICK_LEVEL, THOROUGH_LEVEL)}
    warnings.filterwarnings("ignore")
    logging.disable(logging.WARNING)
    try:
        with TmpDir() as tmp:
            pl = plan(tier)
            progs = {ve: list(programs(ve[0], tier, ve[1])) for ve in pl}
            # the time budget is shared out in proportion to the expected cost, so that every (format, line ending) is
            # reached even when the machine is slow; nothing is cut when the run is within the budget
            cost = {ve: len(progs[ve]) * COST.get(ve[0], 1.0) for ve in pl}
            total_cost = float(sum(cost.values())) or 1.0
            spent = 0.0
            for variant, eol in pl:
                cx = Ctx(tmp, variant, eol)
                spent += cost[(variant, eol)]
                share = col.t0 + col.budget_s * spent / total_cost
                n_here = 0
                for group, program in progs[(variant, eol)]:
                    program = resolve_masks(program, cx)
                    case = {"variant": variant, "eol": eol, "group": group, "program": program}
                    col.case(case, nontrivial=program[0] != "read", contract=group.split(":")[0])
                    n_here += 1
                    res = run_program(cx, group, program)
                    if res is not None:
                        col.fail(res[0], case, res[1])
                        if res[0].startswith("read:"):
                            col.undecided.append("%s/%s: the source file cannot be read (%s); the programs over it were not evaluated"
                                                 % (variant, eol, res[0]))
                            break
                    if n_here % 50 == 0 and time.time() > share:
                        col.exhaustive = False
                        col.undecided.append("%s/%s: enumeration cut after %d of %d programs (time share used up)"
                                             % (variant, eol, n_here, len(progs[(variant, eol)])))
                        break
    finally:
        logging.disable(logging.NOTSET)
    return col.result()


def replay(case):
    import logging
    logging.disable(logging.WARNING)
    try:
        with TmpDir() as tmp:
            cx = Ctx(tmp, case["variant"], case["eol"])
            res = run_program(cx, case["group"], case["program"])
    finally:
        logging.disable(logging.NOTSET)
    if res is None:
        return True, "ok"
    return False, "%s: %s" % res
