"""C12 bounded stand-in: per-chromosome streaming never silently drops or misattributes entries.

Scope: genomes of 1..4 contigs (names of unequal and equal length, one a prefix of another), built five ways
(plain, sort_names, with_ignored_added, '_' contig ignored by the filter, '_' contig kept by the filter)
x every sequence of contig groups over genome names + an unknown name + the ignored name (all subsets in all
orders) x group sizes 1/2 x chunkings of the entries (all compositions for small tables, boundary chunkings
above) x consumers (full exhaustion; zip with the size stream, i.e. the generator is not resumed after the last
contig).

Reference model (written from the statement only): drop ignored groups; if a remaining group has a name that is
not in the genome, or the remaining names are not a subsequence of the genome order -> an error MUST be raised;
else the j-th output is the list of entries named genome[j] (possibly empty) and nothing else.

Contracts evaluated on the real functions:
  iter_chromosomes      GenomeContext.iter_chromosomes (stream and table input)
  genome_api.*          Genome.get_intervals(stream).compute() / .get_pileup().get_data(), Genome.get_track(stream)
                        .get_data() / .sum(), Genome.read_intervals / read_track(stream=True) from files,
                        get_intervals(table).as_stream()
  multistream           MultiStream(sizes, a=stream|table, v=dict) : list(ms.a), zip(ms.lengths, ms.sequence_names, ms.v, ms.a)
  similarity.*          forbes / jaccard vs a set-based computation
  left_join             streams.left_join.left_join (exhaustion)
  groupby               streams.groupby on tables and chunk streams (fast path first==last key included)

Extended scope (cases with a key "fam"; evaluated first, under a budget of their own; signatures = the signature the same
failure has in the original scope + ":<class of the name alphabet>"):
  name families        the same contracts over genomes of 1..5 contigs whose names are (long-names) longer than 8 characters with
                       8 / 9 / 25 leading characters in common - scaffold1, scaffold2, scaffold10; contig0001, contig0002 -,
                       (prefix-names) prefixes of each other across the 8 character boundary, (natural-order) short names in natural
                       order chr2, chr10, chr11 - not the lexicographic order; the unknown and the ignored name share the prefix.
                       Genomes plain / sort_names / with_ignored_added; all group sequences (4 and 5 contigs: up to 2-3 groups +
                       every accepted longer one) x {one chunk, singletons, every 2-split}
  many contigs         genomes chr1..chrN, N = 13 (thorough: 12, 13, 16, 24, 40): every single group, every ordered pair of
                       contigs / unknown name (jumps back over up to N-1 contigs), ordered triples of positions at the ends and
                       11-12 contigs from the end, the full genome and rotations of it

Ragged key columns (cases with "col": "ragged" or groupby keys "ragged"; evaluated after the name families, under a budget of
their own; signatures = the signature the same failure has with the library's datatypes [+ ":<class of the name alphabet>"] +
":ragged-keys", groupby: "groupby:ragged:..."):
  column storage       the tables are user-defined bnpdataclasses whose contig column is a plain `str` field (as in the library's own
                       multistream test) - stored as ragged encoded strings (EncodedRaggedArray: rows of unequal length, change
                       detection by get_ragged_changes), not as the fixed-width StringArray of Interval / BedGraph
  name alphabets       the original one (chr1, chr10, chr2 ...), the families above, and (repeated-char-names) bare Ensembl-style
                       names of one character and of that character repeated - 1, 11, 111, 2, 22 in lexicographic and 1, 2, 11,
                       12, 22 in natural order - where a name of length 1 compared element-wise with a longer name broadcasts;
                       these two families also with the library's datatypes (StringArray / StringEncoding) in groupby
  contracts            iter_chromosomes, multistream, left_join, groupby (the Genome API and forbes / jaccard are documented for
                       Interval / BedGraph input and are not given other tables); genomes of 2..4 contigs (thorough 1..5), plain /
                       sort_names / with_ignored_added; many contigs: genomes 1 .. 13 (thorough: + 24)

Many chunks (cases with "contract": "many_chunks"; evaluated after the ragged key columns, under a budget of their own;
signatures "many-chunks:<groupby | sync | genome_api | similarity>:<what is wrong>"):
  one long contig      one contig - first / in the middle / last in the genome, the only one with data, two back to back - whose
                       entries are spread over P chunks of the stream (a long chromosome read with a small chunk size): every P in
                       1..72 (thorough 1..300) and around larger multiples of 16 / powers of two (127..130; thorough 511..514,
                       1023..1026); chunk length 1, and 2 / 3 with every phase of the first chunk (chunk borders inside and at the
                       group borders); contigs of size 8192 (unique ids of hundreds of entries), bedgraph value uid + 1
  contracts            groupby (StringArray / StringEncoding / ragged keys), iter_chromosomes, multistream, left_join, Genome API
                       (get_intervals(stream).compute() / .get_pileup(), get_track(stream); also bed / bedgraph files read with
                       read_chunks(min_chunk_size = 1..3 lines)), jaccard / forbes with a, b or both streamed; rejected orders
                       (a misordered / unknown group after the long one) must still raise

Entries are identified by a unique id (start == uid, stop == uid+1, bedgraph value == 2**uid), so any entry that is
lost, duplicated or handed to another contig is visible in every observer.
"""
import itertools
import math
import os

from .common import Collector, TmpDir

NAMES = ["chr1", "chr10", "chr2", "chrX", "chrY"]  # genome order; lexicographically sorted; chr1 is a prefix of chr10
UNKNOWN = "chrU"
IGN_ADDED = "chrM"
UNDERSCORE = "chr1_alt"
UNDERSCORE_SIZE = 31
GCFGS = ("plain", "sorted", "ignM", "ign_", "inc_")


def contig_size(p):
    return 24 + p


# Name families of the extended scope (case key "fam"; absent = the original alphabet above, signatures unchanged).
# Each family: genome order, a name that is NOT in the genome, a name for with_ignored_added, and the class label that
# failures of its cases carry as a signature suffix (one label per class of name alphabets, not per family).
_LONG = "HiC.scaffold.assembly.v2."  # 25 characters in common
FAMILIES = {
    # > 8 characters, first 8 in common, natural (not lexicographic) order, scaffold1 is a prefix of scaffold10/11
    "scaffold": {"names": ["scaffold1", "scaffold2", "scaffold10", "scaffold11", "scaffold20"], "unknown": "scaffold3",
                 "ign": "scaffoldM", "cls": "long-names"},
    # equal width, first 8 (9) characters in common, lexicographic == natural order
    "fixedw": {"names": ["contig0001", "contig0002", "contig0010", "contig0011", "contig0100"], "unknown": "contig0003",
               "ign": "contig000M", "cls": "long-names"},
    # 25 characters in common (beyond any 8/16/24 byte word), natural order
    "long25": {"names": [_LONG + x for x in ("1", "2", "10", "11", "3")], "unknown": _LONG + "4", "ign": _LONG + "M",
               "cls": "long-names"},
    # names that are prefixes of each other across the 8 character boundary, in an order that is neither lexicographic nor by length
    "nested": {"names": ["abcdefghi", "a", "abcdefghij", "abcdefgh", "ab"], "unknown": "abcdefg", "ign": "abcdefghijk",
               "cls": "prefix-names"},
    # short names in natural order, which is not the lexicographic order ('chr2' > 'chr10')
    "natural": {"names": ["chr2", "chr10", "chr11", "chr20", "chr21"], "unknown": "chr1", "ign": "chrM", "cls": "natural-order"},
    # genomes of many contigs (natural order chr1 .. chr40): order discrepancies that jump back over many contigs
    "many": {"names": ["chr%d" % i for i in range(1, 41)], "unknown": "chr0", "ign": "chrM", "cls": "many-contigs"},
    # bare names of one character and of that character repeated: element-wise comparison of a length-1 name with a longer one
    # broadcasts ('1' vs '11' / '111').  Lexicographic genome order / natural (Ensembl) genome order
    "repeat": {"names": ["1", "11", "2", "22", "111"], "unknown": "222", "ign": "M", "cls": "repeated-char-names"},
    "ensembl": {"names": ["1", "2", "11", "12", "22"], "unknown": "21", "ign": "MT", "cls": "repeated-char-names"},
    # many contigs with bare numeric names 1 .. 40 (natural order)
    "manynum": {"names": ["%d" % i for i in range(1, 41)], "unknown": "0", "ign": "MT", "cls": "many-contigs"},
}
RAGGED = "ragged"  # case key "col": contig column stored as ragged encoded strings (user dataclass with a `str` field)


def fam_names(fam):
    return FAMILIES[fam]["names"] if fam else NAMES


def fam_unknown(fam):
    return FAMILIES[fam]["unknown"] if fam else UNKNOWN


def fam_ign(fam):
    return FAMILIES[fam]["ign"] if fam else IGN_ADDED


def fam_suffix(fam):
    return ":" + FAMILIES[fam]["cls"] if fam else ""


def case_suffix(case):
    """signature suffix of the extended scopes: class of the name alphabet, storage class of the contig column"""
    return fam_suffix(case.get("fam")) + (":ragged-keys" if case.get("col") == RAGGED else "")


# ----------------------------------------------------------------------------------------------- reference model
def model(G, ignored, seq):
    """G: genome order (names), seq: names of the data groups in data order.
    -> ('ok',) | ('error', kind, 'late'|'early').  'late': the first offending group follows a group that belongs
    to the LAST genome contig, i.e. a streaming evaluator sees it only after the last contig has been served."""
    last = -1
    for nm in seq:
        if nm in ignored:
            continue
        if nm not in G:
            return ("error", "unknown-name", "late" if last == len(G) - 1 else "early")
        p = G.index(nm)
        if p <= last:
            return ("error", "misordered", "late" if last == len(G) - 1 else "early")
        last = p
    return ("ok",)


def entries_of(groups):
    """groups [(name, k)] -> [(name, uid, uid+1)] uid = global running number"""
    out, uid = [], 0
    for name, k in groups:
        for _ in range(k):
            out.append((name, uid, uid + 1))
            uid += 1
    return out


def expected_outputs(G, entries):
    return [(g, [u for nm, u, _ in entries if nm == g]) for g in G]


# ----------------------------------------------------------------------------------------------- genome construction
def genome_layout(gcfg, n, fam=None):
    """-> (dict items given to the constructor, expected genome order G [(name,size)], ignored set, ctor kwargs)"""
    base = [(fam_names(fam)[p], contig_size(p)) for p in range(n)]
    with_us = base[:1] + [(UNDERSCORE, UNDERSCORE_SIZE)] + base[1:]
    if gcfg == "plain":
        return base, base, set()
    if gcfg == "sorted":  # sort_names=True: "a simple alphabetic ordering" (the original alphabet is listed in that order)
        return list(reversed(base)), sorted(base), set()
    if gcfg == "ignM":
        return base, base, {fam_ign(fam)}
    if gcfg == "ign_":
        return with_us, base, {UNDERSCORE}
    if gcfg == "inc_":
        return with_us, with_us, set()
    raise ValueError(gcfg)


_GENOMES = {}


def build_genome(gcfg, n, fam=None):
    key = (gcfg, n, os.environ.get("BIONUMPY_REPO", ""), fam)
    if key in _GENOMES:
        return _GENOMES[key]
    import bionumpy as bnp
    from bionumpy.genomic_data.genome_context import ignore_underscores
    items, G, ignored = genome_layout(gcfg, n, fam)
    if gcfg == "sorted":
        genome = bnp.Genome.from_dict(dict(items), sort_names=True)
    elif gcfg == "ignM":
        genome = bnp.Genome.from_dict(dict(items)).with_ignored_added([fam_ign(fam)])
    elif gcfg == "ign_":
        genome = bnp.Genome.from_dict(dict(items), filter_function=ignore_underscores)
    else:
        genome = bnp.Genome.from_dict(dict(items))
    _GENOMES[key] = (genome, G, ignored)
    return _GENOMES[key]


def universe(gcfg, n, fam=None):
    _, G, ignored = genome_layout(gcfg, n, fam)
    return [g for g, _ in G] + [fam_unknown(fam)] + sorted(ignored)


# ----------------------------------------------------------------------------------------------- input construction
def split_chunks(entries, chunks):
    assert sum(chunks) == len(entries) and all(c > 0 for c in chunks), (chunks, len(entries))
    out, p = [], 0
    for c in chunks:
        out.append(entries[p:p + c])
        p += c
    return out


_RAGGED_CLASSES = {}


def table_class(kind, col=None):
    """the library's Interval / BedGraph (contig column: StringArray), or for col == RAGGED user-defined tables with the same
    fields whose contig column is a plain `str` field (stored as EncodedRaggedArray)"""
    if col != RAGGED:
        from bionumpy.datatypes import Interval, BedGraph
        return BedGraph if kind == "bedgraph" else Interval
    if not _RAGGED_CLASSES:
        from bionumpy.bnpdataclass import bnpdataclass

        @bnpdataclass
        class RaggedInterval:
            chromosome: str
            start: int
            stop: int

        @bnpdataclass
        class RaggedBedGraph:
            chromosome: str
            start: int
            stop: int
            value: float

        _RAGGED_CLASSES.update(interval=RaggedInterval, bedgraph=RaggedBedGraph)
    return _RAGGED_CLASSES[kind]


def make_table(entries, kind, col=None):
    """every table (every chunk of a stream) is built from its own entries - never by slicing a larger table"""
    cls = table_class(kind, col)
    if col == RAGGED:
        cols = [[nm for nm, _, _ in entries], [s for _, s, _ in entries], [e for _, _, e in entries]]
        if kind == "bedgraph":
            cols.append([float(2 ** s) for _, s, _ in entries])
        return cls(*cols)
    if kind == "bedgraph":
        return cls.from_entry_tuples([(nm, s, e, float(2 ** s)) for nm, s, e in entries])
    return cls.from_entry_tuples(list(entries))


def make_stream(entries, chunks, kind="interval", col=None):
    from bionumpy.streams import NpDataclassStream
    tables = [make_table(c, kind, col) for c in split_chunks(entries, chunks)]
    return NpDataclassStream(iter(tables), dataclass=table_class(kind, col))


def names_of(col):
    try:
        r = col.tolist()
        if isinstance(r, str):
            r = [r]
        return [str(x) for x in r]
    except Exception:
        return [col[i].to_string() for i in range(len(col))]


def rows_of(tbl):
    return list(zip(names_of(tbl.chromosome), [int(x) for x in tbl.start.tolist()], [int(x) for x in tbl.stop.tolist()]))


def uids_of_rows(rows, entries, problems):
    """rows (name,start,stop) produced by the library -> uids; a row that is no input entry is a problem"""
    valid = set(entries)
    out = []
    for r in rows:
        if r not in valid:
            problems.append("row %r is not an input entry" % (r,))
        out.append(r[1])
    return out


def decode_track_rows(tbl, size_of, mode, problems, value_of=None):
    """run-length rows (chromosome,start,stop,value) -> [(label, [uids])]; rows of one label must tile [0,size)
    value_of: value of the track entry that starts at x (default 2**x)"""
    names = names_of(tbl.chromosome)
    starts = [int(x) for x in tbl.start.tolist()]
    stops = [int(x) for x in tbl.stop.tolist()]
    values = [float(x) for x in tbl.value.tolist()]
    out = []
    for label, grp in itertools.groupby(zip(names, starts, stops, values), key=lambda r: r[0]):
        grp = list(grp)
        uids, pos = [], 0
        for _, s, e, v in grp:
            if s != pos or e <= s:
                problems.append("rows of %s do not tile the contig: %r" % (label, grp))
            pos = e
            if v != 0:
                for x in range(s, e):
                    if mode == "pileup":
                        uids.extend([x] * int(round(v)))
                    else:
                        if v != (float(2 ** x) if value_of is None else value_of(x)):
                            problems.append("value %r at %s:%d is not the value of the entry starting there" % (v, label, x))
                        uids.append(x)
        if label in size_of and pos != size_of[label]:
            problems.append("rows of %s end at %d, contig size %d" % (label, pos, size_of[label]))
        if label not in size_of:
            problems.append("label %s is not a genome contig" % label)
        out.append((label, uids))
    return out


# ----------------------------------------------------------------------------------------------- judgement
def sig(base, kind, tag):
    """tag marks a region of the scope that fails as a whole for one reason: those cases share one signature"""
    return "%s%s" % (base, tag) if tag else "%s:%s" % (base, kind)


def judge(col, base, case, G, ignored, groups, outcome, tag="", flat=False, zero_rows_elided=False, suffix=""):
    """outcome: ('raised', exc name, text) | ('done', [(label|None, [uids])], problems)
    suffix: class label of the extended scope (name family), appended to every signature except the one region that fails
    for the reason already recorded for the original alphabet (generator not resumed after the last contig)"""
    Gn = [g for g, _ in G]
    if tag:
        base = base.split(":")[0].split(".")[0]
    entries = entries_of(groups)
    m = model(Gn, ignored, [nm for nm, _ in groups])
    if m[0] == "error":
        ok = outcome[0] == "raised"
        if m[2] == "late" and base.endswith(":zip"):
            # one reason for the whole region (the generator is not resumed after the last contig): one signature per
            # entry point and kind, whatever the observer / input form
            base = base.split(":")[0].split(".")[0] + ":zip"
            suffix = ""
        col.check(ok, sig(base, "no-error:%s:%s" % (m[1], m[2]), tag) + suffix, case,
                  "data groups %r against genome %r (ignored %r) must raise; completed with %r"
                  % ([g for g, _ in groups], Gn, sorted(ignored), outcome[1] if not ok else None))
        return ok
    if outcome[0] == "raised":
        if base.startswith("genome_api."):  # one cause shows through every observer: entry point + input form + exception
            base = "genome_api:" + base.split(":")[1]
        col.fail(sig(base, "spurious-error:" + outcome[1], tag) + suffix, case,
                 "valid input (groups %r, genome %r) raised %s" % ([g for g, _ in groups], Gn, outcome[2]))
        return False
    got, problems = outcome[1], outcome[2]
    exp = expected_outputs(Gn, entries)
    if flat:
        exp = [(None, [u for _, us in exp for u in us])]
    if zero_rows_elided:  # observer cannot show contigs without data (mask rows): compare the non-empty ones
        exp = [(g, us) for g, us in exp if us]
    ok = True
    if problems:
        ok = col.check(False, sig(base, "malformed-output", tag) + suffix, case, "; ".join(problems[:3])) and ok
    if len(got) != len(exp):
        col.fail(sig(base, "wrong-output-count", tag) + suffix, case, "got %d outputs %r, expected %d %r" % (len(got), got, len(exp), exp))
        return False
    all_got = sorted(u for _, us in got for u in us)
    all_exp = sorted(u for _, us in exp for u in us)
    if all_got != all_exp:
        col.fail(sig(base, "entries-lost-or-duplicated", tag) + suffix, case, "got %r expected %r" % (got, exp))
        return False
    for (gl, gu), (el, eu) in zip(got, exp):
        if gu != eu or (gl is not None and el is not None and gl != el):
            col.fail(sig(base, "misattributed", tag) + suffix, case, "got %r expected %r" % (got, exp))
            return False
    return ok


def capture(fn):
    try:
        return fn()
    except Exception as e:  # the statement only asks for "an error"
        return ("raised", type(e).__name__, "%s: %s" % (type(e).__name__, str(e)[:200]))


# ----------------------------------------------------------------------------------------------- contract A
def eval_iter_chromosomes(col, case, tmp=None):
    from bionumpy.datatypes import Interval
    genome, G, ignored = build_genome(case["gcfg"], case["n"], case.get("fam"))
    groups = [tuple(g) for g in case["groups"]]
    entries = entries_of(groups)
    consumer = case["consumer"]
    tag = ":underscore-contig-included" if case["gcfg"] == "inc_" else ""

    kcol = case.get("col")

    def go():
        ctx = genome.get_genome_context()
        data = (make_table(entries, "interval", kcol) if case["input"] == "table" else
                make_stream(entries, case["chunks"], "interval", kcol))
        it = ctx.iter_chromosomes(data, table_class("interval", kcol) if kcol else Interval)
        problems = []
        if consumer == "exhaust":
            tables = list(it)
        else:
            sizes = list(ctx.chrom_sizes.values())
            pairs = list(zip(sizes, it))
            tables = [t for _, t in pairs]
            exp_sizes = [s for _, s in G]
            if [s for s, _ in pairs] != exp_sizes[:len(pairs)]:
                problems.append("size stream %r differs from genome sizes %r" % ([s for s, _ in pairs], exp_sizes))
        return ("done", [(None, uids_of_rows(rows_of(t), entries, problems)) for t in tables], problems)

    col.case(case, nontrivial=bool(groups), contract="iter_chromosomes")
    return judge(col, "iter_chromosomes:%s" % consumer, case, G, ignored, groups, capture(go), tag,
                 suffix=case_suffix(case))


# ----------------------------------------------------------------------------------------------- contract B
OBSERVERS = {  # name -> (table kind, consumer class, flat)
    "intervals.compute": ("interval", "exhaust", True),
    "intervals.pileup_data": ("interval", "zip", False),
    "track.data": ("bedgraph", "zip", False),
    "track.sum": ("bedgraph", "exhaust", True),
}


def eval_genome_api(col, case, tmp):
    import bionumpy as bnp
    genome, G, ignored = build_genome(case["gcfg"], case["n"], case.get("fam"))
    groups = [tuple(g) for g in case["groups"]]
    entries = entries_of(groups)
    observer, inp = case["observer"], case["input"]
    kind, consumer, flat = OBSERVERS[observer]
    size_of = dict(G)
    tag = ":underscore-contig-included" if case["gcfg"] == "inc_" else ""

    def go():
        problems = []
        if inp == "file":
            path = os.path.join(tmp, "c12_%d.%s" % (col.evaluations, "bed" if kind == "interval" else "bdg"))
            with open(path, "w") as f:
                for nm, s, e in entries:
                    f.write("%s\t%d\t%d%s\n" % (nm, s, e, "" if kind == "interval" else "\t%d" % 2 ** s))
            obj = genome.read_intervals(path, stream=True) if kind == "interval" else genome.read_track(path, stream=True)
        elif inp == "table_as_stream":
            obj = genome.get_intervals(make_table(entries, "interval")).as_stream()
        else:
            data = make_stream(entries, case["chunks"], kind, case.get("col"))
            obj = genome.get_intervals(data) if kind == "interval" else genome.get_track(data)
        if observer == "intervals.compute":
            res = obj.compute().get_data()
            return ("done", [(None, uids_of_rows(rows_of(res), entries, problems))], problems)
        if observer == "intervals.pileup_data":
            res = bnp.compute(obj.get_pileup().get_data())
            return ("done", decode_track_rows(res, size_of, "pileup", problems), problems)
        if observer == "track.data":
            res = bnp.compute(obj.get_data())
            return ("done", decode_track_rows(res, size_of, "track", problems), problems)
        if observer == "track.sum":
            total = float(bnp.compute(obj.sum()))
            if total != int(total) or total < 0:
                problems.append("sum %r is not a sum of entry values" % total)
                return ("done", [(None, [])], problems)
            return ("done", [(None, [i for i in range(int(total).bit_length()) if (int(total) >> i) & 1])], problems)
        raise ValueError(observer)

    col.case(case, nontrivial=bool(groups), contract="genome_api." + observer)
    out = capture(go)
    # (track.sum carries the set of entries only; for valid input the expected concatenation is ascending in uid)
    base = "genome_api.%s:%s:%s" % (observer, inp, consumer)
    return judge(col, base, case, G, ignored, groups, out, tag, flat=flat, suffix=case_suffix(case))


# ----------------------------------------------------------------------------------------------- contract C
def eval_multistream(col, case, tmp=None):
    from bionumpy.datatypes import ChromosomeSize
    from bionumpy.streams import MultiStream
    from bionumpy.streams.multistream import SequenceSizes
    n = case["n"]
    G = [(fam_names(case.get("fam"))[p], contig_size(p)) for p in range(n)]
    groups = [tuple(g) for g in case["groups"]]
    entries = entries_of(groups)
    consumer = case["consumer"]

    def go():
        if case["sizes"] == "chromsize":
            sizes = ChromosomeSize([g for g, _ in G], [s for _, s in G])
        elif case["sizes"] == "seqsizes":
            sizes = SequenceSizes(G)
        else:
            sizes = dict(G)
        data = (make_table(entries, "interval", case.get("col")) if case["input"] == "table" else
                make_stream(entries, case["chunks"], "interval", case.get("col")))
        ms = MultiStream(sizes, a=data, v={g: i for i, (g, _) in enumerate(G)})
        problems = []
        if consumer == "exhaust":
            return ("done", [(None, uids_of_rows(rows_of(t), entries, problems)) for t in ms.a], problems)
        out = []
        for j, (length, name, v, t) in enumerate(zip(ms.lengths, ms.sequence_names, ms.v, ms.a)):
            name = str(name)
            if j >= len(G) or (name, int(length), v) != (G[j][0], G[j][1], j):
                problems.append("item %d: lengths/names/indexed stream gave %r" % (j, (length, name, v)))
            out.append((name, uids_of_rows(rows_of(t), entries, problems)))
        return ("done", out, problems)

    col.case(case, nontrivial=bool(groups), contract="multistream")
    return judge(col, "multistream:%s" % consumer, case, G, set(), groups, capture(go), suffix=case_suffix(case))


# ----------------------------------------------------------------------------------------------- contract D
def sim_entries(groups, which):
    """per contig j-th entry: a -> [3j, 3j+2), b -> [3j+1, 3j+3) (sorted, overlapping between a and b)"""
    out = []
    for name, k in groups:
        for j in range(k):
            s = 3 * j + (0 if which == "a" else 1)
            out.append((name, s, s + 2))
    return out


def eval_similarity(col, case, tmp=None):
    from bionumpy.arithmetics import forbes, jaccard
    from bionumpy.datatypes import ChromosomeSize
    n = case["n"]
    G = [(fam_names(case.get("fam"))[p], contig_size(p)) for p in range(n)]
    Gn = [g for g, _ in G]
    suffix = case_suffix(case)
    kcol = case.get("col")
    ga = [tuple(g) for g in case["a_groups"]]
    gb = [tuple(g) for g in case["b_groups"]]
    ea, eb = sim_entries(ga, "a"), sim_entries(gb, "b")
    func = case["func"]

    def go():
        sizes = ChromosomeSize(Gn, [s for _, s in G]) if case["sizes"] == "chromsize" else dict(G)
        a = make_table(ea, "interval", kcol) if case["a_input"] == "table" else make_stream(ea, case["a_chunks"], "interval", kcol)
        b = make_table(eb, "interval", kcol) if case["b_input"] == "table" else make_stream(eb, case["b_chunks"], "interval", kcol)
        return ("done", float((forbes if func == "forbes" else jaccard)(sizes, a, b)))

    col.case(case, nontrivial=bool(ga) and bool(gb), contract="similarity." + func)
    out = capture(go)
    base = "similarity.%s" % func
    ma, mb = model(Gn, set(), [g for g, _ in ga]), model(Gn, set(), [g for g, _ in gb])
    for which, m in (("a", ma), ("b", mb)):
        if m[0] == "error":
            known_region = which == "b" and m[2] == "late"
            sbase = "similarity" if known_region else base  # operand b is the one zipped behind a
            return col.check(out[0] == "raised",
                             "%s:%s:no-error:%s:%s" % (sbase, which, m[1], m[2]) + ("" if known_region else suffix), case,
                             "operand %s groups %r against %r must raise; returned %r" % (which, case[which + "_groups"], Gn, out[1]))
    if out[0] == "raised":
        col.fail("%s:spurious-error:%s" % (base, out[1]) + suffix, case, out[2])
        return False
    # set-based oracle
    A = {(nm, x) for nm, s, e in ea for x in range(s, e)}
    B = {(nm, x) for nm, s, e in eb for x in range(s, e)}
    N = sum(s for _, s in G)
    a_, b_, c_ = len(A & B), len(A - B), len(B - A)
    d_ = N - a_ - b_ - c_
    exp = a_ * N / ((a_ + b_) * (a_ + c_)) if func == "forbes" else a_ / (N - d_)
    return col.check(math.isclose(out[1], exp, rel_tol=1e-9, abs_tol=1e-12), "%s:wrong-value" % base + suffix, case,
                     "got %r expected %r" % (out[1], exp))


# ----------------------------------------------------------------------------------------------- contract E
def eval_left_join(col, case, tmp=None):
    from bionumpy.streams import groupby
    from bionumpy.streams.left_join import left_join
    n = case["n"]
    G = [(fam_names(case.get("fam"))[p], contig_size(p)) for p in range(n)]
    groups = [tuple(g) for g in case["groups"]]
    entries = entries_of(groups)

    def go():
        problems = []
        if case["input"] == "pure":
            right = iter([(nm, [u for x, u, _ in entries if x == nm]) for nm, _ in groups])
        elif case["input"] == "table":
            right = groupby(make_table(entries, "interval", case.get("col")), "chromosome")
        else:
            right = groupby(make_stream(entries, case["chunks"], "interval", case.get("col")), "chromosome")
        out = []
        for j, (name, size, data) in enumerate(left_join(list(G), right)):
            if j >= len(G) or (name, size) != G[j]:
                problems.append("item %d: left side gave %r" % (j, (name, size)))
            if data is None:
                uids = []
            elif case["input"] == "pure":
                uids = list(data)
            else:
                uids = uids_of_rows(rows_of(data), entries, problems)
            out.append((name, uids))
        return ("done", out, problems)

    col.case(case, nontrivial=bool(groups), contract="left_join")
    return judge(col, "left_join:exhaust", case, G, set(), groups, capture(go), suffix=case_suffix(case))


# ----------------------------------------------------------------------------------------------- contract F
GB_NAMES = ["chr1", "chr10", "chr2", "c", "chr1_alt"]


def gb_names(fam):
    return (FAMILIES[fam]["names"][:5] + [FAMILIES[fam]["unknown"]]) if fam else GB_NAMES


def eval_groupby(col, case, tmp=None):
    from bionumpy.streams import groupby, NpDataclassStream
    from bionumpy.datatypes import Interval
    from bionumpy.bnpdataclass import replace
    from bionumpy.encoded_array import EncodedArray
    from bionumpy.encodings.string_encodings import StringEncoding
    import numpy as np
    groups = [tuple(g) for g in case["groups"]]
    entries = entries_of(groups)
    exp = [(nm, [u for x, u, _ in entries if x == nm]) for nm, _ in groups]
    fam = case.get("fam")
    labels = list(reversed(gb_names(fam)))

    def conv(tbl, part):
        if case["keys"] == "enc":
            enc = StringEncoding(labels)
            codes = np.array([labels.index(nm) for nm, _, _ in part])
            return replace(tbl, chromosome=EncodedArray(codes, enc))
        return tbl

    kcol = RAGGED if case["keys"] == "ragged" else None  # keys: "str" StringArray, "enc" StringEncoding, "ragged" EncodedRaggedArray

    def go():
        problems = []
        if case["input"] == "table":
            data = conv(make_table(entries, "interval", kcol), entries)
        else:
            parts = split_chunks(entries, case["chunks"])
            data = NpDataclassStream(iter([conv(make_table(p, "interval", kcol), p) for p in parts]),
                                     dataclass=table_class("interval", kcol) if kcol else Interval)
        out = []
        for key, tbl in groupby(data, "chromosome"):
            rows = rows_of(tbl)
            if any(r[0] != str(key) for r in rows):
                problems.append("group %r contains rows %r" % (key, rows))
            out.append((str(key), uids_of_rows(rows, entries, problems)))
        return ("done", out, problems)

    col.case(case, nontrivial=len(groups) > 0, contract="groupby")
    out = capture(go)
    base = "groupby:%s:%s" % (case["keys"], "table" if case["input"] == "table" else "stream")
    suffix = fam_suffix(fam)
    if out[0] == "raised":
        col.fail("%s:spurious-error:%s" % (base, out[1]) + suffix, case, out[2])
        return False
    ok = True
    if out[2]:
        ok = col.check(False, base + ":malformed-output" + suffix, case, "; ".join(out[2][:3]))
    return col.check(out[1] == exp, base + ":wrong-groups" + suffix, case, "got %r expected %r" % (out[1], exp)) and ok


# ----------------------------------------------------------------------------------------------- contract G: many chunks
# One contig whose entries are spread over MANY chunks of the stream (a long chromosome read with a small chunk size): the
# per-chunk groups of that contig have to be stitched back together without losing a piece.  Contig sizes are BIG so that the
# unique ids (start == uid) of hundreds of entries fit; bedgraph values are uid + 1 (2**uid is not representable there).
BIG = 8192
MC_NAMES = NAMES[:4]


def uniform_chunks(N, first, c):
    """chunk lengths: a first chunk of `first` entries, then chunks of c entries, the rest in the last one"""
    out, left = [], N
    if left:
        out.append(min(first, left))
        left -= out[-1]
    while left:
        out.append(min(c, left))
        left -= out[-1]
    return out


def pieces_of(groups, chunks):
    """[number of chunks that hold entries of the i-th group] - from the layout alone"""
    owner, out = [], []
    for ci, c in enumerate(chunks):
        owner.extend([ci] * c)
    p = 0
    for _, k in groups:
        out.append(len(set(owner[p:p + k])))
        p += k
    return out


_BIG_GENOMES = {}


def big_genome(n):
    key = (n, os.environ.get("BIONUMPY_REPO", ""))
    if key not in _BIG_GENOMES:
        import bionumpy as bnp
        _BIG_GENOMES[key] = bnp.Genome.from_dict({nm: BIG for nm in MC_NAMES[:n]})
    return _BIG_GENOMES[key]


def mc_table(entries, kind, col=None):
    if kind == "bedgraph" and col != RAGGED:
        return table_class(kind).from_entry_tuples([(nm, s, e, float(s + 1)) for nm, s, e in entries])
    return make_table(entries, kind, col)


def mc_stream(entries, chunks, kind="interval", col=None):
    from bionumpy.streams import NpDataclassStream
    return NpDataclassStream(iter([mc_table(c, kind, col) for c in split_chunks(entries, chunks)]), dataclass=table_class(kind, col))


def mc_sim_entries(groups, which):
    """per contig j-th entry: a -> [3j, 3j+2), b -> [3j+1, 3j+3)"""
    return sim_entries(groups, which)


def eval_many_chunks(col, case, tmp=None):
    """case: api, n, groups [[name, k]], chunking [first, c] (see uniform_chunks) [, consumer, sizes, col, keys, input, streamed]
    signatures: 'many-chunks:' + <layer: groupby | sync (iter_chromosomes, MultiStream, left_join) | genome_api | similarity> + ':' +
    <what is wrong>; entry point, input form, consumer and key storage are in the recorded case"""
    import bionumpy as bnp
    api, n = case["api"], case["n"]
    G = [(nm, BIG) for nm in MC_NAMES[:n]]
    Gn = [g for g, _ in G]
    groups = [tuple(g) for g in case["groups"]]
    entries = entries_of(groups)
    first, c = case["chunking"]
    chunks = uniform_chunks(len(entries), first, c)
    kcol = case.get("col")
    consumer = case.get("consumer", "exhaust")
    assert len(entries) < BIG
    col.case(case, nontrivial=bool(groups), contract="many_chunks." + api)

    if api == "groupby":
        from bionumpy.streams import groupby, NpDataclassStream
        from bionumpy.bnpdataclass import replace
        from bionumpy.encoded_array import EncodedArray
        from bionumpy.encodings.string_encodings import StringEncoding
        import numpy as np
        keys = case["keys"]
        kc = RAGGED if keys == "ragged" else None
        labels = list(reversed(MC_NAMES))

        def conv(tbl, part):
            if keys == "enc":
                return replace(tbl, chromosome=EncodedArray(np.array([labels.index(nm) for nm, _, _ in part]), StringEncoding(labels)))
            return tbl

        def go():
            problems, out = [], []
            data = NpDataclassStream(iter([conv(mc_table(p, "interval", kc), p) for p in split_chunks(entries, chunks)]),
                                     dataclass=table_class("interval", kc))
            for key, tbl in groupby(data, "chromosome"):
                rows = rows_of(tbl)
                if any(r[0] != str(key) for r in rows):
                    problems.append("group %r contains rows %r" % (key, rows[:5]))
                out.append((str(key), uids_of_rows(rows, entries, problems)))
            return ("done", out, problems)

        out = capture(go)
        base = "many-chunks:groupby"  # one signature per layer: the key storage / input form / consumer is in the recorded case
        if out[0] == "raised":
            col.fail("%s:spurious-error:%s" % (base, out[1]), case, out[2])
            return False
        exp = [(nm, [u for x, u, _ in entries if x == nm]) for nm, _ in groups]
        ok = True
        if out[2]:
            ok = col.check(False, base + ":malformed-output", case, "; ".join(out[2][:3]))
        if out[1] != exp:
            lost = sorted(set(u for _, us in exp for u in us) - set(u for _, us in out[1] for u in us))
            col.fail(base + ":wrong-groups", case, "groups in %r pieces: got sizes %r expected %r; lost uids %r"
                     % (pieces_of(groups, chunks), [(k, len(u)) for k, u in out[1]], [(k, len(u)) for k, u in exp], lost[:10]))
            return False
        return ok

    if api in ("jaccard", "forbes"):
        from bionumpy.arithmetics import forbes, jaccard
        ea, eb = mc_sim_entries(groups, "a"), mc_sim_entries(groups, "b")
        streamed = case["streamed"]

        def go():
            a = mc_stream(ea, chunks, "interval", kcol) if "a" in streamed else mc_table(ea, "interval", kcol)
            b = mc_stream(eb, chunks, "interval", kcol) if "b" in streamed else mc_table(eb, "interval", kcol)
            return ("done", float((forbes if api == "forbes" else jaccard)(dict(G), a, b)))

        out = capture(go)
        base = "many-chunks:similarity"
        if out[0] == "raised":
            col.fail("%s:spurious-error:%s" % (base, out[1]), case, out[2])
            return False
        A = {(nm, x) for nm, s, e in ea for x in range(s, e)}
        B = {(nm, x) for nm, s, e in eb for x in range(s, e)}
        N = sum(s for _, s in G)
        a_, b_, c_ = len(A & B), len(A - B), len(B - A)
        d_ = N - a_ - b_ - c_
        exp = a_ * N / ((a_ + b_) * (a_ + c_)) if api == "forbes" else a_ / (N - d_)
        if not math.isclose(out[1], exp, rel_tol=1e-9, abs_tol=1e-12):
            col.fail(base + ":wrong-value", case, "groups in %r pieces: got %r expected %r" % (pieces_of(groups, chunks), out[1], exp))
            return False
        return True

    flat = False
    if api == "iter_chromosomes":
        from bionumpy.datatypes import Interval

        def go():
            ctx = big_genome(n).get_genome_context()
            it = ctx.iter_chromosomes(mc_stream(entries, chunks, "interval", kcol), table_class("interval", kcol) if kcol else Interval)
            problems = []
            tables = list(it) if consumer == "exhaust" else [t for _, t in zip(list(ctx.chrom_sizes.values()), it)]
            return ("done", [(None, uids_of_rows(rows_of(t), entries, problems)) for t in tables], problems)
    elif api == "multistream":
        from bionumpy.datatypes import ChromosomeSize
        from bionumpy.streams import MultiStream
        from bionumpy.streams.multistream import SequenceSizes

        def go():
            kind = case.get("sizes", "dict")
            sizes = ChromosomeSize(Gn, [s for _, s in G]) if kind == "chromsize" else SequenceSizes(G) if kind == "seqsizes" else dict(G)
            ms = MultiStream(sizes, a=mc_stream(entries, chunks, "interval", kcol), v={g: i for i, g in enumerate(Gn)})
            problems = []
            if consumer == "exhaust":
                return ("done", [(None, uids_of_rows(rows_of(t), entries, problems)) for t in ms.a], problems)
            out = []
            for j, (length, name, v, t) in enumerate(zip(ms.lengths, ms.sequence_names, ms.v, ms.a)):
                name = str(name)
                if j >= len(G) or (name, int(length), v) != (G[j][0], G[j][1], j):
                    problems.append("item %d: lengths/names/indexed stream gave %r" % (j, (length, name, v)))
                out.append((name, uids_of_rows(rows_of(t), entries, problems)))
            return ("done", out, problems)
    elif api == "left_join":
        from bionumpy.streams import groupby
        from bionumpy.streams.left_join import left_join

        def go():
            problems, out = [], []
            right = groupby(mc_stream(entries, chunks, "interval", kcol), "chromosome")
            for j, (name, size, data) in enumerate(left_join(list(G), right)):
                if j >= len(G) or (name, size) != G[j]:
                    problems.append("item %d: left side gave %r" % (j, (name, size)))
                out.append((name, [] if data is None else uids_of_rows(rows_of(data), entries, problems)))
            return ("done", out, problems)
    elif api in ("intervals.compute", "intervals.pileup_data", "track.data"):
        kind = "bedgraph" if api == "track.data" else "interval"
        flat = api == "intervals.compute"
        size_of = dict(G)

        def go():
            problems = []
            genome = big_genome(n)
            if case.get("input") == "file":
                # fixed-width numbers; one chunk of the reader = c lines of the widest kind
                path = os.path.join(tmp, "c12_mc_%d.%s" % (col.evaluations, "bed" if kind == "interval" else "bdg"))
                lines = ["%s\t%04d\t%04d%s\n" % (nm, s, e, "" if kind == "interval" else "\t%04d" % (s + 1)) for nm, s, e in entries]
                with open(path, "w") as f:
                    f.write("".join(lines))
                data = bnp.open(path).read_chunks(min_chunk_size=max(len(x) for x in lines) * c)
            else:
                data = mc_stream(entries, chunks, kind, kcol)
            obj = genome.get_intervals(data) if kind == "interval" else genome.get_track(data)
            if api == "intervals.compute":
                return ("done", [(None, uids_of_rows(rows_of(obj.compute().get_data()), entries, problems))], problems)
            if api == "intervals.pileup_data":
                return ("done", decode_track_rows(bnp.compute(obj.get_pileup().get_data()), size_of, "pileup", problems), problems)
            return ("done", decode_track_rows(bnp.compute(obj.get_data()), size_of, "track", problems, value_of=lambda x: float(x + 1)),
                    problems)
    else:
        raise ValueError(api)
    base = "many-chunks:" + ("sync" if api in ("iter_chromosomes", "multistream", "left_join") else "genome_api")
    return judge(col, base, case, G, set(), groups, capture(go), flat=flat)


EVAL = {"iter_chromosomes": eval_iter_chromosomes, "genome_api": eval_genome_api, "multistream": eval_multistream,
        "similarity": eval_similarity, "left_join": eval_left_join, "groupby": eval_groupby,
        "many_chunks": eval_many_chunks}


# ----------------------------------------------------------------------------------------------- enumeration
def sequences(names, maxlen=None):
    maxlen = len(names) if maxlen is None else min(maxlen, len(names))
    for k in range(maxlen + 1):
        for perm in itertools.permutations(names, k):
            yield list(perm)


def compositions(N):
    if N == 0:
        return [[]]
    out = []
    for bits in itertools.product((0, 1), repeat=N - 1):
        comp, cur = [], 1
        for b in bits:
            if b:
                comp.append(cur)
                cur = 1
            else:
                cur += 1
        comp.append(cur)
        out.append(comp)
    return out


def chunkings(N, full_upto):
    if N <= full_upto:
        return compositions(N)
    out = [[N], [1] * N] + [[i, N - i] for i in range(1, N)]
    if N >= 3:
        out.append([1, N - 2, 1])
    res = []
    for c in out:
        if c not in res:
            res.append(c)
    return res


def size_patterns(k, rich):
    if k == 0:
        return [()]
    if k <= 2 or rich:
        return list(itertools.product((1, 2), repeat=k))
    pats = [tuple([1] * k)]
    for i in (0, k - 1):
        p = [1] * k
        p[i] = 2
        pats.append(tuple(p))
    return pats


def group_variants(seq, rich):
    for pat in size_patterns(len(seq), rich):
        yield [[nm, k] for nm, k in zip(seq, pat)]


def dedupe(lists):
    out = []
    for x in lists:
        if x not in out:
            out.append(x)
    return out


def plans(seq, Gn, ignored, thorough, full_upto):
    """-> (index, groups, chunkings).  Sequences the genome accepts: group sizes {1,2}^k for k <= 2 (thorough: k <= 3), else
    all-ones and a 2 at either end, x every composition of N <= full_upto entries (boundary chunkings above).
    Rejected sequences: two (thorough: three) size patterns x {one chunk, singletons (thorough: + every 2-split)} - chunks are
    merged before the order is looked at, so the product is thinned there and not on the accepted side."""
    k = len(seq)
    valid = model(Gn, ignored, seq)[0] == "ok"
    if valid:
        pats = size_patterns(k, thorough and k <= 3)
    elif thorough:
        pats = dedupe([tuple([1] * k), tuple([2] + [1] * (k - 1)) if k else (), tuple([1] * (k - 1) + [2]) if k else ()])
    else:
        pats = dedupe([tuple([1] * k), tuple([2] + [1] * (k - 1)) if k else ()])
    for gi, pat in enumerate(pats):
        groups = [[nm, c] for nm, c in zip(seq, pat)]
        N = sum(pat)
        if valid:
            chs = chunkings(N, full_upto)
        elif N == 0:
            chs = [[]]
        elif thorough:
            chs = dedupe([[N], [1] * N] + [[i, N - i] for i in range(1, N)])
        else:
            chs = dedupe([[N], [1] * N])
        yield gi, groups, chs


def cases_iter_chromosomes(thorough, full_upto):
    for gcfg in GCFGS:
        for n in range(1, 5):
            if gcfg == "sorted" and (n == 1 or (n == 4 and not thorough)):
                continue
            maxlen = None
            if not thorough:
                if gcfg == "inc_" and n >= 3:
                    maxlen = 2 if n == 3 else 1
                elif gcfg != "plain" and n == 4:
                    maxlen = 2 if gcfg == "ign_" else 3
            elif n == 4 and gcfg != "plain":
                maxlen = {"ignM": 4, "ign_": 4, "sorted": None, "inc_": 3}[gcfg]
            _, G, ignored = genome_layout(gcfg, n)
            Gn = [g for g, _ in G]
            for seq in sequences(universe(gcfg, n), maxlen):
                for gi, groups, chs in plans(seq, Gn, ignored, thorough, full_upto):
                    N = sum(k for _, k in groups)
                    for chunks in chs:
                        for consumer in ("exhaust", "zip"):
                            yield {"contract": "iter_chromosomes", "gcfg": gcfg, "n": n, "groups": groups, "chunks": chunks,
                                   "input": "stream", "consumer": consumer}
                    if N > 0:
                        for consumer in ("exhaust", "zip"):
                            yield {"contract": "iter_chromosomes", "gcfg": gcfg, "n": n, "groups": groups, "chunks": [N],
                                   "input": "table", "consumer": consumer}


def cases_multistream(thorough, full_upto):
    for n in range(1, 5):
        Gn = NAMES[:n]
        for seq in sequences(Gn + [UNKNOWN]):
            for gi, groups, chs in plans(seq, Gn, set(), thorough, full_upto):
                N = sum(k for _, k in groups)
                for si, sizes in enumerate(("dict", "chromsize", "seqsizes") if (thorough or n <= 3) else ("dict",)):
                    for chunks in (chs if si == 0 else chs[:3] if thorough else chs[:1]):
                        for consumer in ("exhaust", "zip"):
                            yield {"contract": "multistream", "n": n, "groups": groups, "chunks": chunks, "input": "stream",
                                   "sizes": sizes, "consumer": consumer}
                    if N > 0 and si == 0:
                        for consumer in ("exhaust", "zip"):
                            yield {"contract": "multistream", "n": n, "groups": groups, "chunks": [N], "input": "table",
                                   "sizes": sizes, "consumer": consumer}


def cases_left_join(thorough, full_upto):
    for n in range(1, 5):
        Gn = NAMES[:n]
        for seq in sequences(Gn + [UNKNOWN]):
            for gi, groups, chs in plans(seq, Gn, set(), thorough, full_upto):
                N = sum(k for _, k in groups)
                yield {"contract": "left_join", "n": n, "groups": groups, "chunks": [N] if N else [], "input": "pure"}
                if N > 0:
                    yield {"contract": "left_join", "n": n, "groups": groups, "chunks": [N], "input": "table"}
                for chunks in chs:
                    yield {"contract": "left_join", "n": n, "groups": groups, "chunks": chunks, "input": "stream"}


def cases_groupby(thorough, full_upto):
    for seq in sequences(GB_NAMES, 4 if thorough else 3):
        if not seq:
            continue
        for groups in group_variants(seq, thorough and len(seq) <= 3):
            N = sum(k for _, k in groups)
            for keys in ("str", "enc"):
                yield {"contract": "groupby", "groups": groups, "chunks": [N], "input": "table", "keys": keys}
                for chunks in chunkings(N, full_upto):
                    yield {"contract": "groupby", "groups": groups, "chunks": chunks, "input": "stream", "keys": keys}


def cases_genome_api(thorough, full_upto):
    for gcfg in GCFGS:
        for n in range(1, (4 if thorough else 3) + 1):
            if gcfg == "sorted" and n == 1:
                continue
            maxlen = None
            if not thorough:
                if gcfg == "inc_" and n >= 3:
                    continue
                if gcfg != "plain" and n == 3:
                    maxlen = 3
            elif n == 4 and gcfg != "plain":
                maxlen = 2 if gcfg == "inc_" else 3
            _, G, ignored = genome_layout(gcfg, n)
            Gn = [g for g, _ in G]
            for seq in sequences(universe(gcfg, n), maxlen):
                for gi, groups, chs in plans(seq, Gn, ignored, thorough, min(full_upto, 4)):
                    N = sum(k for _, k in groups)
                    ok = model(Gn, ignored, seq)[0] == "ok"
                    if thorough and not ok:
                        if gi > 1:
                            continue
                        chs = dedupe([[N], [1] * N]) if N else [[]]
                    if not thorough:  # the observers are ~5x dearer than the bare generator: thin the chunkings further
                        if gi > 0 and not ok:
                            continue
                        if N == 0:
                            chs = [[]]
                        elif gi == 0:
                            chs = dedupe([[N], [1] * N] + chunkings(N, 3)) if ok else chs[-1:]
                        else:
                            chs = [[1] * N]
                    for observer in OBSERVERS:
                        for chunks in chs:
                            yield {"contract": "genome_api", "gcfg": gcfg, "n": n, "groups": groups, "chunks": chunks,
                                   "input": "stream", "observer": observer}
                        if gi == 0 and N > 0:
                            yield {"contract": "genome_api", "gcfg": gcfg, "n": n, "groups": groups, "chunks": [N],
                                   "input": "file", "observer": observer}
                            if observer.startswith("intervals"):
                                yield {"contract": "genome_api", "gcfg": gcfg, "n": n, "groups": groups, "chunks": [N],
                                       "input": "table_as_stream", "observer": observer}


def cases_similarity(thorough, full_upto):
    for n in range(1, (4 if thorough else 3) + 1):
        Gn = NAMES[:n]
        valid_fixed = [[[NAMES[p], 1 + (p % 2)] for p in range(n)], [[NAMES[n - 1], 2]]]
        allseq = [s for s in sequences(Gn + [UNKNOWN]) if s]
        for func in ("forbes", "jaccard"):
            for varied in ("a", "b"):
                other = "b" if varied == "a" else "a"
                for seq in allseq:
                    ok = model(Gn, set(), seq)[0] == "ok"
                    for groups in group_variants(seq, False):
                        N = sum(k for _, k in groups)
                        for fixed in (valid_fixed if (ok or thorough) else valid_fixed[:1]):
                            Nf = sum(k for _, k in fixed)
                            for chunks in ([[N], [1] * N] if N > 1 else [[N]]):
                                case = {"contract": "similarity", "func": func, "n": n,
                                        "sizes": "dict" if len(chunks) == 1 else "chromsize"}
                                case[varied + "_groups"], case[varied + "_chunks"], case[varied + "_input"] = groups, chunks, "stream"
                                case[other + "_groups"], case[other + "_chunks"] = fixed, [Nf]
                                case[other + "_input"] = "table" if len(chunks) == 1 else "stream"
                                yield case


# ----------------------------------------------------------------------------------------------- extended scope: name families
SMALL_FAMS = ("scaffold", "natural", "nested", "fixedw", "long25")
ORDER_FAMS = ("scaffold", "natural")  # the two whose genome order is not the lexicographic one from the second contig on


def name_plans(seq, Gn, ignored, rich=False):
    """-> (groups, chunkings, zip too?) for one group sequence of a name family.  Accepted sequences: all-ones (+ two entries
    in the first group for <= 2 groups; rich: plans()) x {one chunk, singletons, every 2-split}: neighbours of the data
    order meet inside one chunk and across a chunk border.  Rejected sequences: one chunk (+ singletons for <= 2 groups)."""
    k = len(seq)
    valid = model(Gn, ignored, seq)[0] == "ok"
    if rich:
        for gi, groups, chs in plans(seq, Gn, ignored, True, 4):
            yield groups, chs, True
        return
    pats = [tuple([1] * k)]
    if valid and 1 <= k <= 2:
        pats.append(tuple([2] + [1] * (k - 1)))
    for pat in pats:
        groups = [[nm, c] for nm, c in zip(seq, pat)]
        N = sum(pat)
        if N == 0:
            chs = [[]]
        elif valid:
            chs = dedupe([[N], [1] * N] + [[i, N - i] for i in range(1, N)])
        else:
            chs = dedupe([[N]] + ([[1] * N] if k <= 2 else []))
        yield groups, chs, (valid or k <= 2)


def fam_maxlen(n, thorough):
    """group sequences are complete up to this length (None: complete); longer ones: those the genome accepts"""
    if n <= 3:
        return None
    if n == 4:
        return 3 if thorough else 2
    return 2


def fam_sequences(fam, gcfg, n, maxlen):
    """all sequences of <= maxlen distinct names over genome + unknown (+ ignored), plus every longer sequence that the genome accepts"""
    _, G, ignored = genome_layout(gcfg, n, fam)
    Gn = [g for g, _ in G]
    uni = universe(gcfg, n, fam)
    seqs = list(sequences(uni, maxlen))
    if maxlen is not None:
        for k in range(maxlen + 1, n + 1):
            seqs.extend(list(c) for c in itertools.combinations(Gn, k))
    return Gn, ignored, seqs


def fams_at(n, thorough):
    """quick tier: every family at 2 and 3 contigs, two of them at 4"""
    return SMALL_FAMS if (thorough or n <= 3) else ORDER_FAMS


def fam_genomes(fam, thorough):
    if thorough:
        out = [("plain", n) for n in (1, 2, 3, 4, 5)] + [("sorted", 2), ("sorted", 3), ("ignM", 2), ("ignM", 3)]
        if fam in ORDER_FAMS:
            out += [("sorted", 4), ("ignM", 4)]
        return out
    out = [("plain", 2), ("plain", 3)]
    if fam in ORDER_FAMS:
        out += [("plain", 4), ("sorted", 3), ("ignM", 3)]
    return out


def cases_fam_iter(thorough):
    per_fam = [[(fam,) + gn for gn in fam_genomes(fam, thorough)] for fam in SMALL_FAMS]
    for row in itertools.zip_longest(*per_fam):
        for item in row:
            if item is None:
                continue
            fam, gcfg, n = item
            Gn, ignored, seqs = fam_sequences(fam, gcfg, n, fam_maxlen(n, thorough) if gcfg == "plain" or n <= 3 else 2)
            for seq in seqs:
                for groups, chs, zip_too in name_plans(seq, Gn, ignored, rich=thorough and n <= 2 and gcfg == "plain"):
                    N = sum(k for _, k in groups)
                    for ci, chunks in enumerate(chs):
                        for consumer in ("exhaust", "zip") if (zip_too and ci <= (1 if thorough else 0)) else ("exhaust",):
                            yield {"contract": "iter_chromosomes", "fam": fam, "gcfg": gcfg, "n": n, "groups": groups,
                                   "chunks": chunks, "input": "stream", "consumer": consumer}
                    if N > 0 and (thorough or len(groups) <= 2):
                        yield {"contract": "iter_chromosomes", "fam": fam, "gcfg": gcfg, "n": n, "groups": groups, "chunks": [N],
                               "input": "table", "consumer": "exhaust"}


def cases_fam_genome_api(thorough):
    plan = [("plain", 2, SMALL_FAMS), ("plain", 3, SMALL_FAMS if thorough else ("scaffold", "natural", "nested"))]
    if thorough:
        plan += [("sorted", 3, ORDER_FAMS), ("ignM", 2, SMALL_FAMS), ("plain", 4, ORDER_FAMS)]
    for gcfg, n, fams in plan:
        for fam in fams:
            Gn, ignored, seqs = fam_sequences(fam, gcfg, n, None if n <= 3 else 2)
            for seq in seqs:
                ok = model(Gn, ignored, seq)[0] == "ok"
                for pi, (groups, chs, zip_too) in enumerate(name_plans(seq, Gn, ignored)):
                    N = sum(k for _, k in groups)
                    for oi, observer in enumerate(("intervals.pileup_data", "track.data", "intervals.compute", "track.sum")):
                        if oi >= 2 and (pi > 0 or len(seq) > (3 if thorough else 2)):
                            continue
                        for chunks in (chs if oi == 0 else chs[:2] if oi == 1 else chs[:1]):
                            yield {"contract": "genome_api", "fam": fam, "gcfg": gcfg, "n": n, "groups": groups,
                                   "chunks": chunks, "input": "stream", "observer": observer}
                        if pi == 0 and N > 0 and ok and oi < (2 if thorough else 1):
                            yield {"contract": "genome_api", "fam": fam, "gcfg": gcfg, "n": n, "groups": groups,
                                   "chunks": [N], "input": "file", "observer": observer}


def cases_fam_multistream(thorough):
    for n in ((1, 2, 3, 4, 5) if thorough else (2, 3, 4)):
        for fam in fams_at(n, thorough):
            Gn = fam_names(fam)[:n]
            _, _, seqs = fam_sequences(fam, "plain", n, fam_maxlen(n, thorough))
            for seq in seqs:
                for groups, chs, zip_too in name_plans(seq, Gn, set(), rich=thorough and n <= 2):
                    N = sum(k for _, k in groups)
                    for ci, chunks in enumerate(chs):
                        for consumer in ("exhaust", "zip") if (zip_too and ci <= (1 if thorough else 0)) else ("exhaust",):
                            yield {"contract": "multistream", "fam": fam, "n": n, "groups": groups, "chunks": chunks,
                                   "input": "stream", "sizes": ("dict", "chromsize", "seqsizes")[ci % 3], "consumer": consumer}
                    if N > 0 and (thorough or len(groups) <= 2):
                        yield {"contract": "multistream", "fam": fam, "n": n, "groups": groups, "chunks": [N], "input": "table",
                               "sizes": "dict", "consumer": "exhaust"}


def cases_fam_left_join(thorough):
    for n in ((1, 2, 3, 4, 5) if thorough else (2, 3, 4)):
        for fam in fams_at(n, thorough):
            Gn = fam_names(fam)[:n]
            _, _, seqs = fam_sequences(fam, "plain", n, fam_maxlen(n, thorough))
            for seq in seqs:
                for pi, (groups, chs, zip_too) in enumerate(name_plans(seq, Gn, set(), rich=thorough and n <= 2)):
                    N = sum(k for _, k in groups)
                    if pi == 0:
                        yield {"contract": "left_join", "fam": fam, "n": n, "groups": groups, "chunks": [N] if N else [],
                               "input": "pure"}
                        if N > 0:
                            yield {"contract": "left_join", "fam": fam, "n": n, "groups": groups, "chunks": [N], "input": "table"}
                    for chunks in chs:
                        yield {"contract": "left_join", "fam": fam, "n": n, "groups": groups, "chunks": chunks, "input": "stream"}


def cases_fam_groupby(thorough):
    """sequences of <= 2 of the 6 names of a family (5 genome names + the unknown one) and of 3 of the first 4 (thorough: 3 of
    the 6 and 4 of the first 4); all-ones with {table, one chunk, singletons, every 2-split}, one doubled group with
    {one chunk, every 2-split (<= 2 groups)}; EncodedArray keys: {table, one chunk} (thorough: + singletons)"""
    for maxlen in ((1, 2, 3, 4) if thorough else (1, 2, 3)):
        for fam in SMALL_FAMS:
            pool = gb_names(fam) if maxlen <= (3 if thorough else 2) else gb_names(fam)[:4]
            for seq in itertools.permutations(pool, maxlen):
                for gi, groups in enumerate(group_variants(list(seq), maxlen <= 2)):
                    N = sum(k for _, k in groups)
                    ones = N == len(groups)
                    if not ones and N > len(groups) + 1:
                        continue
                    for keys in ("str", "enc") if (thorough or fam in ("scaffold", "nested")) else ("str",):
                        if keys == "enc":
                            chs = dedupe([[N]] + ([[1] * N] if thorough else [])) if ones else []
                        elif ones:
                            chs = dedupe([[N], [1] * N] + [[i, N - i] for i in range(1, N)])
                        else:
                            chs = dedupe([[N]] + ([[i, N - i] for i in range(1, N)] if maxlen <= 2 else []))
                        if ones:
                            yield {"contract": "groupby", "fam": fam, "groups": groups, "chunks": [N], "input": "table", "keys": keys}
                        for chunks in chs:
                            yield {"contract": "groupby", "fam": fam, "groups": groups, "chunks": chunks, "input": "stream",
                                   "keys": keys}


def cases_fam_similarity(thorough):
    if not thorough:
        return
    n = 3
    for fam in ("scaffold", "natural", "nested"):
        Gn = fam_names(fam)[:n]
        fixed = [[Gn[p], 1 + (p % 2)] for p in range(n)]
        for func in ("forbes", "jaccard"):
            for varied in ("a", "b"):
                other = "b" if varied == "a" else "a"
                for seq in sequences(Gn + [fam_unknown(fam)]):
                    if not seq:
                        continue
                    groups = [[nm, 1] for nm in seq]
                    N = len(seq)
                    for chunks in ([[N], [1] * N] if (N > 1 and model(Gn, set(), seq)[0] == "ok") else [[N]]):
                        case = {"contract": "similarity", "fam": fam, "func": func, "n": n,
                                "sizes": "dict" if len(chunks) == 1 else "chromsize"}
                        case[varied + "_groups"], case[varied + "_chunks"], case[varied + "_input"] = groups, chunks, "stream"
                        case[other + "_groups"], case[other + "_chunks"] = fixed, [sum(k for _, k in fixed)]
                        case[other + "_input"] = "stream"
                        yield case


# ----------------------------------------------------------------------------------------------- extended scope: many contigs
def many_positions(n):
    """positions at both ends of the genome and 10 .. 12 contigs away from either end (+ 16/17 and 32/33 for the largest)"""
    return sorted({p for p in (0, 1, 2, 10, 11, 12, 16, 17, 32, 33, n - 13, n - 12, n - 11, n - 3, n - 2, n - 1) if 0 <= p < n})


def many_sequences(n, thorough):
    """position sequences over a genome of n contigs (position n stands for the unknown name): every single group, every ordered
    pair (all positions for n <= 13, the positions above beyond), every ordered triple of 6 (thorough, 13 contigs: 8) of those positions,
    the full genome, every other contig, the full genome with one contig moved to the end / to the front / replaced"""
    seen = set()

    def emit(seq):
        t = tuple(seq)
        if t in seen:
            return False
        seen.add(t)
        return True

    B = many_positions(n)
    P = list(range(n)) if n <= 13 else B
    for i in P + [n]:
        if emit([i]):
            yield [i]
    pairs = [(i, j) for i in P + [n] for j in P + [n] if i != j]
    pairs.sort(key=lambda ij: (-abs(ij[0] - ij[1]), ij))  # the long jumps first
    for i, j in pairs:
        if emit([i, j]):
            yield [i, j]
    T = [p for p in B if p in ((0, 1, 2, n - 12, n - 11, n - 3, n - 2, n - 1) if (thorough and n == 13) else
                               (0, 1, n - 12, n - 11, n - 2, n - 1))]
    for tr in itertools.permutations(T, 3):
        if emit(tr):
            yield list(tr)
    full = list(range(n))
    for seq in (full, full[::2], full[1::2], full[1:] + [0], full[:1] + full[2:] + [1], [n - 1] + full[:-1], full[:n - 2] + [n]):
        if emit(seq):
            yield seq


def cases_many(thorough):
    fam = "many"
    gens = []
    for n, gcfg in (((13, "plain"), (12, "plain"), (16, "plain"), (24, "plain"), (40, "plain"), (13, "ignM")) if thorough else
                    ((13, "plain"),)):
        gens.append(_cases_many(fam, gcfg, n, thorough))
    while gens:
        for g in list(gens):
            c = next(g, None)
            if c is None:
                gens.remove(g)
            else:
                yield c


def _cases_many(fam, gcfg, n, thorough):
    _, G, ignored = genome_layout(gcfg, n, fam)
    Gn = [g for g, _ in G]
    label = Gn + [fam_unknown(fam)]
    for pseq in many_sequences(n, thorough):
        seq = [label[p] for p in pseq]
        if ignored and len(seq) in (2, 3):  # an ignored group between the first and the second
            seq = seq[:1] + sorted(ignored) + seq[1:]
        if len(seq) > 14:
            seq = seq[:14]  # unique ids must stay below the smallest contig size
        groups = [[nm, 1] for nm in seq]
        N = len(groups)
        valid = model(Gn, ignored, seq)[0] == "ok"
        chs = dedupe([[N], [1] * N] + ([[N // 2, N - N // 2]] if N > 2 else [])) if valid else [[N]]
        few = len(pseq) == 2  # the pairs are many: one of the two interval observers each; triples: pile-up + one of the others
        for ci, chunks in enumerate(chs):
            for consumer in ("exhaust", "zip") if (thorough or ci == 0) else ("exhaust",):
                yield {"contract": "iter_chromosomes", "fam": fam, "gcfg": gcfg, "n": n, "groups": groups, "chunks": chunks,
                       "input": "stream", "consumer": consumer}
            for observer in (("intervals.pileup_data",) if ci > 0 else
                             (("intervals.pileup_data", "intervals.compute")[sum(pseq) % 2],) if few else
                             ("intervals.pileup_data", ("track.data", "intervals.compute", "track.sum")[sum(pseq) % 3])
                             if len(pseq) == 3 else ("intervals.pileup_data", "track.data", "intervals.compute", "track.sum")):
                yield {"contract": "genome_api", "fam": fam, "gcfg": gcfg, "n": n, "groups": groups, "chunks": chunks,
                       "input": "stream", "observer": observer}
            if gcfg == "plain":
                for consumer in ("exhaust", "zip") if (thorough or ci == 0) else ("exhaust",):
                    yield {"contract": "multistream", "fam": fam, "n": n, "groups": groups, "chunks": chunks, "input": "stream",
                           "sizes": ("dict", "chromsize", "seqsizes")[ci % 3], "consumer": consumer}
                yield {"contract": "left_join", "fam": fam, "n": n, "groups": groups, "chunks": chunks, "input": "stream"}
        if gcfg == "plain":
            yield {"contract": "left_join", "fam": fam, "n": n, "groups": groups, "chunks": [N], "input": "pure"}


# ----------------------------------------------------------------------------------------------- extended scope: ragged key columns
REPEAT_FAMS = ("repeat", "ensembl")  # names of one character and of that character repeated
RAGGED_FAMS = ("repeat", "ensembl", None, "nested", "scaffold", "natural")  # None: the original alphabet chr1, chr10, chr2 ...


def ragged_fams(thorough):
    return RAGGED_FAMS if thorough else RAGGED_FAMS[:5]


def ragged_genomes(fam, thorough):
    """(gcfg, contigs, group sequences complete up to this length [None: complete; longer ones: those the genome accepts])"""
    rep_ = fam in REPEAT_FAMS
    if thorough:
        out = [("plain", 1, None), ("plain", 2, None), ("plain", 3, None), ("plain", 4, 3 if rep_ else 2), ("sorted", 3, None),
               ("ignM", 3, None)]
        if rep_:
            out += [("plain", 5, 2), ("sorted", 4, 2), ("ignM", 2, None)]
        return out
    out = [("plain", 3, None), ("plain", 2, None)]
    if rep_:
        out += [("plain", 4, 2), ("sorted", 3, 2), ("ignM", 3, 2)]
    return out


def _interleave(gens):
    gens = list(gens)
    while gens:
        for g in list(gens):
            c = next(g, None)
            if c is None:
                gens.remove(g)
            else:
                yield c


def _ragged_streams(fam, gcfg, n, maxlen, thorough):
    """one genome of one family: iter_chromosomes / multistream / left_join over ragged contig columns"""
    Gn, ignored, seqs = fam_sequences(fam, gcfg, n, maxlen)
    rep_ = fam in REPEAT_FAMS
    for seq in seqs:
        for groups, chs, zip_too in name_plans(seq, Gn, ignored, rich=thorough and rep_ and n <= 3 and gcfg == "plain"):
            N = sum(k for _, k in groups)
            for ci, chunks in enumerate(chs):
                for consumer in ("exhaust", "zip") if (zip_too and ci <= (1 if thorough else 0)) else ("exhaust",):
                    yield {"contract": "iter_chromosomes", "fam": fam, "col": RAGGED, "gcfg": gcfg, "n": n, "groups": groups,
                           "chunks": chunks, "input": "stream", "consumer": consumer}
                    if gcfg == "plain":
                        yield {"contract": "multistream", "fam": fam, "col": RAGGED, "n": n, "groups": groups, "chunks": chunks,
                               "input": "stream", "sizes": ("dict", "chromsize", "seqsizes")[ci % 3], "consumer": consumer}
                if gcfg == "plain" and (thorough or rep_ or ci == 0):
                    yield {"contract": "left_join", "fam": fam, "col": RAGGED, "n": n, "groups": groups, "chunks": chunks,
                           "input": "stream"}
            if N > 0 and (thorough or len(groups) <= 2):
                yield {"contract": "iter_chromosomes", "fam": fam, "col": RAGGED, "gcfg": gcfg, "n": n, "groups": groups,
                       "chunks": [N], "input": "table", "consumer": "exhaust"}
                if gcfg == "plain":
                    yield {"contract": "multistream", "fam": fam, "col": RAGGED, "n": n, "groups": groups, "chunks": [N],
                           "input": "table", "sizes": "dict", "consumer": "exhaust"}
                    yield {"contract": "left_join", "fam": fam, "col": RAGGED, "n": n, "groups": groups, "chunks": [N],
                           "input": "table"}


def cases_ragged_streams(thorough):
    """genome by genome (the first genome of every family, then the second ...), the families of one round interleaved"""
    per_fam = [[(fam,) + g for g in ragged_genomes(fam, thorough)] for fam in ragged_fams(thorough)]
    for row in itertools.zip_longest(*per_fam):
        yield from _interleave(_ragged_streams(*item, thorough) for item in row if item is not None)


def cases_ragged_groupby(thorough):
    """sequences of <= 2 of the 6 names of a family (original alphabet: its 5) and of 3 of the first 4 (thorough: 3 of all and 4
    of the first 4); all-ones with {table, one chunk, singletons, every 2-split}, one doubled group with {one chunk, every 2-split
    (<= 2 groups)}.  Keys: ragged; the repeated-character families also StringArray and (all-ones) StringEncoding"""
    for maxlen in ((1, 2, 3, 4) if thorough else (1, 2, 3)):
        for fam in ragged_fams(thorough) + (("fixedw", "long25") if thorough else ()):
            pool = gb_names(fam) if maxlen <= (3 if thorough else 2) else gb_names(fam)[:4]
            for seq in itertools.permutations(pool, maxlen):
                for gi, groups in enumerate(group_variants(list(seq), maxlen <= 2)):
                    N = sum(k for _, k in groups)
                    ones = N == len(groups)
                    if not ones and N > len(groups) + 1:
                        continue
                    for keys in ("ragged", "str", "enc") if fam in REPEAT_FAMS else ("ragged",):
                        if keys == "enc":
                            chs = dedupe([[N], [1] * N]) if ones else []
                        elif ones:
                            chs = dedupe([[N], [1] * N] + [[i, N - i] for i in range(1, N)])
                        else:
                            chs = dedupe([[N]] + ([[i, N - i] for i in range(1, N)] if maxlen <= 2 else []))
                        case = {"contract": "groupby", "groups": groups, "keys": keys}
                        if fam:
                            case["fam"] = fam
                        if ones:
                            yield dict(case, chunks=[N], input="table")
                        for chunks in chs:
                            yield dict(case, chunks=chunks, input="stream")


def cases_ragged_many(thorough):
    """genomes 1 .. n (bare numeric names, natural order): singles, ordered pairs, boundary triples, full genome and rotations"""
    fam = "manynum"
    for n in ((13, 24) if thorough else (13,)):
        Gn = fam_names(fam)[:n]
        label = Gn + [fam_unknown(fam)]
        for pseq in many_sequences(n, thorough):
            seq = [label[p] for p in pseq][:14]  # unique ids must stay below the smallest contig size
            groups = [[nm, 1] for nm in seq]
            N = len(groups)
            valid = model(Gn, set(), seq)[0] == "ok"
            for ci, chunks in enumerate(dedupe([[N], [1] * N]) if (valid and (thorough or N > 3)) else [[N]]):
                yield {"contract": "iter_chromosomes", "fam": fam, "col": RAGGED, "gcfg": "plain", "n": n, "groups": groups,
                       "chunks": chunks, "input": "stream", "consumer": "exhaust"}
                yield {"contract": "multistream", "fam": fam, "col": RAGGED, "n": n, "groups": groups, "chunks": chunks,
                       "input": "stream", "sizes": ("dict", "chromsize", "seqsizes")[(ci + sum(pseq)) % 3], "consumer": "exhaust"}
                if thorough or len(pseq) != 2:
                    yield {"contract": "left_join", "fam": fam, "col": RAGGED, "n": n, "groups": groups, "chunks": chunks,
                           "input": "stream"}


# ----------------------------------------------------------------------------------------------- extended scope: many chunks
MC_LAYOUTS = {  # the long contig (k == "L") first / in the middle / last in the genome, alone, two long ones back to back
    "middle": [["chr1", 2], ["chr10", "L"], ["chr2", 3]],
    "first": [["chr1", "L"], ["chr2", 1], ["chrX", 2]],
    "last": [["chr10", 1], ["chrX", "L"]],
    "only": [["chr2", "L"]],
    "two": [["chr10", "L"], ["chr2", "L+1"]],
}
MC_INVALID = {  # a long group followed by a group the genome cannot accept there (consumer: exhaust)
    "misordered-early": [["chr10", "L"], ["chr1", 1]],
    "misordered-late": [["chr2", 1], ["chrX", "L"], ["chr1", 1]],
    "unknown-early": [["chr10", "L"], [UNKNOWN, 1]],
}


def mc_groups(layout, L):
    return [[nm, L if k == "L" else L + 1 if k == "L+1" else k] for nm, k in layout]


def mc_edges(upto):
    """piece counts at and around the multiples of 16 and the powers of two (block-wise / pair-wise joining), and the small ones"""
    s = {1, 2, 3, 4, 5, 7, 8, 9}
    for m in range(16, upto + 16, 16):
        s.update((m - 1, m, m + 1, m + 2))
    return sorted(p for p in s if p <= upto)


def mc_lengths(layout, first, c, pieces):
    """lengths L of the long group for which its number of pieces is in `pieces`: for every such count the smallest and the
    largest L that gives it (c == 1: exactly one)"""
    want, by_p = set(pieces), {}
    for L in range(1, (max(want) + 1) * c + 1):
        groups = mc_groups(layout, L)
        N = sum(k for _, k in groups)
        li = [i for i, (_, k) in enumerate(layout) if k == "L"][0]
        p = pieces_of(groups, uniform_chunks(N, first, c))[li]
        if p in want:
            by_p.setdefault(p, []).append(L)
    out = []
    for p in sorted(by_p):
        for L in dedupe([by_p[p][0], by_p[p][-1]]):
            out.append(L)
    return out


def cases_many_chunks(thorough):
    """P = number of chunks that hold entries of the long contig.  e(u): P in 1..9 and around every multiple of 16 up to u;
    r(u): every P in 1..u.  The bounds per entry point are listed in col.bounds['many_chunks']."""
    T = thorough
    n = 4
    e = mc_edges
    far = [127, 128, 129, 130] + ([511, 512, 513, 514, 1023, 1024, 1025, 1026] if T else [])

    def r(u):
        return list(range(1, u + 1))

    def u_(*lists):
        return sorted(set(itertools.chain.from_iterable(lists)))

    def mk(api, layout, L, first=1, c=1, **kw):
        return dict({"contract": "many_chunks", "api": api, "n": n, "groups": mc_groups(layout, L), "chunking": [first, c]}, **kw)

    M = MC_LAYOUTS["middle"]
    others = [k for k in MC_LAYOUTS if k != "middle"]

    def g_groupby():
        for L in u_(r(160), e(274), far) if T else u_(r(72), far):
            yield mk("groupby", M, L, keys="str")
        for lname in others:
            for L in (u_(r(72), e(130)) if T else e(66)):
                yield mk("groupby", MC_LAYOUTS[lname], L, keys="str")
        for keys in ("enc", "ragged"):
            for L in (u_(r(72), e(130)) if T else e(66)):
                yield mk("groupby", M, L, keys=keys)
        for c in (2, 3):
            for first in range(1, c + 1):
                for L in mc_lengths(M, first, c, r(40) if T else e(34)):
                    yield mk("groupby", M, L, first, c, keys="str")

    def g_multistream():
        for i, L in enumerate(u_(r(160), e(274), far[:4]) if T else r(72)):
            yield mk("multistream", M, L, consumer="exhaust", sizes=("dict", "chromsize", "seqsizes")[i % 3])
        for lname in others:
            for L in (r(72) if T else e(34)):
                yield mk("multistream", MC_LAYOUTS[lname], L, consumer="exhaust")
        for L in (r(72) if T else e(66)):
            yield mk("multistream", M, L, consumer="zip")
        for c, first in ((2, 1), (2, 2), (3, 1), (3, 2), (3, 3)) if T else ((2, 1), (2, 2), (3, 1)):
            for L in mc_lengths(M, first, c, e(66) if T else e(34)):
                yield mk("multistream", M, L, first, c, consumer="exhaust")
        for L in (e(130) if T else e(34)):
            yield mk("multistream", M, L, consumer="exhaust", col=RAGGED)

    def g_iter():
        for L in (u_(r(72), e(274)) if T else e(66)):
            yield mk("iter_chromosomes", M, L, consumer="exhaust")
        for lname in (others if T else ("last", "first")):
            for L in (e(130) if T else e(34)):
                yield mk("iter_chromosomes", MC_LAYOUTS[lname], L, consumer="exhaust")
        for L in (e(130) if T else e(34)):
            yield mk("iter_chromosomes", M, L, consumer="zip")
        for c, first in ((2, 1), (2, 2), (3, 1), (3, 2), (3, 3)) if T else ((2, 1), (2, 2)):
            for L in mc_lengths(M, first, c, e(66) if T else e(34)):
                yield mk("iter_chromosomes", M, L, first, c, consumer="exhaust")
        for L in (e(130) if T else e(18)):
            yield mk("iter_chromosomes", M, L, consumer="exhaust", col=RAGGED)

    def g_left_join():
        for L in (u_(r(72), e(130)) if T else e(66)):
            yield mk("left_join", M, L)
        if T:
            for lname in ("last", "first", "only"):
                for L in e(66):
                    yield mk("left_join", MC_LAYOUTS[lname], L)

    def g_genome_api():
        for api in ("intervals.compute", "intervals.pileup_data", "track.data"):
            consumer = "exhaust" if api == "intervals.compute" else "zip"
            if api == "intervals.compute":
                Ls = u_(r(72), e(274), far) if T else r(72)
            else:
                Ls = u_(r(72), e(130)) if T else e(66)
            for L in Ls:
                yield mk(api, M, L, consumer=consumer)
            for lname in (others if T else ("last",)):
                for L in (e(66) if T else e(34)):
                    yield mk(api, MC_LAYOUTS[lname], L, consumer=consumer)
            for c in (2, 3) if T else (2,):
                for L in mc_lengths(M, 1, c, e(66) if T else e(34)):
                    yield mk(api, M, L, 1, c, consumer=consumer)

    def g_files():
        for api in ("intervals.compute", "track.data", "intervals.pileup_data"):
            consumer = "exhaust" if api == "intervals.compute" else "zip"
            few = [1, 15, 16, 17, 18, 33]
            for c in (1, 2, 3):
                for lname in ("middle", "last") if (c == 1 and T) else ("middle",):
                    Ps = e(66) if T else e(34) if (api == "intervals.compute" and c == 1) else few
                    for L in mc_lengths(MC_LAYOUTS[lname], c, c, Ps):
                        yield mk(api, MC_LAYOUTS[lname], L, c, c, consumer=consumer, input="file")

    def g_similarity():
        for func in ("jaccard", "forbes"):
            for streamed in ("ab", "a", "b"):
                for lname in ("middle", "last") if T else ("middle",):
                    for L in (e(66) if T else e(34) if streamed == "ab" else [1, 16, 17, 18, 33]):
                        yield mk(func, MC_LAYOUTS[lname], L, streamed=streamed)

    def g_invalid():
        for lname, layout in MC_INVALID.items():
            for api in ("iter_chromosomes", "multistream", "left_join", "intervals.compute"):
                for L in (e(66) if T else [1, 16, 17, 18, 33]):
                    yield mk(api, layout, L, consumer="exhaust")

    return _interleave([g_groupby(), g_multistream(), g_iter(), g_left_join(), g_genome_api(), g_files(), g_similarity(), g_invalid()])


def ragged_cases(tier):
    """round-robin over the generators of the ragged-key-column scope"""
    thorough = tier != "quick"
    return _interleave([cases_ragged_groupby(thorough), cases_ragged_streams(thorough), cases_ragged_many(thorough)])


def extended_cases(tier):
    """round-robin over the generators of the extended scope (name families, many contigs)"""
    thorough = tier != "quick"
    gens = [cases_many(thorough), cases_fam_iter(thorough), cases_fam_genome_api(thorough), cases_fam_multistream(thorough),
            cases_fam_left_join(thorough), cases_fam_groupby(thorough), cases_fam_similarity(thorough)]
    while gens:
        for g in list(gens):
            case = next(g, None)
            if case is None:
                gens.remove(g)
            else:
                yield case


def enumerate_cases(tier):
    """round-robin over the contracts, so that a time-out thins every contract instead of dropping the last ones"""
    thorough = tier != "quick"
    full_upto = 6 if thorough else 4
    gens = [g(thorough, full_upto) for g in (cases_iter_chromosomes, cases_genome_api, cases_multistream, cases_similarity,
                                             cases_left_join, cases_groupby)]
    while gens:
        for g in list(gens):
            case = next(g, None)
            if case is None:
                gens.remove(g)
            else:
                yield case


def sampled_cases(tier, rng):
    """above the exhaustive bounds: 5 contigs, longer groups, random chunkings (seeded)"""
    count = 300 if tier == "quick" else 4000
    for i in range(count):
        n = 5
        gcfg = rng.choice(("plain", "ignM", "ign_"))
        uni = universe(gcfg, n)
        k = rng.randint(1, len(uni))
        seq = rng.sample(uni, k)
        if rng.random() < 0.5:  # bias towards valid orders, which are rare among random permutations
            order = {nm: j for j, nm in enumerate(uni)}
            seq = sorted([s for s in seq if s != UNKNOWN], key=lambda s: order[s])
        groups = [[nm, rng.randint(1, 3)] for nm in seq]
        N = sum(kk for _, kk in groups)
        if N > 14:
            continue
        chunks, left = [], N
        while left:
            c = rng.randint(1, min(left, 4))
            chunks.append(c)
            left -= c
        which = rng.choice(("iter_chromosomes", "genome_api", "multistream"))
        if which == "iter_chromosomes":
            yield {"contract": which, "gcfg": gcfg, "n": n, "groups": groups, "chunks": chunks, "input": "stream",
                   "consumer": rng.choice(("exhaust", "zip"))}
        elif which == "genome_api":
            yield {"contract": which, "gcfg": gcfg, "n": n, "groups": groups, "chunks": chunks, "input": "stream",
                   "observer": rng.choice(sorted(OBSERVERS))}
        else:
            groups = [g for g in groups if g[0] in NAMES[:n] + [UNKNOWN]]
            N = sum(kk for _, kk in groups)
            yield {"contract": which, "n": n, "groups": groups, "chunks": [1] * N, "input": "stream", "sizes": "dict",
                   "consumer": rng.choice(("exhaust", "zip"))}


# evaluated first, so that the case recorded for the '_'-contig region is the silent drop and not a mere count mismatch
WITNESSES = [
    {"contract": "iter_chromosomes", "gcfg": "inc_", "n": 2, "groups": [["chr1", 1], [UNDERSCORE, 2]], "chunks": [3],
     "input": "stream", "consumer": "exhaust"},
    {"contract": "genome_api", "gcfg": "inc_", "n": 2, "groups": [["chr1", 1], [UNDERSCORE, 2]], "chunks": [3],
     "input": "stream", "observer": "intervals.compute"},
]


def run(tier="quick", seed=0):
    thorough = tier != "quick"
    col = Collector("C12", tier, seed,
                    "exhaustive: genome of 1..4 contigs x 5 ways to build it (plain / sort_names / with_ignored_added / "
                    "'_' contig ignored by filter / '_' contig kept) x every sequence of distinct contig groups over genome names + "
                    "unknown name + ignored name (all subsets, all orders) x group sizes in {1,2} x chunkings (all compositions of "
                    "N <= %d entries, boundary chunkings above) x consumers {exhaust, zip with size stream} x observers; then seeded "
                    "samples with 5 contigs; extended scope (first): 5 name families (long names with 8/9/25 characters in common, "
                    "names that are prefixes of each other, natural-order names) x genomes of 1..5 contigs x group sequences x "
                    "{one chunk, singletons, 2-splits}, and genomes of 12..40 contigs x singles / ordered pairs / boundary triples / "
                    "rotations; then iter_chromosomes / multistream / left_join / groupby over RAGGED contig columns (user dataclass with a "
                    "`str` field) x 5-6 name alphabets incl. "
                    "names of one character and of that character repeated (1, 11, 111; 1, 2, 11, 12, 22); then one contig spread "
                    "over P = 1..%d (and around larger multiples of 16) chunks of the stream x position of that contig x chunk length 1..3 "
                    "x every entry point. distinct = distinct (contract, genome, group sequence, sizes, chunking, consumer/observer); "
                    "non-trivial = at least one data group" % (6 if thorough else 4, 300 if thorough else 72),
                    budget_s=55 if not thorough else 560)
    col.bounds = {"contigs": "1..4 exhaustive (genome API and similarity: 1..%d), 5 sampled" % (4 if thorough else 3),
                  "genome_configs": list(GCFGS), "group_sequences": "all permutations of all subsets of genome names + 1 unknown + ignored name; "
                  "complete for 1..3 contigs and for the plain 4-contig genome; 4-contig genomes with an ignored name: sequences of "
                  "length <= %s; the '_'-kept genome (known-defective region): %s" %
                  (("4", "complete to 3 contigs, length <= 3 at 4") if thorough else
                   ("3 (filter-ignored: 2)", "complete to 2 contigs, length <= 2 at 3, <= 1 at 4")),
                  "entries_per_group": "1..2 (sampled: 1..3)",
                  "chunkings": "accepted sequences: all compositions for N <= %d entries, else {1 chunk, singletons, every 2-split, "
                  "1|N-2|1}; rejected sequences: {1 chunk, singletons%s}" % (6 if thorough else 4, ", every 2-split" if thorough else ""),
                  "consumers": ["exhaust", "zip(sizes, stream)"], "observers": sorted(OBSERVERS),
                  "inputs": ["NpDataclassStream", "table", "bed/bedgraph file (stream=True)", "table.as_stream()"],
                  "groupby_keys": ["StringArray", "EncodedArray(StringEncoding)"], "samples": 300 if not thorough else 4000,
                  "extended_name_families": {f: FAMILIES[f]["names"] + [FAMILIES[f]["unknown"], FAMILIES[f]["ign"]] for f in SMALL_FAMS},
                  "extended_name_family_contigs": "2..4 (4: two families, sequences of <= 2 groups + accepted ones)" if not thorough
                  else "1..5 (4: sequences of <= 3 groups + accepted ones; 5: <= 2 groups + accepted ones)",
                  "extended_many_contigs": [13] if not thorough else [12, 13, 16, 24, 40],
                  "extended_budget_s": 10 if not thorough else 60,
                  "ragged_key_columns": {"storage": "user bnpdataclass with `chromosome: str` (EncodedRaggedArray) in place of Interval / "
                                         "BedGraph (StringArray); every chunk built from its own entries", "contracts": "iter_chromosomes, multistream, left_join, groupby "
                                         "(Genome API and forbes / jaccard are documented for Interval / BedGraph input: not evaluated)",
                                         "name_alphabets": {str(f): fam_names(f)[:5] + [fam_unknown(f), fam_ign(f)] for f in ragged_fams(thorough)},
                                         "contigs": "2..3 (repeated-character names: ..4, sort_names / with_ignored_added at 3)"
                                         if not thorough else "1..4 (repeated-character names: ..5), sort_names / with_ignored_added at 3",
                                         "many_contigs": [13] if not thorough else [13, 24],
                                         "groupby_keys": "EncodedRaggedArray; repeated-character names also StringArray / StringEncoding",
                                         "budget_s": 11 if not thorough else 70},
                  "many_chunks": {"what": "one contig (first / middle / last of the genome, alone, two back to back) whose entries are spread "
                                  "over P chunks of the stream; 4 contigs of size %d, the other contigs 0..3 entries" % BIG,
                                  "pieces_P": "every P in 1..%s and %s (groupby, multistream, iter_chromosomes, intervals.compute; chunk "
                                  "length 1), every P in 1..%d / P around the multiples of 16 up to %d elsewhere"
                                  % ((300, "127..130, 511..514, 1023..1026", 130, 274) if thorough else (72, "127..130", 40, 66)),
                                  "chunk_lengths": "1; 2 and 3 with every phase of the first chunk (smallest and largest group length per P)",
                                  "apis": "groupby (StringArray / StringEncoding / ragged keys), iter_chromosomes, MultiStream, left_join, "
                                  "Genome.get_intervals(stream).compute() / .get_pileup(), Genome.get_track(stream), the same from bed / "
                                  "bedgraph files read with read_chunks(min_chunk_size = 1..3 lines), jaccard / forbes (a, b or both streamed)",
                                  "rejected_orders": sorted(MC_INVALID), "budget_s": 9 if not thorough else 55}}
    with TmpDir() as tmp:
        stop = False
        for case in WITNESSES:
            EVAL[case["contract"]](col, case, tmp)
        # extended scope first, under its own budget (the original enumeration below keeps the budget it had)
        import time
        t_ext, ext_budget, ext_done = time.time(), (10 if not thorough else 60), True
        for case in extended_cases(tier):
            EVAL[case["contract"]](col, case, tmp)
            if col.evaluations % 32 == 0 and time.time() - t_ext > ext_budget:
                ext_done = False
                col.exhaustive = False
                break
        col.bounds["extended_scope_evaluations"] = col.evaluations - len(WITNESSES)
        col.bounds["extended_scope_complete"] = ext_done
        # ragged key columns, under a budget of their own as well
        n_ext, t_rag, rag_budget, rag_done = col.evaluations, time.time(), (11 if not thorough else 70), True
        for case in ragged_cases(tier):
            EVAL[case["contract"]](col, case, tmp)
            if col.evaluations % 32 == 0 and time.time() - t_rag > rag_budget:
                rag_done = False
                col.exhaustive = False
                break
        col.bounds["ragged_scope_evaluations"] = col.evaluations - n_ext
        col.bounds["ragged_scope_complete"] = rag_done
        col.bounds["ragged_scope_wall_s"] = round(time.time() - t_rag, 1)
        # one contig spread over many chunks, under a budget of its own as well
        n_rag, t_mc, mc_budget, mc_done = col.evaluations, time.time(), (9 if not thorough else 55), True
        for case in cases_many_chunks(thorough):
            EVAL[case["contract"]](col, case, tmp)
            if col.evaluations % 32 == 0 and time.time() - t_mc > mc_budget:
                mc_done = False
                col.exhaustive = False
                break
        col.bounds["many_chunks_scope_evaluations"] = col.evaluations - n_rag
        col.bounds["many_chunks_scope_complete"] = mc_done
        col.bounds["many_chunks_scope_wall_s"] = round(time.time() - t_mc, 1)
        col.budget_s += time.time() - t_ext
        for case in enumerate_cases(tier):
            EVAL[case["contract"]](col, case, tmp)
            if col.evaluations % 64 == 0 and col.out_of_time():
                stop = True
                break
        if not stop:
            for case in sampled_cases(tier, col.rng):
                EVAL[case["contract"]](col, case, tmp)
                if col.evaluations % 64 == 0 and col.out_of_time():
                    break
    return col.result()


def replay(case):
    col = Collector("C12", "quick", 0, "replay")
    with TmpDir() as tmp:
        EVAL[case["contract"]](col, case, tmp)
    if col.failures:
        return False, "; ".join(f["signature"] + ": " + f["message"] for f in col.failures)
    return True, "ok"
