"""C07 bounded stand-in: encoded (ragged) arrays behave like Python lists of strings.

A *program* is a base value (a list of 0..N strings of lengths 0..M -> EncodedRaggedArray, or one string ->
EncodedArray, built with bnp.as_encoded_array in a given encoding) followed by a sequence of <= 3 operations from
the property statement.  Every program is executed from scratch on the real classes and the run-time contract is
evaluated on the result of its LAST step:

    type(result) is the encoded class of the right rank,  result.encoding == operand encoding,
    decode(result) == the same operation applied to the Python list of strings / the Python string.

Intermediate objects are deliberately NOT looked at: decoding an EncodedRaggedArray flattens a lazy view in place, so
observing it would erase the history (non-contiguous views produced by earlier indexing steps) the property is
about.  Every prefix of a program is a program of its own, so every step is still checked.  Only when a program fails
is it re-run with the contract after every step, to attribute the failure to the first failing step (signature
`<kind>.<op>[:<sub-class>]:<failure>`); failures that need an un-observed intermediate get `:unobserved-history`.

The oracle (functions `model_*`, `observe_*`: expected part) is plain Python on `list[str]` / `str`; it never calls
bionumpy.  Views are modelled by value only: after an assignment only the object assigned to is compared (NumPy and
list semantics agree there), except for `copy()`, where independence of the copy is a contract of its own.
Assigned values have the length of the target (or are one character, meaning "every selected position").

Transforms  (R = ragged, F = flat 1-d, M = 2-d matrix obtained by reshape, C = 0-d):
  R: a[i] a[slice] a[mask] a[fancy] a[:,slice] a[rs,cs] a[:,j] a[fancy,j] a[rows,cols] a[i,j] a[i,slice] a[a==c] copy
     ravel np.concatenate as_encoded_array(list of rows) strops.join bnp.ragged_slice; item assignment to a row, an
     item, a column, a column slice, a row slice, a row mask, fancy rows, (rows, cols) pairs, a character mask
  F: f[i] f[slice] f[mask] f[fancy] f[f==c] copy ravel reshape np.concatenate np.append np.insert np.where
     np.zeros_like f[np.argsort(f)] strops.split; assignment to an item, a slice, a mask, fancy indices, a character mask
  M: m[i] m[:,j] m[i,j] m[rs,cs] m[mask] m[fancy] ravel T copy np.concatenate; assignment to a row, a column, a mask
Observations (last step only): tolist / to_string / str / iteration / from_encoded_array / raw codes / len /
  lengths / np.bincount, == and != with a character, a string, a list of strings, an array in the same and in the
  base encoding, strops.str_equal (string and ragged), string_array(...).tolist(), independence of copy().
Two further phases (own case formats, run first):
  independence  - two-object histories: result = array function (np.concatenate of 1..3 operands, np.append, np.insert, np.where,
     np.zeros_like, copy(), a[all-true mask], a[arange]) of flat / ragged / 2-d operands that are fresh or views (reversed, tail);
     then ONE item assignment (item, slice, row, character mask) on the result or on one operand; contract: the object written
     to decodes to the written value, every other object keeps its value (list semantics: the result is a new object).
     Signatures `indep.<F|R|M>.<function>:<n>-operand(s):<operand-changed-by-write-to-result | result-changed-by-write-to-operand |
     wrong-...-after-write-... | exception:<type>>`.
  mixed encodings - ==, !=, strops.str_equal (ragged, ragged), a[:] = b, a[0] = b[0] between operands in DIFFERENT encodings (every
     ordered pair of ACGT, ACTG, ACGTn, ACTGn, ACUG, amino acids, BAM, cigar op, strand, digits, base) for every right-hand text of
     length 0..3 over the first symbols of its alphabet and left-hand texts = the same text / the text with the same CODES / a text
     differing everywhere; flat and ragged (with an empty row, rows of unequal length for str_equal), fresh and reversed views.
     Contract: the result on the TEXT; an EncodingException / EncodingError refusal is accepted except for (alphabet, base) pairs,
     which the library supports.  Signatures `xenc.<F|R>.<op>:<alphabet|base>-vs-<alphabet|base>:<silent-wrong-result | refused |
     exception:<type>>`.
  storage - the same one- and two-step programs (contract, oracle and operation sets unchanged) on base objects whose raw codes are
     STORED in another integer dtype than the uint8 of as_encoded_array: int8, uint8, int16, uint16, int32, int64 (+ uint32, uint64 in
     the thorough tier), built by EncodedArray(np.array(codes, dtype), encoding) [+ EncodedRaggedArray(flat, lengths)], by
     np.concatenate([uint8 object, object of the dtype]) (NumPy promotes the result) and by EncodedArray(np.where(mask, code, code),
     encoding) (default int; texts over two symbols - how bionumpy.alignments builds strand columns).  Every encoding, flat and ragged.
     A failure keeps the signature of the same program on the uint8 object when that fails in the same way; otherwise
     `storage:<constructor|concatenate|where>:<one-byte-int|wide-int>:<step signature as above>`.
Not exercised: column boolean-mask / fancy-list indexing a[:, [..]] (npstructures raises for every input, i.e. not a
  supported operation), broadcasting assignments of a shorter string, list-of-str values in assignments, programs
  longer than 3, rows > 4, row length > 3, lower-case input (C06), StringArray operations other than the conversion.
"""
import itertools

from .common import Collector

# name -> (attribute of bionumpy.encodings / bionumpy, alphabet as defined in bionumpy/encodings/alphabet_encoding.py)
ENCS = {
    "base": ("BaseEncoding", "abcdefghijklmnopqrstuvwxyz"),
    "dna": ("DNAEncoding", "ACGT"),
    "acgtn": ("ACGTnEncoding", "ACGTN"),
    "rna": ("RNAENcoding", "ACUG"),
    "amino": ("AminoAcidEncoding", "ACDEFGHIKLMNPQRSTVWY*"),
    "bam": ("BamEncoding", "=ACMGRSVTWYHKDBN"),
    "cigar": ("CigarOpEncoding", "MIDNSHP=X"),
    "strand": ("StrandEncoding", "+-."),
}


class Ctx:
    def __init__(self, name):
        import bionumpy as bnp
        from bionumpy import encodings
        self.name = name
        attr, alph = ENCS[name]
        self.enc = getattr(encodings, attr)
        self.alph = alph
        self.codes = {chr(i): i for i in range(128)} if name == "base" else {c: i for i, c in enumerate(alph)}
        self.inv = {v: k for k, v in self.codes.items()}
        self.bnp = bnp

    def fill(self, lens, salt=0):
        rows, p = [], salt
        for L in lens:
            rows.append("".join(self.alph[(p + k) % len(self.alph)] for k in range(L)))
            p += L
        return rows

    def rot(self, s, k=1):
        """a different string of the same length (every character replaced by the k-th next of the alphabet)"""
        A = self.alph
        return "".join(A[((A.index(c) if c in A else ord(c)) + k) % len(A)] for c in s)

    def other_rows(self):
        return [self.alph[1] + self.alph[0], "", self.alph[2]]

    def other_str(self):
        return self.alph[2] + self.alph[0]

    def arr(self, v, enc="same"):
        """encoded operand built from a Python value (list[str] or str)"""
        a = self.bnp.as_encoded_array(v, self.enc if enc == "same" else None)
        return a


def S(t):
    return slice(*t)


# ----------------------------------------------------------------------------------------------------------------
# oracle: the operations on Python values
# ----------------------------------------------------------------------------------------------------------------

def _setsl(s, sl, val):
    l = list(s)
    l[sl] = list(val)
    return "".join(l)


def _seti(s, i, c):
    l = list(s)
    l[i] = c
    return "".join(l)


def model_R(ctx, rows, op):
    """-> (kind, value) for a transform"""
    k = op[0]
    if k == "ri":
        return "F", rows[op[1]]
    if k == "rs":
        return "R", rows[S(op[1])]
    if k == "rm":
        return "R", [r for r, m in zip(rows, op[1]) if m]
    if k == "rf":
        return "R", [rows[i] for i in op[1]]
    if k == "cs":
        return "R", [r[S(op[1])] for r in rows]
    if k == "rcs":
        return "R", [r[S(op[2])] for r in rows[S(op[1])]]
    if k == "ci":
        return "F", "".join(r[op[1]] for r in rows)
    if k == "fci":
        return "F", "".join(rows[i][op[2]] for i in op[1])
    if k == "it":
        return "C", rows[op[1]][op[2]]
    if k == "pf":
        return "F", "".join(rows[i][j] for i, j in zip(op[1], op[2]))
    if k == "rebuild":
        return "R", [rows[i] for i in op[1]]
    if k == "rics":
        return "F", rows[op[1]][S(op[2])]
    if k == "cm":
        return "F", "".join(c for r in rows for c in r if c == op[1])
    if k in ("copy", "touch"):
        return "R", list(rows)
    if k == "ravel":
        return "F", "".join(rows)
    if k == "cat":
        v = op[1]
        if v == "self":
            return "R", rows + rows
        if v == "other_back":
            return "R", rows + ctx.other_rows()
        if v == "other_front":
            return "R", ctx.other_rows() + rows
        if v == "rev":
            return "R", rows + rows[::-1]
        if v == "colrev":
            return "R", [r[::-1] for r in rows] + rows
        if v == "three":
            return "R", rows + ctx.other_rows() + rows
    if k == "join":
        return "F", "".join(r + op[1] for r in rows) if op[2] else op[1].join(rows)
    if k == "rsl":
        if op[2] is None:
            return "R", [r[a:] for r, a in zip(rows, op[1])]
        return "R", [r[a:b] for r, a, b in zip(rows, op[1], op[2])]
    # assignments
    rows = list(rows)
    if k == "as_row":
        rows[op[1]] = ctx.rot(rows[op[1]])
        return "R", rows
    if k == "as_item":
        rows[op[1]] = _seti(rows[op[1]], op[2], op[3])
        return "R", rows
    if k == "as_col":
        return "R", [_seti(r, op[1], op[2]) for r in rows]
    if k == "as_fcol":
        for i in op[1]:
            rows[i] = _seti(rows[i], op[2], op[3])
        return "R", rows
    if k == "as_pf":
        for i, j in zip(op[1], op[2]):
            rows[i] = _seti(rows[i], j, op[3])
        return "R", rows
    if k == "as_cs":
        return "R", [_setsl(r, S(op[1]), ctx.rot(r[S(op[1])])) for r in rows]
    if k == "as_rs":
        idx = list(range(len(rows)))[S(op[1])]
        for i in idx:
            rows[i] = ctx.rot(rows[i])
        return "R", rows
    if k == "as_rm":
        return "R", [ctx.rot(r) if m else r for r, m in zip(rows, op[1])]
    if k == "as_rf":
        for i in op[1]:
            rows[i] = ctx.rot(rows[i])
        return "R", rows
    if k == "as_cm":
        return "R", [r.replace(op[1], op[2]) for r in rows]
    raise KeyError(op)


def real_R(ctx, a, rows, op):
    import numpy as np
    bnp = ctx.bnp
    k = op[0]
    if k == "ri":
        return a[op[1]]
    if k == "rs":
        return a[S(op[1])]
    if k == "rm":
        return a[np.array(op[1], dtype=bool)]
    if k == "rf":
        return a[np.array(op[1], dtype=int)] if (len(op) < 3 or not op[1]) else a[list(op[1])]
    if k == "cs":
        return a[:, S(op[1])]
    if k == "rcs":
        return a[S(op[1]), S(op[2])]
    if k == "ci":
        return a[:, op[1]]
    if k == "fci":
        return a[np.array(op[1], dtype=int), op[2]]
    if k == "it":
        return a[op[1], op[2]]
    if k == "pf":
        return a[np.array(op[1], dtype=int), np.array(op[2], dtype=int)]
    if k == "rebuild":
        rows_ = list(a)
        return bnp.as_encoded_array([rows_[i] for i in op[1]], ctx.enc)
    if k == "rics":
        return a[op[1], S(op[2])]
    if k == "cm":
        return a[a == op[1]]
    if k == "copy":
        return a.copy()
    if k == "touch":
        a.ravel()
        return a
    if k == "ravel":
        return a.ravel()
    if k == "cat":
        v = op[1]
        if v == "self":
            return np.concatenate([a, a])
        if v == "other_back":
            return np.concatenate([a, ctx.arr(ctx.other_rows())])
        if v == "other_front":
            return np.concatenate([ctx.arr(ctx.other_rows()), a])
        if v == "rev":
            return np.concatenate([a, a[::-1]])
        if v == "colrev":
            return np.concatenate([a[:, ::-1], a])
        if v == "three":
            return np.concatenate([a, ctx.arr(ctx.other_rows()), a])
    if k == "join":
        from bionumpy.io.strops import join
        return join(a, op[1], keep_last=True) if op[2] else join(a, op[1])
    if k == "rsl":
        if op[2] is None:
            return bnp.ragged_slice(a, np.array(op[1], dtype=int))
        return bnp.ragged_slice(a, np.array(op[1], dtype=int), np.array(op[2], dtype=int))

    def val(v, how):
        if how == "str":
            return v
        if how == "enc":
            return ctx.arr(v)
        if how == "base":
            return ctx.arr(v, "base")
        if how == "enc0d":
            return ctx.arr(v)[0]
        raise KeyError(how)
    if k == "as_row":
        a[op[1]] = val(ctx.rot(rows[op[1]]), op[2])
        return a
    if k == "as_item":
        a[op[1], op[2]] = val(op[3], op[4])
        return a
    if k == "as_col":
        a[:, op[1]] = val(op[2], op[3])
        return a
    if k == "as_fcol":
        a[np.array(op[1], dtype=int), op[2]] = val(op[3], op[4])
        return a
    if k == "as_pf":
        a[np.array(op[1], dtype=int), np.array(op[2], dtype=int)] = val(op[3], op[4])
        return a
    if k == "as_cs":
        a[:, S(op[1])] = ctx.arr([ctx.rot(r[S(op[1])]) for r in rows], op[2])
        return a
    if k == "as_rs":
        a[S(op[1])] = ctx.arr([ctx.rot(r) for r in rows[S(op[1])]], op[2])
        return a
    if k == "as_rm":
        a[np.array(op[1], dtype=bool)] = ctx.arr([ctx.rot(r) for r, m in zip(rows, op[1]) if m], op[2])
        return a
    if k == "as_rf":
        a[np.array(op[1], dtype=int)] = ctx.arr([ctx.rot(rows[i]) for i in op[1]], op[2])
        return a
    if k == "as_cm":
        a[a == op[1]] = op[2]
        return a
    raise KeyError(op)


def model_F(ctx, s, op):
    k = op[0]
    if k == "i":
        return "C", s[op[1]]
    if k == "s":
        return "F", s[S(op[1])]
    if k == "m":
        return "F", "".join(c for c, m in zip(s, op[1]) if m)
    if k == "f":
        return "F", "".join(s[i] for i in op[1])
    if k == "cm":
        return "F", "".join(c for c in s if c == op[1])
    if k in ("copy", "ravel"):
        return "F", s
    if k == "cat":
        v = op[1]
        if v == "self":
            return "F", s + s
        if v == "other_back" or v == "append":
            return "F", s + ctx.other_str()
        if v == "other_front":
            return "F", ctx.other_str() + s
        if v == "rev":
            return "F", s + s[::-1]
        if v == "insert":
            return "F", s[:op[2]] + ctx.other_str() + s[op[2]:]
    if k == "where":
        return "F", "".join(c if m else d for c, d, m in zip(s, ctx.rot(s), op[1]))
    if k == "zeros_like":
        return "F", ctx.alph[0] * len(s)
    if k == "sorted":
        return "F", "".join(sorted(s, key=lambda c: ctx.codes[c]))
    if k == "reshape":
        return "M", [s[i * op[2]:(i + 1) * op[2]] for i in range(op[1])]
    if k == "split":
        seps = op[1] if isinstance(op[1], list) else [op[1]]
        out, cur = [], ""
        for c in s:                      # definition: cut at every separator character; n separators -> n+1 rows
            if c in seps:
                out.append(cur)
                cur = ""
            else:
                cur += c
        out.append(cur)
        return "R", out
    if k == "as_i":
        return "F", _seti(s, op[1], op[2])
    if k == "as_s":
        return "F", _setsl(s, S(op[1]), ctx.rot(s[S(op[1])]))
    if k == "as_sc":
        sl = S(op[1])
        return "F", _setsl(s, sl, op[2] * len(s[sl]))
    if k == "as_m":
        return "F", "".join(op[2] if m else c for c, m in zip(s, op[1]))
    if k == "as_f":
        for i in op[1]:
            s = _seti(s, i, op[2])
        return "F", s
    if k == "as_cm":
        return "F", s.replace(op[1], op[2])
    raise KeyError(op)


def real_F(ctx, f, s, op):
    import numpy as np
    k = op[0]
    if k == "i":
        return f[op[1]]
    if k == "s":
        return f[S(op[1])]
    if k == "m":
        return f[np.array(op[1], dtype=bool)]
    if k == "f":
        return f[np.array(op[1], dtype=int)]
    if k == "cm":
        return f[f == op[1]]
    if k == "copy":
        return f.copy()
    if k == "ravel":
        return f.ravel()
    if k == "cat":
        v = op[1]
        if v == "self":
            return np.concatenate([f, f])
        if v == "other_back":
            return np.concatenate([f, ctx.arr(ctx.other_str())])
        if v == "other_front":
            return np.concatenate([ctx.arr(ctx.other_str()), f])
        if v == "rev":
            return np.concatenate([f, f[::-1]])
        if v == "append":
            return np.append(f, ctx.arr(ctx.other_str()))
        if v == "insert":
            return np.insert(f, op[2], ctx.arr(ctx.other_str()))
    if k == "where":
        return np.where(np.array(op[1], dtype=bool), f, ctx.arr(ctx.rot(s)))
    if k == "zeros_like":
        return np.zeros_like(f)
    if k == "sorted":
        return f[np.argsort(f, kind="stable")]
    if k == "reshape":
        return f.reshape(op[1], op[2])
    if k == "split":
        from bionumpy.io.strops import split
        return split(f, op[1])
    if k == "as_i":
        f[op[1]] = op[2] if op[3] == "str" else ctx.arr(op[2])[0]
        return f
    if k == "as_s":
        v = ctx.rot(s[S(op[1])])
        f[S(op[1])] = v if op[2] == "str" else ctx.arr(v, op[2])
        return f
    if k == "as_sc":
        f[S(op[1])] = op[2]
        return f
    if k == "as_m":
        f[np.array(op[1], dtype=bool)] = op[2]
        return f
    if k == "as_f":
        f[np.array(op[1], dtype=int)] = op[2]
        return f
    if k == "as_cm":
        f[f == op[1]] = op[2]
        return f
    raise KeyError(op)


def model_M(ctx, rows, op):
    """2-d EncodedArray = list of equally long strings"""
    k = op[0]
    if k == "mi":
        return "F", rows[op[1]]
    if k == "mc":
        return "F", "".join(r[op[1]] for r in rows)
    if k == "mit":
        return "C", rows[op[1]][op[2]]
    if k == "ms":
        return "M", [r[S(op[2])] for r in rows[S(op[1])]]
    if k == "mm":
        return "M", [r for r, m in zip(rows, op[1]) if m]
    if k == "mf":
        return "M", [rows[i] for i in op[1]]
    if k == "mravel":
        return "F", "".join(rows)
    if k == "mT":
        return "M", ["".join(r[j] for r in rows) for j in range(len(rows[0]))]
    if k == "copy":
        return "M", list(rows)
    if k == "mcat":
        return "M", rows + rows
    rows = list(rows)
    if k == "as_mi":
        rows[op[1]] = ctx.rot(rows[op[1]])
        return "M", rows
    if k == "as_mc":
        return "M", [_seti(r, op[1], op[2]) for r in rows]
    if k == "as_cm":
        return "M", [r.replace(op[1], op[2]) for r in rows]
    raise KeyError(op)


def real_M(ctx, m, rows, op):
    import numpy as np
    k = op[0]
    if k == "mi":
        return m[op[1]]
    if k == "mc":
        return m[:, op[1]]
    if k == "mit":
        return m[op[1], op[2]]
    if k == "ms":
        return m[S(op[1]), S(op[2])]
    if k == "mm":
        return m[np.array(op[1], dtype=bool)]
    if k == "mf":
        return m[np.array(op[1], dtype=int)]
    if k == "mravel":
        return m.ravel()
    if k == "mT":
        return m.T
    if k == "copy":
        return m.copy()
    if k == "mcat":
        return np.concatenate([m, m])
    if k == "as_mi":
        v = ctx.rot(rows[op[1]])
        m[op[1]] = v if op[2] == "str" else ctx.arr(v, op[2])
        return m
    if k == "as_mc":
        m[:, op[1]] = op[2] if op[3] == "str" else ctx.arr(op[2])[0]
        return m
    if k == "as_cm":
        m[m == op[1]] = op[2]
        return m
    raise KeyError(op)


def observe_M(ctx, m, rows, op):
    k = op[0]
    if k == "iter":
        return rows, [r.to_string() for r in m]
    if k == "raw":
        return [[ctx.codes[c] for c in r] for r in rows], m.raw().tolist()
    if k == "len":
        return len(rows), len(m)
    if k in ("eq", "ne"):
        exp = [[(c == op[1]) == (k == "eq") for c in r] for r in rows]
        got = (m == op[1]) if k == "eq" else (m != op[1])
        return exp, got.tolist()
    if k == "eq_self":
        o = ctx.arr("".join(mutate_rows(ctx, rows, "last")), op[1]).reshape(len(rows), -1)
        return [[c == d for c, d in zip(r, q)] for r, q in zip(rows, mutate_rows(ctx, rows, "last"))], (m == o).tolist()
    if k == "copy_indep":
        c = m.copy()
        ch = rows[0][0]
        c[c == ch] = ctx.rot(ch)
        return (rows, [r.replace(ch, ctx.rot(ch)) for r in rows]), ([r.to_string() for r in m], [r.to_string() for r in c])
    raise KeyError(op)


def gen_M(ctx, rows, level, writable=True, want_obs=True):
    r, c = len(rows), (len(rows[0]) if rows else 0)
    A = ctx.alph
    core = level == "core"
    T, O = [], []
    flat = "".join(rows)
    if r and c:
        T += [["mi", i] for i in ([0] if core else range(-r, r))]
        T += [["mc", j] for j in ([-1] if core else range(-c, c))]
        T += [["mT"]]
        if not core:
            T += [["mit", i, j] for i in range(-r, r) for j in range(-c, c)]
    T += [["ms", [None, None, -1], [None, None, -1]], ["ms", [1, None, None], [None, -1, None]], ["mravel"], ["copy"]]
    if not core:
        T += [["ms", a, b] for a in ([None, None, None], [None, None, 2], [-1, None, None], [r, None, None])
              for b in ([None, None, None], [1, None, None], [None, None, -2], [None, 1, None], [c, None, None])]
        T += [["mm", [i % 2 == 0 for i in range(r)]], ["mm", [False] * r], ["mf", []], ["mcat"]] + ([["mf", [r - 1, 0, 0]], ["mf", [-1]]] if r else [])
    if writable and r and c:
        T += [["as_mi", 0, "str"], ["as_cm", flat[0], ctx.rot(flat[0], 2)]]
        if not core:
            T += [["as_mi", i, h] for i in range(-r, r) for h in ("str", "same", "base")]
            T += [["as_mc", j, A[1], h] for j in range(-c, c) for h in ("str", "enc0d")]
    if not want_obs:
        return T, O
    O += [["iter"], ["raw"], ["len"]]
    if flat:
        absent = next((x for x in A if x not in flat), None)
        O += [[k, x] for k in ("eq", "ne") for x in sorted(set(flat[:1] + flat[-1:])) + ([absent] if absent else [])]
        O += [["eq_self", "same"]] + ([["eq_self", "base"]] if ctx.name != "base" else [])
        O += [["copy_indep"]]
    return T, O


# observations -> (expected, got) both plain Python -----------------------------------------------------------------

def mutate_rows(ctx, rows, variant):
    """a list of strings of the same shape differing in some positions"""
    if variant == "same":
        return list(rows)
    if variant == "first":   # first character of every row differs
        return [ctx.rot(r[:1]) + r[1:] for r in rows]
    if variant == "last":
        return [r[:-1] + ctx.rot(r[-1:]) for r in rows]
    if variant == "rowlast":  # only the last row differs (entirely)
        return [ctx.rot(r) if i == len(rows) - 1 else r for i, r in enumerate(rows)]
    if variant == "all":
        return [ctx.rot(r) for r in rows]
    raise KeyError(variant)


def observe_R(ctx, a, rows, op):
    import numpy as np
    from bionumpy.encoded_array import from_encoded_array
    k = op[0]
    if k == "tolist":
        return rows, a.tolist()
    if k == "iter":
        return rows, [r.to_string() for r in a]
    if k == "fea":
        return rows, from_encoded_array(a)
    if k == "raw":
        return [[ctx.codes[c] for c in r] for r in rows], a.raw().tolist()
    if k == "len":
        return len(rows), len(a)
    if k == "lengths":
        return [len(r) for r in rows], [int(x) for x in a.lengths]
    if k in ("eq", "ne"):
        exp = [[(c == op[1]) == (k == "eq") for c in r] for r in rows]
        got = (a == op[1]) if k == "eq" else (a != op[1])
        return exp, got.tolist()
    if k in ("eq_rows", "ne_rows"):
        other = mutate_rows(ctx, rows, op[1])
        exp = [[(c == d) == (k == "eq_rows") for c, d in zip(r, o)] for r, o in zip(rows, other)]
        o = other if op[2] == "list" else ctx.arr(other, op[2])
        got = (a == o) if k == "eq_rows" else (a != o)
        return exp, got.tolist()
    if k == "eq_colrev":
        exp = [[c == d for c, d in zip(r, r[::-1])] for r in rows]
        return exp, (a == a[:, ::-1]).tolist()
    if k == "streq":
        from bionumpy.io.strops import str_equal
        return [r == op[1] for r in rows], [bool(x) for x in str_equal(a, op[1])]
    if k == "streq_rr":
        from bionumpy.io.strops import str_equal
        if op[1] == "trunc":      # rows cut to <= 1 character: different lengths and equal lengths mixed
            other = [r[:1] for r in rows]
        elif op[1] == "rev":
            other = rows[::-1]
        else:
            other = mutate_rows(ctx, rows, op[1])
        o = ctx.arr(other)
        if op[1] == "rev":
            o = a[::-1]
        return [r == q for r, q in zip(rows, other)], [bool(x) for x in str_equal(a, o)]
    if k == "sa":
        from bionumpy.string_array import string_array
        return rows, string_array(a).tolist()
    if k == "copy_indep":
        c = a.copy()
        ch = "".join(rows)[0]
        c[c == ch] = ctx.rot(ch)
        return (rows, [r.replace(ch, ctx.rot(ch)) for r in rows]), (a.tolist(), c.tolist())
    raise KeyError(op)


def observe_F(ctx, f, s, op):
    from bionumpy.encoded_array import from_encoded_array
    k = op[0]
    if k == "to_string":
        return s, f.to_string()
    if k == "tolist":
        return s, f.tolist()
    if k == "str":
        return s, str(f)
    if k == "iter":
        return list(s), [c.to_string() for c in f]
    if k == "fea":
        return s, from_encoded_array(f)
    if k == "raw":
        return [ctx.codes[c] for c in s], f.raw().tolist()
    if k == "len":
        return len(s), len(f)
    if k in ("eq", "ne"):
        exp = [(c == op[1]) == (k == "eq") for c in s]
        got = (f == op[1]) if k == "eq" else (f != op[1])
        return exp, got.tolist()
    if k in ("eq_str", "ne_str"):
        other = mutate_rows(ctx, [s], op[1])[0]
        exp = [(c == d) == (k == "eq_str") for c, d in zip(s, other)]
        o = other if op[2] == "str" else ctx.arr(other, op[2])
        got = (f == o) if k == "eq_str" else (f != o)
        return exp, got.tolist()
    if k == "streq":
        from bionumpy.io.strops import str_equal
        return s == op[1], bool(str_equal(f, op[1]))
    if k == "bincount":
        import numpy as np
        cs = [ctx.codes[c] for c in s]
        return [cs.count(v) for v in range(max(cs) + 1)] if cs else [], np.bincount(f).tolist()
    if k == "hash":
        return True, hash(f) == hash(s)
    if k == "copy_indep":
        c = f.copy()
        c[c == s[0]] = ctx.rot(s[0])
        return (s, s.replace(s[0], ctx.rot(s[0]))), (f.to_string(), c.to_string())
    raise KeyError(op)


def observe_C(ctx, c, s, op):
    k = op[0]
    if k == "to_string":
        return s, c.to_string()
    if k == "eq":
        return s == op[1], bool(c == op[1])
    if k == "copy":
        return s, c.copy().to_string()
    if k == "raw":
        return ctx.codes[s], int(c.raw())
    raise KeyError(op)


OBS = {"R": observe_R, "F": observe_F, "C": observe_C, "M": observe_M}
OBS_NAMES = {"tolist", "iter", "fea", "raw", "len", "lengths", "eq", "ne", "eq_rows", "ne_rows", "eq_colrev", "streq",
             "streq_rr", "sa", "copy_indep", "to_string", "str", "eq_str", "ne_str", "bincount", "hash", "eq_self"}


def is_obs(kind, op):
    if kind == "C":
        return True
    return op[0] in OBS_NAMES and not (op[0] == "copy")


# ----------------------------------------------------------------------------------------------------------------
# operation generators (from the model state; they produce only operations whose preconditions hold)
# ----------------------------------------------------------------------------------------------------------------

def slices(n, level, col=False):
    """slice triples for an axis of length n.
    full: every start/stop in -n-1..n+1 or None x step in None,2,-1,-2;  mid: start/stop in {None,-n-1,-1,0,1,n+1} x step in
    None,-1 plus three step-2 forms;  core: five forms."""
    if level == "full":
        vals = [None] + list(range(-n - 1, n + 2))
        out = [[a, b, c] for a in vals for b in vals for c in [None, 2, -1, -2]]
    elif level == "mid":
        vals = [None, -n - 1, -1, 0, 1, n + 1]
        out = [[a, b, c] for a in vals for b in vals for c in [None, -1]]
        out += [[None, None, 2], [1, None, 2], [None, None, -2]]
    else:
        return [[None, None, -1], [1, None, None], [None, -1, None], [None, None, 2], [n, None, None]]
    return out


def negstart_on_empty(sl, rows):
    """a[:, start:stop:step] with step < 0, an explicit start >= 0, stop None or negative, on an operand that has an empty row:
    this whole region fails on the unchanged tree (the empty row yields a neighbouring character, or IndexError)"""
    return (sl[2] is not None and sl[2] < 0 and sl[0] is not None and sl[0] >= 0 and (sl[1] is None or sl[1] < 0)
            and any(len(r) == 0 for r in rows))


def gen_R(ctx, rows, level, writable=True, want_obs=True):
    """-> (transforms, observations)"""
    n = len(rows)
    lens = [len(r) for r in rows]
    M = max(lens) if lens else 0
    mn = min(lens) if lens else 0
    A = ctx.alph
    flat = "".join(rows)
    present = flat[0] if flat else A[0]
    absent = next((c for c in A if c not in flat), None)
    T, O = [], []
    core = level == "core"
    # rows
    if core:
        T += [["ri", i] for i in sorted({0, n - 1} if n else set())] + ([["ri", -1]] if n else [])
    else:
        T += [["ri", i] for i in range(-n, n)]
    T += [["rs", s] for s in slices(n, level)]
    if core:
        T += [["rm", [i % 2 == 0 for i in range(n)]], ["rm", [False] * n]]
        T += [["rf", []]] + ([["rf", [n - 1, 0, 0]], ["rf", [-1]]] if n else [])
    else:
        T += [["rm", list(m)] for m in itertools.product([False, True], repeat=n)]
        T += [["rf", list(ix)] for k in range(0, 3 if level == "full" else 2) for ix in itertools.product(range(-n, n), repeat=k)]
        if n:
            T += [["rf", list(range(n - 1, -1, -1))], ["rf", [0] * 3], ["rf", [n - 1, 0], "list"]]
    # columns
    T += [["cs", s] for s in slices(M, level) if level == "full" or not negstart_on_empty(s, rows)]
    if core:
        T += [["rcs", [1, None, None], [1, None, None]], ["rcs", [None, None, -1], [None, None, -1]]]
    else:
        pairs = [([1, None, None], [1, None, None]), ([None, None, -1], [None, None, -1]), ([None, -1, None], [None, -1, None]),
                 ([None, None, 2], [None, None, 2]), ([None, None, -1], [1, None, None]), ([1, None, None], [None, None, -1]),
                 ([-2, None, None], [-2, None, None]), ([None, 1, None], [None, 1, None]), ([n, None, None], [1, None, None])]
        T += [["rcs", a, b] for a, b in pairs]
    if n and mn >= 1:
        T += [["ci", j] for j in (range(-mn, mn) if not core else sorted({0, -1}))]
    if n:
        ne = [i for i in range(n) if lens[i] >= 1]
        if ne and len(ne) < n:
            T += [["fci", ne, 0], ["fci", ne, -1]]
            if not core:
                T += [["fci", ne[::-1], 0], ["fci", [i - n for i in ne], -1]]
        if not core:
            T += [["it", i, j] for i in range(-n, n) for j in range(-lens[i], lens[i])]
            T += [["rics", i, s] for i in sorted({0, n - 1, -1}) for s in slices(lens[i], "core")]
        elif flat:
            i = next(i for i in range(n) if lens[i])
            T += [["it", i, 0], ["rics", i, [1, None, None]]]
    ne = [i for i in range(n) if lens[i] >= 1]
    if ne:
        T += [["pf", ne, [lens[i] - 1 for i in ne]]]
        if not core:
            T += [["pf", ne[::-1], [-lens[i] for i in ne[::-1]]], ["pf", [ne[0]] * 2, [0, -1]], ["pf", [i - n for i in ne], [lens[i] // 2 for i in ne]]]
    if n:
        T += [["rebuild", list(range(n - 1, -1, -1))]]
        if not core:
            T += [["rebuild", list(range(n))], ["rebuild", [0, 0]], ["rebuild", [-1]]]
    T += [["cm", present]] + ([["cm", absent]] if absent and not core else [])
    T += [["copy"], ["ravel"], ["touch"]]
    T += [["cat", "self"], ["cat", "other_front"]]
    if not core:
        T += [["cat", "other_back"], ["cat", "rev"], ["cat", "colrev"], ["cat", "three"]]
    sep = "," if ctx.name == "base" else A[-1]
    T += [["join", sep, False]]
    if not core:
        T += [["join", sep, True]]
    if n and want_obs:          # bnp.ragged_slice only as the last step (it fails for every n >= 2 on the unchanged tree)
        T += [["rsl", [min(1, L) for L in lens], [L for L in lens]]]
        if not core:
            T += [["rsl", [0] * n, lens], ["rsl", [0] * n, [max(L - 1, 0) for L in lens]], ["rsl", [L // 2 for L in lens], None],
                  ["rsl", [0] * n, [-1 if L else 0 for L in lens]]]
    # assignments
    if writable and n:
        i0 = next((i for i in range(n) if lens[i]), 0)
        T += [["as_row", i0, "str"]]
        if not core:
            T += [["as_row", i, h] for i in range(-n, n) for h in ("str", "enc", "base")]
        if flat:
            c2 = ctx.rot(rows[i0][0], 2)
            T += [["as_item", i0, 0, c2, "enc0d"]]
            if not core:
                T += [["as_item", i0, -1, c2, "str"]]
                T += [["as_item", i, j, c2, "enc0d"] for i in range(-n, n) for j in range(-lens[i], lens[i])]
        if mn >= 1:
            T += [["as_col", -1, A[1], "str"]]
            if not core:
                T += [["as_col", j, A[1], h] for j in range(-mn, mn) for h in ("str", "enc")]
        else:
            ne = [i for i in range(n) if lens[i] >= 1]
            if ne:
                T += [["as_fcol", ne, -1, A[1], "str"]]
                if not core:
                    T += [["as_fcol", ne, 0, A[1], "enc"]]
        if ne and not core:
            T += [["as_pf", ne, [lens[i] - 1 for i in ne], A[1], "str"], ["as_pf", ne[::-1], [-lens[i] for i in ne[::-1]], A[1], "enc"]]
        T += [["as_cs", [None, -1, None], "same"]]
        if not core:
            T += [["as_cs", s, "same"] for s in ([1, None, None], [None, None, None], [None, 1, None], [-1, None, None], [None, None, -1],
                                                 [None, None, 2], [1, -1, None])]
            T += [["as_cs", [None, -1, None], "base"]]
        T += [["as_rs", [1, None, None], "same"]]
        if not core:
            T += [["as_rs", s, "same"] for s in ([None, None, None], [None, -1, None], [None, None, -1], [None, None, 2], [n, None, None])]
            T += [["as_rm", [i % 2 == 0 for i in range(n)], "same"], ["as_rm", [False] * n, "same"], ["as_rm", [True] * n, "base"]]
            T += [["as_rf", [n - 1, 0] if n > 1 else [0], "same"], ["as_rf", [-1], "same"]]
        if flat:
            T += [["as_cm", present, ctx.rot(present, 2)]]
            if absent and not core:
                T += [["as_cm", absent, present]]
    if not want_obs:
        return T, O
    # observations
    O += [["tolist"], ["iter"], ["fea"], ["raw"], ["len"], ["lengths"], ["eq_colrev"]]
    chars = sorted(set(flat[:1] + flat[-1:])) + ([absent] if absent else [])
    O += [[k, c] for k in ("eq", "ne") for c in chars]
    for v in ("same", "first", "last", "rowlast", "all"):
        for form in ("list", "same") + (("base",) if ctx.name != "base" else ()):
            if n == 0 and form == "list":
                continue
            O += [["eq_rows", v, form]]
    O += [["ne_rows", "last", "same"]]
    O += [["streq", s] for s in sorted(set(rows + ["", present, ctx.rot(rows[-1]) if rows else present]))]
    O += [["streq_rr", v] for v in ("same", "last", "rowlast", "trunc", "rev")]
    O += [["sa"]]
    if flat:
        O += [["copy_indep"]]
    return T, O


def gen_F(ctx, s, level, writable=True, want_obs=True):
    L = len(s)
    A = ctx.alph
    present = s[0] if s else A[0]
    absent = next((c for c in A if c not in s), None)
    core = level == "core"
    T, O = [], []
    if core:
        T += [["i", i] for i in ([0] if L else [])]
    else:
        T += [["i", i] for i in range(-L, L)]
    T += [["s", x] for x in slices(L, level)]
    if core:
        T += [["m", [i % 2 == 0 for i in range(L)]], ["f", [L - 1, 0] if L else []]]
    else:
        T += [["m", list(m)] for m in itertools.product([False, True], repeat=L)] if L <= 4 else [["m", [i % 2 == 0 for i in range(L)]]]
        T += [["f", list(ix)] for k in range(0, 3 if L <= 3 else 2) for ix in itertools.product(range(-L, L), repeat=k)]
    T += [["cm", present], ["copy"], ["ravel"], ["cat", "self"]]
    if not core:
        T += [["cat", "other_back"], ["cat", "other_front"], ["cat", "rev"], ["cat", "append"]]
        T += [["cat", "insert", p] for p in range(0, L + 1)]
        if absent:
            T += [["cm", absent]]
    sep = "," if ctx.name == "base" else A[-1]
    T += [["split", present]]
    if L:
        fact = [(r, L // r) for r in range(1, L + 1) if L % r == 0]
        T += [["reshape", r, c] for r, c in (fact if not core else fact[len(fact) // 2:len(fact) // 2 + 1])]
        T += [["where", [i % 2 == 0 for i in range(L)]]]
    if not core:
        T += [["sorted"]] + ([["zeros_like"]] if ctx.name != "base" else [])
        if L:
            T += [["where", [False] * L], ["where", [i % 3 == 1 for i in range(L)]]]
    if not core:
        T += [["split", c] for c in sorted(set(s[-1:] + s[1:2] + (absent or present) + sep) - {present})]
        T += [["split", sorted(set(s[:1] + s[-1:])) + [sep]]]
    if writable and L:
        T += [["as_i", 0, ctx.rot(s[0], 2), "enc0d"], ["as_s", [1, None, None], "str"], ["as_cm", present, ctx.rot(present, 2)]]
        if not core:
            T += [["as_i", L - 1, ctx.rot(s[-1], 2), "str"]]
            T += [["as_i", i, ctx.rot(s[i], 2), "enc0d"] for i in range(-L, L)]
            T += [["as_s", x, h] for x in slices(L, "core") + [[None, None, None], [None, None, -2], [1, -1, None]] for h in ("str", "same", "base")]
            T += [["as_sc", [1, None, None], A[1]], ["as_sc", [None, None, None], A[1]], ["as_sc", [None, None, -2], A[1]]]
            T += [["as_m", [i % 2 == 0 for i in range(L)], A[1]], ["as_m", [False] * L, A[1]], ["as_m", [True] * L, A[1]]]
            T += [["as_f", [L - 1, 0], A[1]], ["as_f", [-1], A[1]], ["as_f", [], A[1]]]
    if not want_obs:
        return T, O
    O += [["to_string"], ["tolist"], ["str"], ["iter"], ["fea"], ["raw"], ["len"]]
    chars = sorted(set(s[:1] + s[-1:])) + ([absent] if absent else [])
    O += [[k, c] for k in ("eq", "ne") for c in chars]
    if L:
        for v in ("same", "first", "last", "all"):
            for form in ("str", "same") + (("base",) if ctx.name != "base" else ()):
                O += [["eq_str", v, form]]
        O += [["ne_str", "last", "same"]]
        O += [["copy_indep"]]
    O += [["streq", x] for x in sorted({s, s[:-1], ctx.rot(s), s + present})]
    O += [["bincount"]]
    return T, O


def gen_C(ctx, s):
    return [], [["to_string"], ["eq", s], ["eq", ctx.rot(s)], ["copy"], ["raw"]]


WRITE_OPS = ("as_",)
GATHER = {"rm", "rf", "cm", "copy", "cat", "join", "rsl", "m", "f", "fci", "split", "pf", "rebuild", "where", "zeros_like", "sorted", "mm",
          "mf", "mcat"}


# ----------------------------------------------------------------------------------------------------------------
# running one program
# ----------------------------------------------------------------------------------------------------------------

# regions of the scope that fail as a whole on the unchanged tree get ONE signature (README: "Failures on the unchanged tree")
COLLAPSE = {"R.cs:negstep-nonneg-start-on-empty-row", "R.rcs:negstep-nonneg-start-on-empty-row",
            "R.column-int-index:after-stepped-colslice", "R.sa:raw-codes-wider-than-one-byte"}


def classify(kind, op, value, prev=None):
    """specific sub-class of an operation (keeps distinct defects apart in the signature)"""
    k = op[0]
    name = "%s.%s" % (kind, k)
    if k == "cs" and negstart_on_empty(op[1], value):
        name += ":negstep-nonneg-start-on-empty-row"
    if k == "rcs" and negstart_on_empty(op[2], value[S(op[1])]):
        name += ":negstep-nonneg-start-on-empty-row"
    if k in ("as_row", "as_item", "as_col", "as_fcol", "as_pf", "as_mi", "as_mc", "as_i", "as_s", "as_cs", "as_rs", "as_rm", "as_rf"):
        name += ":" + str(op[-1])
    if k == "cat":
        name += ":" + op[1]
    if k in ("eq_rows", "ne_rows", "eq_str", "ne_str"):
        name += ":" + op[2]
    if k == "eq_self":
        name += ":" + op[1]
    if k in ("pf", "fci", "ci", "it", "as_pf", "as_fcol", "as_col", "as_item") and not (k == "as_item" and op[-1] == "str") and any(h[0] in ("cs", "rcs") and h[-1][2] not in (None, 1) for h in (prev or [])):
        # an integer column index (a[:, j], a[i, j], a[rows, j], a[rows, cols]) on a lazy view that descends from
        # a[:, ::step], step != 1, ignores the step: fails as a region on the unchanged tree
        return "R.column-int-index:after-stepped-colslice"
    if k == "sa" and value and not any(value):
        name += ":all-rows-empty"
    return name


def signature(step, failtype):
    if step in COLLAPSE:
        return step + ":wrong-result-or-exception"
    return "%s:%s" % (step, failtype)


STORE_DTYPES_QUICK = ["int8", "uint8", "int16", "uint16", "int32", "int64"]
STORE_DTYPES_THOROUGH = STORE_DTYPES_QUICK + ["uint32", "uint64"]


def store_dtype(store):
    """the integer dtype the raw codes of the base object end up in"""
    import numpy as np
    if store["how"] == "where":
        return np.dtype(int)
    if store["how"] == "concatenate":
        return np.result_type(np.uint8, np.dtype(store["dtype"]))
    return np.dtype(store["dtype"])


def store_prefix(store):
    if store is None:
        return ""
    return "storage:%s:%s:" % (store["how"], "one-byte-int" if store_dtype(store).itemsize == 1 else "wide-int")


def store_refs(store):
    """the simpler ways to build the same base value, used only to ATTRIBUTE a failure (never as an oracle): the constructor with the
    standard uint8 object of as_encoded_array, then the constructor with the dtype the codes end up in"""
    refs = [None]
    if store["how"] != "constructor":
        refs.append({"how": "constructor", "dtype": store_dtype(store).name})
    return refs


def build_stored(ctx, kind, base, store):
    """the base value as an encoded object whose raw codes are STORED in a given integer dtype (legal: the constructors accept
    any integer array; the library itself builds such objects, e.g. the strand column of bionumpy.alignments).
      constructor  - EncodedArray(np.array(codes, dtype), encoding) [, EncodedRaggedArray(that, row lengths)]
      concatenate  - np.concatenate([as_encoded_array(first half) (uint8), constructor(second half, dtype)]): NumPy promotion
      where        - EncodedArray(np.where(mask, code_a, code_b), encoding): default-int codes (texts over <= 2 symbols)"""
    import numpy as np
    from bionumpy.encoded_array import EncodedArray, EncodedRaggedArray
    how = store["how"]

    def flat_of(text, dt):
        return EncodedArray(np.array([ctx.codes[c] for c in text], dtype=dt), ctx.enc)

    def obj_of(v, dt):
        if kind == "F":
            return flat_of(v, dt)
        return EncodedRaggedArray(flat_of("".join(v), dt), np.array([len(r) for r in v], dtype=int))
    if how == "constructor":
        return obj_of(base, np.dtype(store["dtype"]))
    if how == "concatenate":
        h = len(base) // 2
        return np.concatenate([ctx.arr(base[:h]), obj_of(base[h:], np.dtype(store["dtype"]))])
    if how == "where":
        text = base if kind == "F" else "".join(base)
        syms = sorted(set(text)) or [ctx.alph[0]]
        assert len(syms) <= 2, "generator: 'where' storage needs a text over <= 2 symbols"
        a, b = syms[0], syms[-1]
        flat = EncodedArray(np.where(np.array([c == a for c in text], dtype=bool), ctx.codes[a], ctx.codes[b]), ctx.enc)
        if kind == "F":
            return flat
        return EncodedRaggedArray(flat, np.array([len(r) for r in base], dtype=int))
    raise KeyError(how)


def build_base(ctx, kind, base, copy, store=None):
    a = ctx.arr(base) if store is None else build_stored(ctx, kind, base, store)
    if copy:
        a = a.copy()
    return a


def check_value(ctx, kind, obj, value):
    """-> None or (failtype, message)"""
    from bionumpy.encoded_array import EncodedArray, EncodedRaggedArray
    if kind == "R":
        if not isinstance(obj, EncodedRaggedArray):
            return "wrong-type", "expected EncodedRaggedArray, got %s" % type(obj).__name__
        got = obj.tolist()
    elif kind == "M":
        if not isinstance(obj, EncodedArray) or isinstance(obj, EncodedRaggedArray):
            return "wrong-type", "expected EncodedArray, got %s" % type(obj).__name__
        if obj.ndim != 2:
            return "wrong-rank", "expected ndim 2, got shape %r" % (obj.shape,)
        got = [r.to_string() for r in obj]
    else:
        if not isinstance(obj, EncodedArray) or isinstance(obj, EncodedRaggedArray):
            return "wrong-type", "expected EncodedArray, got %s" % type(obj).__name__
        if obj.ndim != (1 if kind == "F" else 0):
            return "wrong-rank", "expected ndim %d, got shape %r decoding to %r" % (1 if kind == "F" else 0, obj.shape, obj.to_string())
        got = obj.to_string()
    if got != value:
        return "wrong-result", "got %r expected %r" % (got, value)
    try:
        same = bool(obj.encoding == ctx.enc)
    except Exception:
        same = False
    if not same:
        return "wrong-encoding", "result encoding %r, operand encoding %r" % (obj.encoding, ctx.enc)
    return None


MODEL = {"R": model_R, "F": model_F, "M": model_M}
REAL = {"R": real_R, "F": real_F, "M": real_M}


def execute(ctx, kind, base, copy, prog, check_at, store=None):
    """run one program from scratch on the real classes; the contract is evaluated after the steps whose number is in
    `check_at` (0 = construction).  Steps that are not checked are not looked at at all: decoding an EncodedRaggedArray
    flattens a lazy view in place, so observing an intermediate object would erase the history the property is about.
    -> (None | (step-class, failtype, message), class of the last step executed)"""
    value = base
    step = "%s.construct" % kind
    si = -1
    prev = []
    try:
        obj = build_base(ctx, kind, base, copy, store)
        if 0 in check_at:
            bad = check_value(ctx, kind, obj, value)
            if bad:
                return (step, bad[0], "step 0 (%s): " % ("as_encoded_array" if store is None else "storage %r" % (store,)) + bad[1]), step
        for si, op in enumerate(prog):
            step = classify(kind, op, value, prev)
            if op[0] == "eq_self" and kind == "M" and ctx.name == "strand":
                # StrandEncoding is a FlatAlphabetEncoding: its _encode ravels by design, so a 2-D operand of another encoding loses its shape
                step += ":flat-alphabet-encoding"
            if store is not None and step == "R.sa" and obj.raw().dtype.itemsize > 1:
                # string_array(ragged) of raw codes wider than one byte (as stored, or promoted by an earlier np.concatenate with
                # such an object): fails as a region on the unchanged tree
                step += ":raw-codes-wider-than-one-byte"
            if is_obs(kind, op):
                exp, got = OBS[kind](ctx, obj, value, op)
                if exp != got:
                    return (step, "wrong-result", "step %d %r on %r: got %r expected %r" % (si + 1, op, value, got, exp)), step
                continue
            nkind, nvalue = MODEL[kind](ctx, value, op)
            nobj = REAL[kind](ctx, obj, value, op)
            if (si + 1) in check_at:
                bad = check_value(ctx, nkind, nobj, nvalue)
                if bad:
                    return (step, bad[0], "step %d %r on %r: %s" % (si + 1, op, value, bad[1])), step
            kind, value, obj, prev = nkind, nvalue, nobj, prev + [op]
    except Exception as e:
        import traceback
        return (step, "exception:" + type(e).__name__, "step %d of %r\n%s" % (si + 1, prog, traceback.format_exc()[-450:])), step
    return None, step


def diagnose(ctx, kind, base, copy, prog, store=None):
    """-> (class of the last step executed, None | (signature, message)).  The program is first run checking only its last step
    (intermediate objects untouched).  On a failure it is re-run with the contract evaluated after every step and the failure is
    attributed to the first failing step; a failure that does not show then (it needs an un-observed intermediate object) is
    attributed to the first step j at which it shows when only step j is checked, with the suffix ':unobserved-history'."""
    n = len(prog)
    bad, last = execute(ctx, kind, base, copy, prog, {n}, store)
    if bad is None:
        return last, None
    bad2, _ = execute(ctx, kind, base, copy, prog, set(range(n + 1)), store)
    if bad2 is not None:
        return last, (signature(bad2[0], bad2[1]), bad2[2])
    for j in range(1, n + 1):
        bad3, _ = execute(ctx, kind, base, copy, prog[:j], {j}, store)
        if bad3 is not None:
            bad = bad3
            break
    return last, (signature(bad[0], bad[1]) + ":unobserved-history", bad[2] + "  (holds when every intermediate object is decoded first)")


def _storage_sig(store, sig):
    if store is None:
        return sig
    if ":raw-codes-wider-than-one-byte:" in sig:
        return "storage:" + sig      # a region named by the width of the codes at the failing step: however the base was built
    return store_prefix(store) + sig


def run_program(col, ctx, kind, base, copy, prog, count=True, store=None):
    """-> True if the contract held (see diagnose).  `store` (None = the uint8 object of as_encoded_array) selects how the raw codes
    of the base object are stored (build_stored).  A failure of a storage case gets the signature of the same program on the
    simplest storage that fails in the same way (so a defect that does not depend on the storage keeps its signature), else its own
    `storage:<how>:<one-byte-int|wide-int>:<step>:<failure>`."""
    case = {"enc": ctx.name, "kind": kind, "base": base, "copy": copy, "prog": prog}
    if store is not None:
        case["store"] = store
    last, bad = diagnose(ctx, kind, base, copy, prog, store)
    if count:
        col.case(case, nontrivial=bool(base) and any(base), contract=("" if store is None else "storage.") + last.split(":")[0])
    if bad is None:
        return True
    sig, msg = bad
    if store is not None:
        for ref in store_refs(store):
            _, rbad = diagnose(ctx, kind, base, copy, prog, ref)
            if rbad is not None and rbad[0] == sig:
                sig = _storage_sig(ref, sig)
                break
        else:
            sig = _storage_sig(store, sig)
            msg += "  (raw codes stored as %s via %s; holds for the uint8 object of as_encoded_array)" % (store_dtype(store).name, store["how"])
    col.fail(sig, case, msg)
    return False


def writable_after(kind, base_kind, copy, prefix):
    """may the object reached after `prefix` be assigned to?  (a flat base made from a str wraps a read-only buffer)"""
    w = (base_kind == "R") or copy
    for op in prefix:
        if op[0] in GATHER or op[0].startswith("as_"):
            w = True
    return w


def enumerate_programs(ctx, kind, base, copy, depth, last_level, inner_level="core"):
    """all programs of exactly `depth` steps: inner steps from the `inner_level` transforms, the last step from the
    `last_level` transforms + observations.  Generated from the model only."""
    def gen(kind, value, level, prefix, want_obs=True):
        w = writable_after(kind, base_kind, copy, prefix)
        if kind == "R":
            return gen_R(ctx, value, level, w, want_obs)
        if kind == "F":
            return gen_F(ctx, value, level, w, want_obs)
        if kind == "M":
            return gen_M(ctx, value, level, w, want_obs)
        return gen_C(ctx, value)
    base_kind = kind

    def rec(kind, value, prefix, d):
        if d == 1:
            T, O = gen(kind, value, last_level, prefix)
            for op in T + O:
                yield prefix + [op]
            return
        T, _ = gen(kind, value, inner_level, prefix, False)
        for op in T:
            nk, nv = MODEL[kind](ctx, value, op)
            if nk == "C" and d > 1:
                # a 0-d value only has observations
                if d == 2:
                    for o in gen_C(ctx, nv)[1]:
                        yield prefix + [op, o]
                continue
            yield from rec(nk, nv, prefix + [op], d - 1)
    if depth == 0:
        yield []
        return
    yield from rec(kind, base, [], depth)


# ----------------------------------------------------------------------------------------------------------------
# independence of the results of array functions (two-object histories)
# ----------------------------------------------------------------------------------------------------------------
# A Python list built by concatenation / copy / selection is a NEW object: a later item assignment on it does not show in
# the lists it was built from, and the other way round.  NumPy guarantees the same for np.concatenate, np.append, np.insert,
# np.where, np.zeros_like, copy() and boolean-mask / integer-array indexing (slices and ravel are views: not in this phase).
# A case = (encoding, kind F|R|M, array function, 1..3 operands each reached by a short history (fresh / reversed view / tail
# view), one item assignment, the object written to: the result or operand k).  The contract is evaluated on BOTH sides after
# the write: the object written to decodes to the written model value, every other object still decodes to its old value.

def _dec(kind, obj):
    if kind == "F":
        return obj.to_string()
    if kind == "R":
        return obj.tolist()
    return [r.to_string() for r in obj]


def indep_operand(ctx, kind, value, view, copy):
    """an encoded object decoding to `value`, reached through the history `view`"""
    A = ctx.alph
    if kind == "F":
        mk = lambda s: (ctx.arr(s).copy() if copy else ctx.arr(s))
        if view == "plain":
            return mk(value)
        if view == "rev":
            return mk(value[::-1])[::-1]
        if view == "tail":
            return mk(A[1] + value)[1:]
    elif kind == "R":
        if view == "plain":
            return ctx.arr(list(value))
        if view == "rev":
            return ctx.arr(list(value[::-1]))[::-1]
        if view == "tail":
            return ctx.arr([A[1] + A[0]] + list(value))[1:]
    else:
        flat = ctx.arr("".join(value)).copy()
        return flat.reshape(len(value), -1)
    raise KeyError(view)


def indep_model(ctx, kind, fn, vals):
    """-> (kind of the result, value of the result)"""
    name = fn[0]
    if name == "concatenate":
        return kind, ("".join(vals) if kind == "F" else [r for v in vals for r in v])
    if name == "append":
        return "F", vals[0] + vals[1]
    if name == "insert":
        return "F", vals[0][:fn[1]] + vals[1] + vals[0][fn[1]:]
    if name == "where":
        return "F", "".join(c if m else d for c, d, m in zip(vals[0], vals[1], fn[1]))
    if name == "zeros_like":
        return "F", ctx.alph[0] * len(vals[0])
    if name in ("copy", "mask", "fancy"):
        return kind, (vals[0] if kind == "F" else list(vals[0]))
    raise KeyError(fn)


def indep_real(ctx, kind, fn, objs):
    import numpy as np
    name = fn[0]
    if name == "concatenate":
        return np.concatenate(list(objs))
    if name == "append":
        return np.append(objs[0], objs[1])
    if name == "insert":
        return np.insert(objs[0], fn[1], objs[1])
    if name == "where":
        return np.where(np.array(fn[1], dtype=bool), objs[0], objs[1])
    if name == "zeros_like":
        return np.zeros_like(objs[0])
    if name == "copy":
        return objs[0].copy()
    if name == "mask":
        return objs[0][np.ones(len(objs[0]), dtype=bool)]
    if name == "fancy":
        return objs[0][np.arange(len(objs[0]))]
    raise KeyError(fn)


def indep_writes(ctx, kind, value, level):
    """item assignments applicable to an object with the model value `value` (every one changes at least one character)"""
    W = []
    if kind == "F":
        if value:
            W += [["item", 0, ctx.rot(value[0])], ["slice", [0, 2, None], ctx.rot(value[0:2])]]
            if level != "core":
                W += [["item", -1, ctx.rot(value[-1])], ["cmask", value[-1], ctx.rot(value[-1])]]
    elif kind == "R":
        ne = [i for i, r in enumerate(value) if r]
        if ne:
            i = ne[-1]
            W += [["row", i, ctx.rot(value[i])], ["item", ne[0], 0, ctx.rot(value[ne[0]][0])]]
            if level != "core":
                W += [["cmask", value[i][-1], ctx.rot(value[i][-1])], ["row", ne[0] - len(value), ctx.rot(value[ne[0]])]]
    else:
        if value and value[0]:
            W += [["row", 0, ctx.rot(value[0])], ["cmask", value[-1][-1], ctx.rot(value[-1][-1])]]
    return W


def indep_write_model(kind, value, w):
    if kind == "F":
        if w[0] == "item":
            return _seti(value, w[1], w[2])
        if w[0] == "slice":
            return _setsl(value, S(w[1]), w[2])
        return value.replace(w[1], w[2])
    rows = list(value)
    if w[0] == "row":
        rows[w[1]] = w[2]
        return rows
    if w[0] == "item":
        rows[w[1]] = _seti(rows[w[1]], w[2], w[3])
        return rows
    return [r.replace(w[1], w[2]) for r in rows]


def indep_write_real(ctx, kind, obj, w):
    """item values are 0-d encoded values (a one-character str as the value of ONE item is a separate defect class: *.as_i*:str)"""
    if w[0] == "cmask":
        obj[obj == w[1]] = w[2]
    elif w[0] == "slice":
        obj[S(w[1])] = w[2]
    elif w[0] == "item" and kind == "R":
        obj[w[1], w[2]] = ctx.arr(w[3])[0]
    elif w[0] == "item":
        obj[w[1]] = ctx.arr(w[2])[0]
    else:
        obj[w[1]] = w[2]


def run_indep(col, ctx, kind, fn, operands, copy, write, target, count=True):
    """operands: [[value, view], ...];  target: "result" or the number of the operand written to"""
    case = {"enc": ctx.name, "kind": "indep", "of": kind, "fn": fn, "operands": operands, "copy": copy, "write": write, "target": target}
    step = "indep.%s.%s:%d-operand%s" % (kind, fn[0], len(operands), "" if len(operands) == 1 else "s")
    if kind == "R" and fn[0] in ("mask", "fancy"):
        step = "indep.R.row-selection:1-operand"     # a[mask] and a[indices] on rows are one mechanism (npstructures' lazy RaggedView)
    if count:
        col.case(case, nontrivial=True, contract=step.split(":")[0])
    vals = [o[0] for o in operands]
    try:
        objs = [indep_operand(ctx, kind, o[0], o[1], copy) for o in operands]
        rkind, rval = indep_model(ctx, kind, fn, vals)
        res = indep_real(ctx, kind, fn, objs)
        if target == "result":
            indep_write_real(ctx, rkind, res, write)
            rval = indep_write_model(rkind, rval, write)
        else:
            indep_write_real(ctx, kind, objs[target], write)
            vals[target] = indep_write_model(kind, vals[target], write)
        got_res = _dec(rkind, res)
        got_ops = [_dec(kind, o) for o in objs]
    except Exception as e:
        import traceback
        col.fail(step + ":exception:" + type(e).__name__, case, traceback.format_exc()[-450:])
        return False
    ok = True
    if got_ops != vals:
        what = "operand-changed-by-write-to-result" if target == "result" else "wrong-operand-after-write-to-operand"
        ok = col.check(False, step + ":" + what, case, "operands decode to %r expected %r (result %r)" % (got_ops, vals, got_res))
    if got_res != rval:
        what = "wrong-result-after-write-to-result" if target == "result" else "result-changed-by-write-to-operand"
        ok = col.check(False, step + ":" + what, case, "result decodes to %r expected %r (operands %r)" % (got_res, rval, got_ops))
    return ok


def enumerate_indep(ctx, tier, level):
    """-> (kind, fn, operands, copy, write, target) for one encoding"""
    q = tier == "quick"
    A = ctx.alph
    other, other2 = ctx.other_str(), A[1] + A[2] + A[0]
    # flat --------------------------------------------------------------------------------------------------------------
    for L in range(0, (4 if q else 6) if level != "core" else 3):
        s = ctx.fill([L])[0]
        forms = []                                            # (fn, operands)
        for v in ("plain", "rev", "tail"):
            forms.append((["concatenate"], [[s, v]]))
        forms += [(["concatenate"], [[s, "plain"], [other, "plain"]]), (["concatenate"], [[other, "tail"], [s, "rev"]]),
                  (["concatenate"], [["", "plain"], [s, "plain"]]), (["concatenate"], [[s, "tail"], ["", "plain"]]),
                  (["concatenate"], [[s, "plain"], [other, "rev"], [other2, "plain"]]),
                  (["concatenate"], [["", "plain"], [s, "rev"], ["", "tail"]]),
                  (["append"], [[s, "plain"], [other, "plain"]]), (["append"], [[s, "rev"], ["", "plain"]]),
                  (["append"], [["", "plain"], [s, "tail"]]),
                  (["copy"], [[s, "plain"]]), (["copy"], [[s, "rev"]]), (["mask"], [[s, "plain"]]), (["mask"], [[s, "tail"]]),
                  (["fancy"], [[s, "plain"]]), (["fancy"], [[s, "rev"]])]
        for p in sorted({0, L // 2, L}):
            forms += [(["insert", p], [[s, "plain"], [other, "plain"]]), (["insert", p], [[s, "tail"], ["", "plain"]])]
        if L:
            for m in ([True] * L, [False] * L, [i % 2 == 0 for i in range(L)]):
                forms.append((["where", m], [[s, "plain"], [ctx.rot(s, 2), "rev"]]))
        if ctx.name != "base":
            forms.append((["zeros_like"], [[s, "plain"]]))
        for fn, operands in forms:
            vals = [o[0] for o in operands]
            _, rval = indep_model(ctx, "F", fn, vals)
            for w in indep_writes(ctx, "F", rval, level):
                # operands made from a str wrap a read-only buffer (copy=False): the result must be writable all the same
                for copy in (True, False) if (level != "core" or len(operands) == 1) else (True,):
                    yield "F", fn, operands, copy, w, "result"
            for k, o in enumerate(operands):
                for w in indep_writes(ctx, "F", o[0], level):
                    yield "F", fn, operands, True, w, k
    # ragged ------------------------------------------------------------------------------------------------------------
    if level == "core":
        shs = [(2,), (0, 2), (3, 1), (2, 0, 3)]
    elif q:
        shs = [(2,), (0, 0), (0, 2), (3, 1), (1, 1, 1), (2, 0, 3)]
    else:
        shs = shapes(3, 2) + [(1, 0, 0, 2), (3, 3, 3)] if ctx.name in ENCS_MAIN else REPR_SHAPES
    orows = ctx.other_rows()
    for sh in shs:
        rows = ctx.fill(sh)
        forms = []
        for v in ("plain", "rev", "tail"):
            forms.append((["concatenate"], [[rows, v]]))
        forms += [(["concatenate"], [[rows, "plain"], [orows, "plain"]]), (["concatenate"], [[orows, "tail"], [rows, "rev"]]),
                  (["concatenate"], [[[], "plain"], [rows, "plain"]]), (["concatenate"], [[rows, "tail"], [[], "plain"]]),
                  (["concatenate"], [[rows, "plain"], [orows, "rev"], [rows[::-1], "plain"]]),
                  (["copy"], [[rows, "plain"]]), (["copy"], [[rows, "rev"]]), (["copy"], [[rows, "tail"]]),
                  (["mask"], [[rows, "plain"]]), (["fancy"], [[rows, "plain"]]), (["fancy"], [[rows, "tail"]])]
        for fn, operands in forms:
            vals = [o[0] for o in operands]
            _, rval = indep_model(ctx, "R", fn, vals)
            for w in indep_writes(ctx, "R", rval, level):
                yield "R", fn, operands, False, w, "result"
            for k, o in enumerate(operands):
                for w in indep_writes(ctx, "R", o[0], level):
                    yield "R", fn, operands, False, w, k
    # matrix ------------------------------------------------------------------------------------------------------------
    for r, c in ((1, 2), (2, 2), (3, 1)) if level != "core" else ((2, 2),):
        rows = [ctx.fill([c], salt=i)[0] for i in range(r)]
        orow = [ctx.rot(rows[0], 2)]
        for fn, operands in ((["concatenate"], [[rows, "plain"]]), (["concatenate"], [[rows, "plain"], [orow, "plain"]]),
                             (["concatenate"], [[orow, "plain"], [rows, "plain"], [orow, "plain"]]), (["copy"], [[rows, "plain"]])):
            vals = [o[0] for o in operands]
            _, rval = indep_model(ctx, "M", fn, vals)
            for w in indep_writes(ctx, "M", rval, level):
                yield "M", fn, operands, True, w, "result"
            for k, o in enumerate(operands):
                for w in indep_writes(ctx, "M", o[0], level):
                    yield "M", fn, operands, True, w, k


# ----------------------------------------------------------------------------------------------------------------
# comparisons / assignments between operands of DIFFERENT encodings that denote text over a shared alphabet
# ----------------------------------------------------------------------------------------------------------------
# The model of `a == b`, `a != b`, strops.str_equal(a, b) and `a[...] = b` is the operation on the TEXT of both operands,
# whatever encodings they carry.  For (alphabet-encoded, base-encoded) pairs the library supports the operation, so the
# contract is the text result.  For (alphabet, other alphabet) and (base, alphabet) pairs as_encoded_array documents that it
# does not change encodings: there the contract is "refuse with EncodingException / EncodingError, or give the text result" -
# never a silently re-labelled one.

XENCS = {  # name -> (attribute of bionumpy.encodings.alphabet_encoding, alphabet as written there, upper-cased)
    "acgt": ("ACGTEncoding", "ACGT"), "actg": ("ACTGEncoding", "ACTG"), "acgtn": ("ACGTnEncoding", "ACGTN"),
    "actgn": ("ACTGnEncoding", "ACTGN"), "acug": ("ACUGEncoding", "ACUG"), "amino": ("AminoAcidEncoding", "ACDEFGHIKLMNPQRSTVWY*"),
    "bam": ("BamEncoding", "=ACMGRSVTWYHKDBN"), "cigar": ("CigarOpEncoding", "MIDNSHP=X"), "strand": ("StrandEncoding", "+-."),
    "digit": ("DigitEncoding", "0123456789"), "base": (None, None)}
XFAMILY = ["acgt", "actg", "acgtn", "actgn", "acug", "base"]


def xenc_obj(name):
    if name == "base":
        from bionumpy.encodings import BaseEncoding
        return BaseEncoding
    from bionumpy.encodings import alphabet_encoding
    return getattr(alphabet_encoding, XENCS[name][0])


def xenc_rows(t, cut):
    """a text as three rows, the middle one empty"""
    return [t[:cut], "", t[cut:]]


def xenc_pairclass(ln, rn):
    return "%s-vs-%s" % ("base" if ln == "base" else "alphabet", "base" if rn == "base" else "alphabet")


def run_xenc(col, ln, rn, form, op, lt, rt, view, count=True):
    """lt, rt: str (form F) or list of rows (form R)"""
    import numpy as np
    import bionumpy as bnp
    from bionumpy.encoded_array import EncodingException
    from bionumpy.encodings.exceptions import EncodingError
    case = {"kind": "xenc", "left": ln, "right": rn, "form": form, "op": op, "lt": lt, "rt": rt, "view": view}
    step = "xenc.%s.%s:%s" % (form, op, xenc_pairclass(ln, rn))
    if count:
        col.case(case, nontrivial=bool(lt) and any(lt), contract=step.split(":")[0])
    rev = view == "rev"
    # oracle: the operation on the text ------------------------------------------------------------------------------------
    if op in ("eq", "ne"):
        if form == "F":
            exp = [(c == d) == (op == "eq") for c, d in zip(lt, rt)]
        else:
            exp = [[(c == d) == (op == "eq") for c, d in zip(r, q)] for r, q in zip(lt, rt)]
        compared = sum(len(r) for r in rt) if form == "R" else len(rt)
    elif op == "streq":
        exp = [r == q for r, q in zip(lt, rt)]
        compared = sum(len(r) for r, q in zip(lt, rt) if len(r) == len(q))
    else:                                                   # assign: a[:] = b / a[0] = b[0]
        exp = rt if op == "assign" else rt[:1] + lt[1:]
        compared = len(rt)
    refusal_allowed = not (ln != "base" and rn == "base")
    try:
        a = bnp.as_encoded_array(lt[::-1] if rev else lt, xenc_obj(ln))
        b = bnp.as_encoded_array(rt[::-1] if rev else rt, xenc_obj(rn))
        if form == "F" and op in ("assign", "assign0"):
            a = a.copy()
        if rev:                                                 # reversed views of the reversed values: decode to lt, rt again
            a, b = a[::-1], b[::-1]
        try:
            if op == "eq":
                got = (a == b).tolist()
            elif op == "ne":
                got = (a != b).tolist()
            elif op == "streq":
                from bionumpy.io.strops import str_equal
                got = [bool(x) for x in str_equal(a, b)]
            elif op == "assign":
                a[:] = b
                got = a.to_string()
            else:
                a[0] = b[0]
                got = a.to_string()
        except (EncodingException, EncodingError) as e:
            if refusal_allowed:
                return True
            col.fail(step + ":refused", case, "%s: %s" % (type(e).__name__, str(e)[:200]))
            return False
    except Exception as e:
        import traceback
        if compared == 0 and isinstance(e, ValueError) and ln != "base" and rn != "base":
            # nothing to compare / assign (empty operand, or no pair of non-empty rows of equal length): one class
            col.fail("xenc:no-characters-involved:alphabet-vs-alphabet:exception:ValueError", case,
                     "%r [%s] %s %r [%s]: ValueError: %s" % (lt, ln, op, rt, rn, str(e)[:200]))
            return False
        if op == "assign0" and "strand" in (ln, rn):
            # StrandEncoding is a FlatAlphabetEncoding: its _encode ravels by design, so a 0-d value of another encoding becomes 1-d
            step += ":flat-alphabet-encoding"
        col.fail(step + ":exception:" + type(e).__name__, case, traceback.format_exc()[-450:])
        return False
    if got != exp:
        col.fail(step + ":silent-wrong-result", case, "%r [%s] %s %r [%s]%s: got %r, the text gives %r" % (
            lt, ln, op, rt, rn, " (both reversed views)" if rev else "", got, exp))
        return False
    return True


def xenc_plan(tier, ln, rn):
    """-> [(number of leading alphabet symbols, text lengths, operation set)] for one ordered pair of encodings.
    Operation sets: "all" = every comparison / assignment form for the first left text, F.eq + R.streq for the others (thorough:
    everything for every left text);  "few" = F.eq, R.eq, R.streq, F.assign for the first left text, F.eq for the others;
    "eq" = F.eq (+ R.streq in the thorough tier) only."""
    q = tier == "quick"
    family = ln in XFAMILY and rn in XFAMILY
    if q:
        if family and "actgn" not in (ln, rn):
            return [(4, (0, 1, 2), "all"), (4, (3,), "eq")]
        return [(3, (0, 1), "few"), (3, (2,), "eq")]
    if family:
        return [(5, (0, 1, 2), "all"), (3, (3,), "all"), (4, (3,), "eq")]
    return [(3, (0, 1, 2), "all"), (4, (2,), "eq"), (3, (3,), "eq")]


def enumerate_xenc(tier):
    """-> (left, right, form, op, lt, rt, view)"""
    q = tier == "quick"
    names = list(XENCS)
    for ln, rn in itertools.permutations(names, 2):
        la, ra = XENCS[ln][1], XENCS[rn][1]
        done = set()
        for nsym, lens, ops in xenc_plan(tier, ln, rn):
            syms = (ra if ra is not None else la)[:nsym]      # the right operand: every text over the first symbols of its alphabet
            for n in lens:
                for tup in itertools.product(syms, repeat=n):
                    rt = "".join(tup)
                    if rt in done:
                        continue
                    done.add(rt)
                    lefts = []
                    if la is None or all(c in la for c in rt):
                        lefts.append(rt)                        # the same text
                    if la is not None and ra is not None:       # the text whose CODES in the left alphabet are those of rt in the right one
                        lefts.append("".join(la[min(ra.index(c), len(la) - 1)] for c in rt))
                    if la is not None and lefts:                # a text differing everywhere
                        lefts.append("".join(la[(la.index(c) + 1) % len(la)] for c in lefts[0]))
                    if not lefts:
                        lefts.append(la[0] * n)
                    seen = []
                    for lt in lefts:
                        if lt in seen:
                            continue
                        seen.append(lt)
                        first = len(seen) == 1
                        yield ln, rn, "F", "eq", lt, rt, "none"
                        if ops == "eq":
                            if not q:
                                yield ln, rn, "R", "streq", xenc_rows(lt, 1), xenc_rows(rt, 1), "none"
                            continue
                        if ops == "few":
                            if first:
                                yield ln, rn, "R", "eq", xenc_rows(lt, 1), xenc_rows(rt, 1), "none"
                                yield ln, rn, "R", "streq", xenc_rows(lt, 1), xenc_rows(rt, 1), "none"
                                yield ln, rn, "F", "assign", lt, rt, "none"
                            continue
                        yield ln, rn, "R", "streq", xenc_rows(lt, 1), xenc_rows(rt, 1), "none"
                        if first or not q:
                            yield ln, rn, "F", "ne", lt, rt, "none"
                            yield ln, rn, "F", "eq", lt, rt, "rev"
                            yield ln, rn, "R", "eq", xenc_rows(lt, 1), xenc_rows(rt, 1), "none"
                            yield ln, rn, "R", "streq", xenc_rows(lt, 1), xenc_rows(rt, 2), "none"
                            yield ln, rn, "R", "streq", xenc_rows(lt, 1), xenc_rows(rt, 1), "rev"
                            yield ln, rn, "F", "assign", lt, rt, "none"
                            if n:
                                yield ln, rn, "F", "assign0", lt, rt, "none"
                        if not q:
                            yield ln, rn, "R", "ne", xenc_rows(lt, 1), xenc_rows(rt, 1), "none"
                            yield ln, rn, "R", "eq", xenc_rows(lt, 2), xenc_rows(rt, 2), "rev"


def shapes(N, M):
    out = [()]
    for n in range(1, N + 1):
        out += list(itertools.product(range(M + 1), repeat=n))
    return out


REPR_SHAPES = [(), (0,), (2,), (0, 0), (3, 1), (0, 2), (2, 0, 3), (1, 1, 1), (0, 3, 0), (3, 2, 1), (2, 2), (1, 0, 0, 2)]
ENCS_MAIN = ["base", "dna"]
ENCS_OTHER = ["acgtn", "rna", "amino", "bam", "cigar", "strand"]


def plan(tier):
    """the enumeration as a list of phases: (label, encodings, kind, bases-as-shapes, copy flags, depth, last level, sample size)"""
    q = tier == "quick"
    P = []
    # depth 0/1 ------------------------------------------------------------------------------------------------------
    P.append(("d1-all-shapes", ["base"], "R", shapes(3, 3) if q else shapes(4, 3), [False], 1, "mid" if q else "full", None))
    if q:
        P.append(("d1-full", ["base"], "R", sorted(set(REPR_SHAPES + shapes(2, 2))), [False], 1, "full", None))
        P.append(("d1-full", ["dna"], "R", REPR_SHAPES, [False], 1, "full", None))
    else:
        P.append(("d1-full", ["dna"], "R", shapes(3, 3), [False], 1, "full", None))
    P.append(("d1-flat", ENCS_MAIN, "F", [(L,) for L in range(0, 5 if q else 7)], [False, True], 1, "full", None))
    P.append(("d1-other-encodings", ENCS_OTHER, "R", REPR_SHAPES, [False], 1, "core" if q else "mid", None))
    P.append(("d1-other-encodings-flat", ENCS_OTHER, "F", [(0,), (1,), (3,)] if q else [(0,), (1,), (3,), (4,)], [True], 1, "mid", None))
    # depth 2 --------------------------------------------------------------------------------------------------------
    P.append(("d2", ["base"], "R", REPR_SHAPES if q else shapes(3, 2) + [(1, 0, 0, 2), (3, 3, 3)],
              [False], 2, "core" if q else "mid", None))
    P.append(("d2", ["dna"], "R", [(0, 2), (3, 1), (2, 0, 3), (1, 0, 0, 2)] if q else REPR_SHAPES, [False], 2, "core" if q else "mid", None))
    P.append(("d2-flat", ENCS_MAIN, "F", [(L,) for L in range(0, 5 if q else 7)], [True], 2, "core" if q else "mid", None))
    P.append(("d2-other-encodings", ENCS_OTHER, "R", [(2, 0, 3)] if q else [(2, 0, 3), (0, 2), (3, 1)], [False], 2, "core", 300 if q else None))
    P.append(("d2-other-encodings-flat", ENCS_OTHER, "F", [(4,)], [True], 2, "core", 150 if q else None))
    # depth 3 (sampled with the seed: the space of CORE x CORE x (CORE + observations) is ~65 000 programs per shape) ----
    P.append(("d3", ENCS_MAIN, "R", REPR_SHAPES, [False], 3, "core", 250 if q else 9000))
    P.append(("d3-flat", ENCS_MAIN, "F", [(0,), (2,), (4,)], [True], 3, "core", 300 if q else 4000))
    return P


def fill2(ctx, sh, salt=0):
    """rows of the given lengths over the first two symbols of the alphabet (both occur when there are >= 2 characters)"""
    rows, p = [], salt
    for L in sh:
        rows.append("".join(ctx.alph[((p + k) * (p + k + 1) // 2) % 2] for k in range(L)))
        p += L
    return rows


def storage_plan(tier):
    """phases over base objects whose raw codes are stored in another integer dtype than the uint8 of as_encoded_array:
    (label, encodings, kind, shapes, two-symbol bases?, stores, copy flags, depth, last level, sample per base)"""
    q = tier == "quick"
    dts = STORE_DTYPES_QUICK if q else STORE_DTYPES_THOROUGH
    ctor = [{"how": "constructor", "dtype": d} for d in dts]
    cat = [{"how": "concatenate", "dtype": d} for d in dts]
    where = [{"how": "where", "dtype": "default"}]
    few = [{"how": "constructor", "dtype": d} for d in (("int64",) if q else ("int8", "uint16", "int64"))]
    lvl = "core" if q else "mid"
    flat = [(L,) for L in range(0, 5 if q else 7)]
    P = []
    P.append(("storage-d1", ["base"], "R", [(), (0,), (2,), (0, 0), (3, 1), (0, 2), (2, 0, 3), (1, 0, 0, 2)] if q else REPR_SHAPES, False, ctor, [False], 1, lvl, None))
    P.append(("storage-d1", ["dna"], "R", [(0, 2), (2, 0, 3)] if q else REPR_SHAPES, False, ctor, [False], 1, lvl, None))
    P.append(("storage-d1-flat", ENCS_MAIN, "F", flat, False, ctor, [True] if q else [False, True], 1, lvl, None))
    P.append(("storage-d1-concatenate", ENCS_MAIN, "R", [(2,), (0, 2), (3, 1), (2, 0, 3)] if q else REPR_SHAPES, False, cat, [False], 1, "core", None))
    P.append(("storage-d1-concatenate-flat", ENCS_MAIN, "F", flat, False, cat, [True], 1, "core", None))
    P.append(("storage-d1-where", ENCS_MAIN + ["strand"], "R", [(1,), (0, 2), (2, 1), (2, 0, 3)], True, where, [False], 1, lvl, None))
    P.append(("storage-d1-where-flat", ENCS_MAIN + ["strand"], "F", [(L,) for L in range(1, 5)], True, where, [True], 1, lvl, None))
    P.append(("storage-d1-other-encodings", ENCS_OTHER, "R", [(2, 0, 3)] if q else [(0, 2), (3, 1), (2, 0, 3)], False, few, [False], 1, "core", None))
    P.append(("storage-d1-other-encodings-flat", ENCS_OTHER, "F", [(3,)] if q else [(0,), (1,), (3,)], False, few, [True], 1, "core", None))
    d2 = [{"how": "constructor", "dtype": d} for d in (("uint16", "int64") if q else ("int8", "uint16", "int32", "int64"))]
    P.append(("storage-d2", ["base"], "R", [(2, 0, 3)] if q else [(0, 2), (3, 1), (2, 0, 3)], False, d2, [False], 2, "core", 400 if q else None))
    P.append(("storage-d2-flat", ["base"], "F", [(4,)] if q else [(2,), (4,)], False, d2, [True], 2, "core", 300 if q else None))
    return P


def run(tier="quick", seed=0):
    import os
    col = Collector("C07", tier, seed,
                    "program = (encoding, base list of strings or base string, <=3 operations of the statement); every program is run from "
                    "scratch on the real classes, intermediate objects untouched, and the contract (class/rank, encoding == operand "
                    "encoding, decoded value == the same operation on the Python list of strings) is evaluated on its last step (every "
                    "prefix is a program of its own). Exhaustive for depth <= 2 over the stated shapes and operation sets (FULL: every slice "
                    "start/stop in -n-1..n+1|None x step None,2,-1,-2, every mask, every fancy list of <=2 indices, every item, all "
                    "assignment and observation forms; MID/CORE: stated subsets); depth 3 is a seeded sample of CORE x CORE x (CORE + "
                    "observations). distinct = distinct (encoding, base, program); programs on an empty base are counted trivial. "
                    "Plus (run first): independence = (encoding, array function of 1..3 fresh/view operands, one item assignment on the result or "
                    "on an operand; both sides decoded afterwards), exhaustive over the stated functions x shapes x write forms; mixed encodings = "
                    "(ordered pair of different encodings, ==/!=/str_equal/assignment, every right-hand text of length 0..3 over the leading "
                    "symbols of its alphabet x 1..3 left-hand texts), exhaustive; storage = (encoding, base, integer dtype the raw codes "
                    "are stored in x way of building it (constructor / concatenate with a uint8 object / np.where), program of 1..2 operations), "
                    "exhaustive for depth 1 over the stated shapes, depth 2 sampled in the quick tier")
    P = plan(tier)
    SP = storage_plan(tier)
    col.bounds = {"storage": {"dtypes": STORE_DTYPES_QUICK if tier == "quick" else STORE_DTYPES_THOROUGH,
                              "built_by": ["EncodedArray(np.array(codes, dtype), encoding) / EncodedRaggedArray(that, lengths)",
                                           "np.concatenate([uint8 object, object of the dtype]) (promotion)", "EncodedArray(np.where(mask, code, code), encoding)"],
                              "phases": [{"phase": p[0], "encodings": p[1], "kind": p[2], "n_bases": len(p[3]), "stores": len(p[5]), "depth": p[7],
                                          "last_op_set": p[8], "sample_per_base": p[9]} for p in SP]},
                  "encodings": ENCS_MAIN + ENCS_OTHER, "program_len": "0..3", "rows": "0..3 (quick), 0..4 (thorough)", "row_len": "0..3",
                  "flat_len": "0..4 (quick), 0..6 (thorough)", "matrix": "every r x c = flat_len reshaping (depth >= 2)",
                  "independence": {"functions": ["concatenate[1..3]", "append", "insert", "where", "zeros_like", "copy", "a[mask]", "a[indices]"],
                                   "operand_histories": ["fresh", "reversed view", "tail view"], "flat_len": "0..3 (quick), 0..5 (thorough)",
                                   "ragged_shapes": "6 (quick, base+dna), 4 (quick, other encodings); all of 0..3 rows x 0..2 (thorough, base+dna), 12 (others)",
                                   "matrix": "2x2 / 1x2, 2x2, 3x1", "writes": "item, slice, row, character mask; to the result and to every operand"},
                  "mixed_encodings": {"encodings": list(XENCS), "pairs": "every ordered pair", "ops": ["==", "!=", "str_equal", "a[:]=b", "a[0]=b[0]"],
                                      "right_text": "every text of length 0..3 over the first 3..5 symbols of the right alphabet (see xenc_plan)",
                                      "left_text": ["same text", "same codes", "differing everywhere"], "forms": ["flat", "ragged incl. empty row", "reversed views"]},
                  "phases": [{"phase": p[0], "encodings": p[1], "kind": p[2], "n_bases": len(p[3]), "depth": p[5], "last_op_set": p[6],
                              "sample_per_base": p[7]} for p in P]}
    ctxs = {n: Ctx(n) for n in ENCS_MAIN + ENCS_OTHER}
    debug = os.environ.get("C07_DEBUG")
    import time
    # two-object histories and mixed-encoding operands first (small, never cut by the time budget) ---------------------------
    t0, e0 = time.time(), col.evaluations
    for en in ENCS_MAIN + ENCS_OTHER:
        for kind, fn, operands, copy, w, target in enumerate_indep(ctxs[en], tier, ("mid" if en in ENCS_MAIN else "core") if tier == "quick" else "mid"):
            run_indep(col, ctxs[en], kind, fn, operands, copy, w, target)
    if debug:
        print("phase %-26s %-12s %7d programs %6.1f s" % ("independence", "all", col.evaluations - e0, time.time() - t0))
    t0, e0 = time.time(), col.evaluations
    for ln, rn, form, op, lt, rt, view in enumerate_xenc(tier):
        run_xenc(col, ln, rn, form, op, lt, rt, view)
    if debug:
        print("phase %-26s %-12s %7d programs %6.1f s" % ("mixed-encodings", "all pairs", col.evaluations - e0, time.time() - t0))
    # other storage of the raw codes (small, never cut by the time budget) ---------------------------------------------------------
    import random
    srng = random.Random("C07-storage-%s" % seed)           # own stream: the samples of the depth-3 phases below stay what they were
    for label, encs, kind, shs, two, stores, copies, depth, last, sample in SP:
        t0, e0 = time.time(), col.evaluations
        for en in encs:
            ctx = ctxs[en]
            for sh in shs:
                base = fill2(ctx, sh) if two else ctx.fill(sh, salt=0 if en in ENCS_MAIN else 1)
                if kind == "F":
                    base = base[0]
                for store in stores:
                    for copy in copies:
                        if depth == 1:
                            run_program(col, ctx, kind, base, copy, [], store=store)
                        progs = enumerate_programs(ctx, kind, base, copy, depth, last)
                        if sample is not None:
                            progs = list(progs)
                            if len(progs) > sample:
                                progs = srng.sample(progs, sample)
                        for prog in progs:
                            run_program(col, ctx, kind, base, copy, prog, store=store)
        if debug:
            print("phase %-26s %-12s %7d programs %6.1f s" % (label, ",".join(encs)[:12], col.evaluations - e0, time.time() - t0))
    for label, encs, kind, shs, copies, depth, last, sample in P:
        t0, e0 = time.time(), col.evaluations
        for en in encs:
            ctx = ctxs[en]
            for sh in shs:
                base = ctx.fill(sh, salt=0 if en in ENCS_MAIN else 1)
                if kind == "F":
                    base = base[0]
                for copy in copies:
                    if depth == 1:
                        run_program(col, ctx, kind, base, copy, [])
                    progs = enumerate_programs(ctx, kind, base, copy, depth, last)
                    if sample is not None:
                        progs = list(progs)
                        if len(progs) > sample:
                            progs = col.rng.sample(progs, sample)
                    for prog in progs:
                        run_program(col, ctx, kind, base, copy, prog)
                if col.out_of_time():
                    break
            if not col.exhaustive:
                break
        if debug:
            print("phase %-26s %-12s %7d programs %6.1f s" % (label, ",".join(encs)[:12], col.evaluations - e0, time.time() - t0))
        if not col.exhaustive:
            col.undecided.append("time budget exhausted in phase %s" % label)
            break
    return col.result()


def replay(case):
    col = Collector("C07", "quick", 0, "replay")
    if case.get("kind") == "xenc":
        run_xenc(col, case["left"], case["right"], case["form"], case["op"], case["lt"], case["rt"], case["view"])
    elif case.get("kind") == "indep":
        run_indep(col, Ctx(case["enc"]), case["of"], case["fn"], case["operands"], case["copy"], case["write"], case["target"])
    if case.get("kind") in ("xenc", "indep"):
        if col.failures:
            return False, "; ".join(f["signature"] + ": " + f["message"] for f in col.failures)
        return True, "ok"
    ctx = Ctx(case["enc"])
    ok = run_program(col, ctx, case["kind"], case["base"], case.get("copy", False), case["prog"], store=case.get("store"))
    if col.failures:
        return False, "; ".join(f["signature"] + ": " + f["message"] for f in col.failures)
    return True, "ok"
