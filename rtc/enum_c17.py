"""C17 bounded stand-in: indexed FASTA random access vs Python string slicing.

Scope (exhaustive): FASTAs with 1..3 records, sequence length L = 1..7 (quick: 1..6), line width
W = 1..4 (+ a width larger than L), names with descriptions; every interval [a,b) 0 <= a < b <= L;
index created by the library and index supplied faidx-style (written by this file from the spec).
Contracts checked at run time on the real functions:
  create_index rows == faidx rows;  get_contig_lengths == true lengths;  f[name] == sequence;
  get_interval_sequences(intervals)[i] == seq[a:b]  (string-encoded 'fast' path and plain path).

Extensions (each with its own signatures):
  * supplied index as other tools / scripts write it: last row WITHOUT a trailing newline (same files as above);
  * the index WRITTEN next to the FASTA when it is missing, on every route that writes it (open_indexed,
    Genome.from_file with default filter / sort_names / custom filters, Genome.from_dict(...).read_sequence(fasta)):
    the written .fai is parsed by a spec-level parser and must list ALL records (names with '_' at any position,
    names with descriptions), and a FRESH open_indexed afterwards must serve lengths, whole contigs and every
    interval of every record; the Genome object's own view (chrom sizes, read_sequence() whole contigs and
    intervals of the contigs its filter keeps) is compared with the file as well;
  * operation histories on ONE IndexedFasta: whole-contig results are KEPT while further contigs are fetched
    (every fetch order of the records + a re-fetch, dict(items()), list(values()), interleaved interval reads)
    and compared with the file at the end, over files mixing single-line and wrapped records;
  * ADJACENT requests on ONE IndexedFasta (the object keeps one file handle that every reader moves): every
    three-step history  interval fetch [a,e) -> {nothing, whole contig of every record, interval fetch through
    either interval path} -> interval fetch [e,b)  over every split point e (quick: around line breaks for long
    records), both interval paths (plain names / StringEncoding) at step 1 and 3, single and multi-interval
    requests; + window walks over the whole file (window 1, 2, W, W+1) continued across calls with whole-contig
    reads / fetches through the other path in between.  EVERY step's result is compared with the file;
  * index building over files LARGER THAN ONE READER CHUNK (the reader works in reads of 5,000,000 bytes and
    restarts every chunk at a record start): a record longer than the chunk whose first read ends exactly
    behind a line break / one byte later / one byte earlier, as first, middle and last record; a record boundary
    exactly at / next to the end of a read; thorough: other line widths (4, 60, 1000, single-line record), a
    record longer than two reads, a long record following a read-filling one.  create_index rows, the written
    .fai, lengths, whole contigs and intervals around starts, ends, line breaks and the read boundaries.
"""
import itertools
import os
import random

from .common import Collector, TmpDir, to_py

ALPH = "ACGT"


def make_fasta(records, width, final_newline=True):
    """records: list of (header, seq). returns (bytes, faidx rows)"""
    out = bytearray()
    rows = []
    for header, seq in records:
        out += b">" + header.encode() + b"\n"
        offset = len(out)
        lines = [seq[i:i + width] for i in range(0, len(seq), width)]
        out += ("\n".join(lines) + "\n").encode()
        rows.append((header.split()[0], len(seq), offset, min(width, len(seq)) if len(lines) == 1 else width,
                     (min(width, len(seq)) if len(lines) == 1 else width) + 1))
    if not final_newline:
        out = out[:-1]
    return bytes(out), rows


def seq_of(n, salt):
    return "".join(ALPH[(i * 7 + salt * 3 + (i * i) % 5) % 4] for i in range(n))


def write_fai(fai, rows, final_newline=True):
    """faidx-style index written from the spec: 5 tab-separated columns per record, rows separated by a newline;
    the terminator of the LAST row is optional (hand-made / script-written indexes)"""
    text = "\n".join("\t".join(str(x) for x in r) for r in rows) + ("\n" if final_newline else "")
    with open(fai, "w") as f:
        f.write(text)


def parse_fai(text):
    """spec-level reader of a faidx file: rows are newline separated (final terminator optional), 5 tab-separated
    columns NAME LENGTH OFFSET LINEBASES LINEWIDTH; returns list of rows or None when the text is not of that shape.
    The record name is the first whitespace-delimited token (same normalisation as for create_index above)."""
    lines = text.split("\n")
    if lines and lines[-1] == "":
        lines = lines[:-1]
    rows = []
    for line in lines:
        cols = line.split("\t")
        if len(cols) != 5 or not cols[0].split():
            return None
        try:
            rows.append((cols[0].split()[0],) + tuple(int(c) for c in cols[1:]))
        except ValueError:
            return None
    return rows


def _access_checks(col, f, records, tag, case, final_newline=True):
    """lengths, whole contigs and every interval (4 ways of encoding the chromosome column) of an open IndexedFasta
    against the records the file was generated from.  tag 'built' / 'supplied' are the original scope (signatures
    unchanged); any other tag names an extension and is part of every signature."""
    import numpy as np
    import bionumpy as bnp
    from bionumpy.datatypes import Interval
    own = "" if tag in ("built", "supplied") else ":" + tag
    true_len = {h.split()[0]: len(s) for h, s in records}
    col.case({"k": "lengths", **case}, contract="get_contig_lengths")
    got = col.guarded(lambda: {k: int(v) for k, v in f.get_contig_lengths().items()}, "get_contig_lengths" + own, case) \
        if own else {k: int(v) for k, v in f.get_contig_lengths().items()}
    if got is not None:
        col.check(got == true_len, "get_contig_lengths:not-sequence-length" + own, case, "got %r expected %r" % (got, true_len))
    for h, s in records:
        name = h.split()[0]
        col.case({"k": "whole", "name": name, **case}, contract="IndexedFasta.__getitem__")
        g = col.guarded(lambda: f[name].to_string(), "getitem:" + tag, case)
        if g is not None:
            col.check(g == s, "getitem:wrong-sequence:" + tag, case, "got %r expected %r" % (g, s))
    # all intervals
    ivs = [(h.split()[0], a, b) for h, s in records for a in range(len(s)) for b in range(a + 1, len(s) + 1)]
    expect = [dict((hh.split()[0], ss) for hh, ss in records)[n][a:b] for n, a, b in ivs]
    for path in ("plain", "stringenc", "stringenc-reordered-labels", "stringenc-label-subset"):
        use_ivs, use_expect = ivs, expect
        if path == "plain":
            intervals = Interval.from_entry_tuples(ivs)
        else:
            # chromosome column encoded with a StringEncoding whose label list is in file order / in another order /
            # a subset of the contigs (what Genome.from_file produces with sort_names or with ignored contigs)
            names = [h.split()[0] for h, _ in records]
            if path == "stringenc-reordered-labels":
                names = names[::-1]
                if len(names) < 2:
                    continue
            if path == "stringenc-label-subset":
                if len(names) < 2:
                    continue
                names = names[1:]
                keep = [k for k, (n, _, _) in enumerate(ivs) if n in names]
                use_ivs, use_expect = [ivs[k] for k in keep], [expect[k] for k in keep]
                if not use_ivs:
                    continue
            enc = bnp.encodings.string_encodings.StringEncoding(names)
            intervals = Interval(bnp.encoded_array.EncodedArray(np.array([names.index(n) for n, _, _ in use_ivs]), enc),
                                 np.array([a for _, a, _ in use_ivs]), np.array([b for _, _, b in use_ivs]))
        col.case({"k": "intervals", "path": path, "n": len(use_ivs), **case}, contract="get_interval_sequences")
        at_end = (not final_newline)
        g = col.guarded(lambda: to_py(f.get_interval_sequences(intervals)),
                        "get_interval_sequences:%s:%s%s" % (path, tag, ":no-final-newline" if at_end else ""), case)
        if g is not None:
            bad = [(iv, x, e) for iv, x, e in zip(use_ivs, g, use_expect) if x != e]
            col.check(not bad, "get_interval_sequences:wrong-substring:%s:%s" % (path, tag), case, "first mismatches %r" % (bad[:3],))


def check_case(col, tmp, records, width, supplied_index, final_newline=True):
    import bionumpy as bnp
    from bionumpy.io.indexed_fasta import create_index
    data, rows = make_fasta(records, width, final_newline)
    case = {"records": records, "width": width, "supplied_index": supplied_index, "final_newline": final_newline}
    fa = os.path.join(tmp, "t%d.fa" % col.evaluations)
    open(fa, "wb").write(data)
    fai = fa + ".fai"
    if os.path.exists(fai):
        os.unlink(fai)
    tag = "supplied" if supplied_index else "built"
    if supplied_index:
        with open(fai, "w") as f:
            for r in rows:
                f.write("\t".join(str(x) for x in r) + "\n")
    else:
        idx = col.guarded(lambda: create_index(fa), "create_index", case)
        if idx is None:
            return
        # the record name is the first whitespace-delimited token of the header (faidx convention; the library's
        # own index reader applies the same normalisation), so names are compared after that normalisation
        got_rows = [(n.split()[0], int(l), int(s), int(c), int(b)) for n, l, s, c, b in
                    zip(to_py(idx.chromosome), idx.length, idx.start, idx.characters_per_line, idx.line_length)]
        # a single-line record's "bases per line" is its length in faidx too
        col.case({"k": "create_index", **case}, contract="create_index")
        col.check(got_rows == rows, "create_index:rows-differ-from-faidx", case, "got %r expected %r" % (got_rows, rows))
    f = col.guarded(lambda: bnp.open_indexed(fa), "open_indexed:" + tag, case)
    if f is None:
        return
    try:
        _access_checks(col, f, records, tag, case, final_newline)
    finally:
        f._f_obj.close()


# ----------------------------------------------------------------------------------------------------------------------
# extension 1: index supplied by another tool / a script - the terminator of the last row is optional
# ----------------------------------------------------------------------------------------------------------------------

def check_supplied_variant(col, tmp, records, width, variant="no-final-newline"):
    """same FASTA, same faidx rows, but the .fai text ends without a newline: it must be parsed to the same index"""
    import bionumpy as bnp
    data, rows = make_fasta(records, width)
    case = {"scenario": "supplied-fai-variant", "variant": variant, "records": records, "width": width}
    fa = os.path.join(tmp, "v%d.fa" % col.evaluations)
    open(fa, "wb").write(data)
    write_fai(fa + ".fai", rows, final_newline=(variant != "no-final-newline"))
    tag = "supplied-fai-" + variant
    f = col.guarded(lambda: bnp.open_indexed(fa), "open_indexed:" + tag, case)
    if f is None:
        return
    try:
        _access_checks(col, f, records, tag, case)
    finally:
        f._f_obj.close()


# ----------------------------------------------------------------------------------------------------------------------
# extension 2: the index written next to the FASTA when it is missing, on every route that writes it
# ----------------------------------------------------------------------------------------------------------------------

ROUTES = ("open_indexed", "Genome.from_file", "Genome.from_file:sort_names", "Genome.from_file:keep-all",
          "Genome.from_file:keep-first-only", "Genome.from_dict.read_sequence")


def check_written_index(col, tmp, records, width, route):
    """no .fai present -> `route` writes it.  The written file (read back with parse_fai) must have one faidx row per
    record of the FASTA - whatever contigs the Genome object itself keeps - and a fresh open_indexed must serve all of
    them.  The Genome's own view is checked for the contigs its filter keeps (default filter: names without '_')."""
    import bionumpy as bnp
    from bionumpy.datatypes import Interval
    data, rows = make_fasta(records, width)
    case = {"scenario": "written-index", "route": route, "records": records, "width": width}
    fa = os.path.join(tmp, "w%d.fa" % col.evaluations)
    open(fa, "wb").write(data)
    fai = fa + ".fai"
    if os.path.exists(fai):
        os.unlink(fai)
    names = [h.split()[0] for h, _ in records]
    truth = {h.split()[0]: s for h, s in records}
    sigroute = route.split(":")[0]
    described = any(len(h.split()) > 1 for h, _ in records)
    genome, gseq, kept = None, None, names
    col.case({"k": "write-route", **case}, contract="index written when missing")
    if route == "open_indexed":
        f0 = col.guarded(lambda: bnp.open_indexed(fa), "written-index:open_indexed", case)
        if f0 is not None:
            f0._f_obj.close()
    elif route == "Genome.from_dict.read_sequence":
        genome = col.guarded(lambda: bnp.Genome.from_dict({n: len(truth[n]) for n in names}), "written-index:Genome.from_dict", case)
        if genome is not None:
            gseq = col.guarded(lambda: genome.read_sequence(fa), "written-index:Genome.from_dict.read_sequence", case)
    else:
        kwargs = {}
        if route == "Genome.from_file:sort_names":
            kwargs = {"sort_names": True}
        if route == "Genome.from_file:keep-all":
            kwargs = {"filter_function": lambda n: True}
        if route == "Genome.from_file:keep-first-only":
            kwargs = {"filter_function": lambda n, first=names[0]: n == first}
            kept = names[:1]
        if route in ("Genome.from_file", "Genome.from_file:sort_names"):
            kept = [n for n in names if "_" not in n]          # documented default: ignore names with underscores
        # one signature for the whole region "FASTA headers carry a description" (see report), so that the rest of
        # the Genome routes stays meaningful
        genome = col.guarded(lambda: bnp.Genome.from_file(fa, **kwargs),
                             "Genome.from_file:fasta-header-with-description" if described else "written-index:Genome.from_file", case)
        if genome is not None:
            gseq = col.guarded(lambda: genome.read_sequence(), "Genome.read_sequence", case)
    try:
        # (a) the file that now sits next to the FASTA
        col.case({"k": "written-fai", **case}, contract="written .fai == faidx rows of every record")
        if not col.check(os.path.isfile(fai), "written-index:%s:no-fai-written" % sigroute, case, "no %s" % os.path.basename(fai)):
            return
        text = open(fai).read()
        got_rows = parse_fai(text)
        if col.check(got_rows is not None, "written-index:%s:fai-not-5-tab-separated-columns" % sigroute, case, "text %r" % text[:300]):
            col.check([r[0] for r in got_rows] == names, "written-index:%s:records-missing-or-reordered" % sigroute, case,
                      "names in the written .fai %r, records of the FASTA %r" % ([r[0] for r in got_rows], names))
            col.check(got_rows == rows or [r[0] for r in got_rows] != names, "written-index:%s:rows-differ-from-faidx" % sigroute, case,
                      "got %r expected %r" % (got_rows, rows))
        # (b) the Genome object's own view of the contigs it keeps
        if genome is not None:
            col.case({"k": "genome-sizes", **case}, contract="Genome chrom sizes == sequence lengths")
            sizes = col.guarded(lambda: {str(k): int(v) for k, v in genome.get_genome_context().chrom_sizes.items()},
                                "Genome.chrom_sizes", case)
            if sizes is not None:
                col.check(sizes == {n: len(truth[n]) for n in kept}, "Genome.from_file:chrom-sizes-not-sequence-lengths", case,
                          "got %r expected %r" % (sizes, {n: len(truth[n]) for n in kept}))
        if gseq is not None and kept:
            for n in kept:
                col.case({"k": "genome-whole", "name": n, **case}, contract="Genome.read_sequence whole contig")
                g = col.guarded(lambda: gseq.extract_chromsome(n).to_string().upper(), "Genome.read_sequence:extract_chromsome", case)
                if g is not None:
                    col.check(g == truth[n], "Genome.read_sequence:extract_chromsome:wrong-sequence", case, "%s: got %r expected %r" % (n, g, truth[n]))
            ivs = [(n, a, b) for n in kept for a in range(len(truth[n])) for b in range(a + 1, len(truth[n]) + 1)]
            col.case({"k": "genome-intervals", "n": len(ivs), **case}, contract="Genome.read_sequence intervals")
            g = col.guarded(lambda: [s.upper() for s in to_py(gseq[genome.get_intervals(Interval.from_entry_tuples(ivs))])],
                            "Genome.read_sequence:intervals", case)
            if g is not None:
                bad = [(iv, x) for iv, x in zip(ivs, g) if x != truth[iv[0]][iv[1]:iv[2]]]
                col.check(not bad and len(g) == len(ivs), "Genome.read_sequence:intervals:wrong-substring", case,
                          "%d results for %d intervals, first mismatches %r" % (len(g), len(ivs), bad[:3]))
    finally:
        if gseq is not None:
            try:
                gseq._fasta._f_obj.close()
            except Exception:
                pass
    # (c) later random access to the same file finds the index left behind by the route
    tag = "index-written-by-" + sigroute
    f = col.guarded(lambda: bnp.open_indexed(fa), "open_indexed:" + tag, case)
    if f is None:
        return
    try:
        _access_checks(col, f, records, tag, case)
    finally:
        f._f_obj.close()


# ----------------------------------------------------------------------------------------------------------------------
# extension 3: operation histories on one IndexedFasta - results handed out earlier stay what they were
# ----------------------------------------------------------------------------------------------------------------------

def fetch_orders(names):
    """every order of fetching all records once, each followed by a re-fetch of the first one (so that a 2-record
    file has 3 fetches), + the same contig twice in a row"""
    out = [list(p) + [p[0]] for p in itertools.permutations(names)]
    out += [[n, n] for n in names]
    return out


def check_history(col, tmp, records, width):
    import bionumpy as bnp
    from bionumpy.datatypes import Interval
    data, rows = make_fasta(records, width)
    case = {"scenario": "history", "records": records, "width": width}
    fa = os.path.join(tmp, "h%d.fa" % col.evaluations)
    open(fa, "wb").write(data)
    write_fai(fa + ".fai", rows)
    names = [h.split()[0] for h, _ in records]
    truth = {h.split()[0]: s for h, s in records}
    f = col.guarded(lambda: bnp.open_indexed(fa), "history:open_indexed", case)
    if f is None:
        return
    try:
        def keep_and_compare(fetch, what, descr):
            """fetch() -> list of (name, EncodedArray); all results are held, read immediately and again after every
            fetch of the history is done"""
            held = col.guarded(fetch, "history:%s" % what, case)
            if held is None:
                return
            wrong = [(n, v.to_string(), truth[n]) for n, v in held if v.to_string() != truth[n]]
            col.check(not wrong, "history:%s:kept-results-differ-from-file" % what, case,
                      "%s; (name, held value now, sequence in the file): %r" % (descr, wrong[:3]))

        for order in fetch_orders(names):
            col.case({"k": "history-getitem", "order": order, **case}, contract="whole-contig results independent of later reads")
            held, immediate_bad = [], []

            def fetch(order=order, held=held, immediate_bad=immediate_bad):
                for n in order:
                    v = f[n]
                    if v.to_string() != truth[n]:
                        immediate_bad.append(n)
                    held.append((n, v))
                return held
            r = col.guarded(fetch, "history:getitem", case)
            if r is None:
                continue
            if not col.check(not immediate_bad, "history:getitem:wrong-sequence-right-after-fetch", case, "order %r contigs %r" % (order, immediate_bad)):
                continue
            changed = [(n, v.to_string(), truth[n]) for n, v in held if v.to_string() != truth[n]]
            col.check(not changed, "history:getitem:earlier-result-changed-by-later-fetch", case,
                      "fetch order %r; (name, held value now, sequence in the file): %r" % (order, changed[:3]))
        # the dict-like views: all values are alive at the same time
        col.case({"k": "history-items", **case}, contract="dict(items()) == records")
        keep_and_compare(lambda: list(dict(f.items()).items()), "items", "dict(fasta.items())")
        got_keys = col.guarded(lambda: sorted(dict(f.items()).keys()), "history:items", case)
        if got_keys is not None:
            col.check(got_keys == sorted(names), "history:items:keys-are-not-the-records", case, "got %r expected %r" % (got_keys, sorted(names)))
        col.case({"k": "history-values", **case}, contract="list(values()) == records in keys() order")
        keep_and_compare(lambda: list(zip(list(f.keys()), list(f.values()))), "values", "zip(fasta.keys(), list(fasta.values()))")
        # interval results held across later whole-contig and interval reads, whole contigs held across interval reads
        ivs = [(n, a, b) for n in names for a in range(len(truth[n])) for b in range(a + 1, len(truth[n]) + 1)]
        expect = [truth[n][a:b] for n, a, b in ivs]
        col.case({"k": "history-interleaved", **case}, contract="results independent of later reads (intervals and whole contigs interleaved)")

        def interleaved():
            r1 = f.get_interval_sequences(Interval.from_entry_tuples(ivs))
            w1 = [(n, f[n]) for n in names]
            r2 = f.get_interval_sequences(Interval.from_entry_tuples(ivs[::-1]))
            w2 = [(n, f[n]) for n in names[::-1]]
            return r1, w1, r2, w2
        r = col.guarded(interleaved, "history:interleaved", case)
        if r is not None:
            r1, w1, r2, w2 = r
            col.check(to_py(r1) == expect and to_py(r2) == expect[::-1], "history:interleaved:interval-results-differ-from-file", case,
                      "get_interval_sequences result held across later reads: %r / %r expected %r" % (to_py(r1)[:4], to_py(r2)[:4], expect[:4]))
            wrong = [(n, v.to_string(), truth[n]) for n, v in w1 + w2 if v.to_string() != truth[n]]
            col.check(not wrong, "history:interleaved:whole-contig-results-differ-from-file", case, "(name, held, file) %r" % (wrong[:3],))
    finally:
        f._f_obj.close()


# ----------------------------------------------------------------------------------------------------------------------
# extension 4: adjacent requests on one IndexedFasta - the readers share one file handle
# ----------------------------------------------------------------------------------------------------------------------

INTERVAL_PATHS = ("plain", "stringenc")
_ENCODINGS = {}          # StringEncoding objects of the harness (immutable label lists), one per tuple of contig names


def _make_intervals(path, ivs, names):
    """an Interval object for the (name, start, stop) tuples: chromosome column as plain strings ('plain') or encoded
    with a StringEncoding over the contig names in file order ('stringenc', what a Genome hands to the reader)"""
    import numpy as np
    import bionumpy as bnp
    from bionumpy.datatypes import Interval
    if path == "plain":
        return Interval.from_entry_tuples(ivs)
    key = tuple(names)
    if key not in _ENCODINGS:
        if len(_ENCODINGS) > 50:
            _ENCODINGS.clear()
        _ENCODINGS[key] = bnp.encodings.string_encodings.StringEncoding(list(names))
    enc = _ENCODINGS[key]
    return Interval(bnp.encoded_array.EncodedArray(np.array([names.index(n) for n, _, _ in ivs]), enc),
                    np.array([a for _, a, _ in ivs]), np.array([b for _, _, b in ivs]))


def run_adjacent_history(col, fa, names, truth, history, case):
    """history: list of (kind, arg); kind 'plain' / 'stringenc' with arg = list of (name, a, b), kind 'getitem' with
    arg = contig name.  All requests go to ONE freshly opened IndexedFasta, in order; every result is compared with
    the file right away.  The signature names the failing request kind and the kind of the request before it."""
    import bionumpy as bnp
    col.case({"k": "adjacent-history", **case}, contract="every request of a history == file")
    f = col.guarded(lambda: bnp.open_indexed(fa), "adjacent-history:open_indexed", case)
    if f is None:
        return False
    prev = "open"
    try:
        for step, (kind, arg) in enumerate(history):
            sig = "adjacent-history:%s-after-%s" % (kind, prev)
            if kind == "getitem":
                expect = truth[arg]
                got = col.guarded(lambda: f[arg].to_string(), sig, case)
            else:
                ivs = [tuple(x) for x in arg]
                expect = [truth[n][a:b] for n, a, b in ivs]
                intervals = _make_intervals(kind, ivs, names)
                got = col.guarded(lambda: to_py(f.get_interval_sequences(intervals)), sig, case)
            if got is None:
                return False
            if not col.check(got == expect, sig + ":result-differs-from-file", case,
                             "step %d of %r: got %r, the file has %r" % (step + 1, history, got, expect)):
                return False
            prev = kind
    finally:
        f._f_obj.close()
    return True


def split_points(L, W):
    """where one request ends and the next one starts: every inner position of short records, positions at and around
    the first two line breaks and the two ends of longer ones"""
    if L <= 9:
        return list(range(1, L))
    return sorted(e for e in {1, 2, W - 1, W, W + 1, 2 * W - 1, 2 * W, 2 * W + 1, L - 2, L - 1} if 1 <= e <= L - 1)


def three_step_histories(names, truth, W, tier):
    """interval fetch ending at base e -> something that moves the handle (or nothing) -> interval fetch starting at e"""
    k = 0
    for n in names:
        L = len(truth[n])
        others = [m for m in names if m != n] or [n]
        for e in split_points(L, W):
            spans = [(0, L), (e - 1, e + 1)] if tier == "quick" else [(0, L), (e - 1, e + 1), (0, e + 1), (e - 1, L)]
            for a, b in sorted(set(spans)):
                far = (names[-1], len(truth[names[-1]]) - 1, len(truth[names[-1]]))
                mids = [[]] + [[("getitem", m)] for m in names]
                mids += [[(p, [iv])] for p in INTERVAL_PATHS for iv in ((n, a, e), far)]       # quick: p != path of step 3
                for multi in ((k % 2 == 0,) if tier == "quick" else (False, True)):
                    k += 1
                    # multi-interval requests: the adjacent interval is the LAST of the first request and the FIRST of
                    # the second one
                    lead = [(others[0], 0, 1)] if multi else []
                    trail = [(others[-1], 0, len(truth[others[-1]]))] if multi else []
                    for p1 in INTERVAL_PATHS:
                        for mid in mids:
                            for p3 in INTERVAL_PATHS:
                                if tier == "quick" and mid and mid[0][0] == p3:
                                    continue
                                yield [(p1, lead + [(n, a, e)])] + mid + [(p3, [(n, e, b)] + trail)]


def window_walks(names, truth, W):
    """the whole file read in consecutive windows, one request per window (the next request starts where the previous
    one stopped; at a contig end it continues with base 0 of the next contig), with other reads in between"""
    windows = sorted({1, 2, W, W + 1})
    far = (names[0], 0, 1)
    for k in windows:
        steps = [(n, s, min(s + k, len(truth[n]))) for n in names for s in range(0, len(truth[n]), k)]
        for paths in (("plain",), ("stringenc",), ("plain", "stringenc")):
            for between in ("nothing", "getitem-next-record", "getitem-same-record", "other-path-elsewhere", "other-path-same-window"):
                history = []
                for i, iv in enumerate(steps):
                    p = paths[i % len(paths)]
                    other = INTERVAL_PATHS[1 - INTERVAL_PATHS.index(p)]
                    history.append((p, [iv]))
                    if between == "getitem-next-record":
                        history.append(("getitem", names[(names.index(iv[0]) + 1 + i) % len(names)]))
                    elif between == "getitem-same-record":
                        history.append(("getitem", iv[0]))
                    elif between == "other-path-elsewhere":
                        history.append((other, [far]))
                    elif between == "other-path-same-window":
                        history.append((other, [iv]))
                yield history


def check_adjacent(col, tmp, records, width, tier, only_history=None, walks_only=False):
    """tier: the density of the three-step enumeration ('quick': two spans per split point, single / multi-interval
    requests alternating, middle fetch through the path that step 3 does not use; otherwise everything)"""
    data, rows = make_fasta(records, width)
    fa = os.path.join(tmp, "adj%d.fa" % col.evaluations)
    open(fa, "wb").write(data)
    write_fai(fa + ".fai", rows)
    names = [h.split()[0] for h, _ in records]
    truth = {h.split()[0]: s for h, s in records}
    if only_history is not None:
        histories = [only_history]
    elif walks_only:
        histories = window_walks(names, truth, width)
    else:
        histories = itertools.chain(three_step_histories(names, truth, width, tier), window_walks(names, truth, width))
    for history in histories:
        history = [(k, a if k == "getitem" else [tuple(x) for x in a]) for k, a in history]
        case = {"scenario": "adjacent-history", "records": records, "width": width, "history": history}
        run_adjacent_history(col, fa, names, truth, history, case)
        if col.out_of_time():
            break
    os.unlink(fa)
    os.unlink(fa + ".fai")


def adjacent_cases(tier):
    names = ("chrA", "pB", "chrC")
    for W in (1, 2, 3, 4, 9):
        # (record lengths, density of the three-step enumeration, window walks only)
        layouts = [((2 * W + 1, W, W + 2), tier, tier == "quick" and W == 4)]
        if tier != "quick":
            layouts += [((W + 1, 3 * W), "quick", False)]
        for Ls, density, walks_only in layouts:
            yield [(names[i], seq_of(L, i + 1)) for i, L in enumerate(Ls)], W, density, walks_only


# ----------------------------------------------------------------------------------------------------------------------
# extension 5: index building over files larger than one reader chunk
# ----------------------------------------------------------------------------------------------------------------------

CHUNK = 5000000          # default min_chunk_size of the file reader (read_chunks / read_chunk), what create_index uses
_ACGT_TABLE = bytes(b"ACGT"[i & 3] for i in range(256))


def big_seq(n, salt):
    """n pseudo-random bases, a function of (n, salt) only"""
    return random.Random("C17-%d" % salt).randbytes(n).translate(_ACGT_TABLE).decode()


def header_of_len(name, n):
    """a header text (without '>') of exactly n characters whose first token is `name`, or None"""
    if n == len(name):
        return name
    if n >= len(name) + 2:
        return name + " " + "d" * (n - len(name) - 1)
    return None


def long_record(name, W, d, min_len):
    """(header, L): a record longer than `min_len` bases, wrapped at W, such that a read of CHUNK bytes starting at
    its '>' ends d bytes behind a line break of the sequence (d = 0: the newline is the last byte of the read;
    d = W: the newline is the first byte of the next read)"""
    h = (CHUNK - d) % (W + 1)
    while header_of_len(name, h - 2) is None:
        h += W + 1
    return header_of_len(name, h - 2), min_len


def read_filling_record(name, W, d):
    """(header, L): a record whose bytes (header line + sequence lines) are exactly CHUNK + d, so that the next
    record's '>' is d bytes behind the end of a read starting at this record"""
    h = len(name) + 8
    while True:
        q, r = divmod(CHUNK + d - h, W + 1)
        if r != 1 and header_of_len(name, h - 2) is not None:
            return header_of_len(name, h - 2), q * W + (r - 1 if r else 0)
        h += 1


def multi_chunk_layouts(tier):
    """yields (class, width, [(header, L, salt), ...], [(index of record, offset of the '>' of that record at which the
    stated byte relation holds, relation)]) ; relation is checked on the generated bytes before the library is called"""
    W = 80
    small = lambda name, L, salt: (name, L, salt)
    for d, before, after in ((0, True, True), (1, False, True), (W, True, False)):
        hdr, L = long_record("chr1", W, d, 6200000)
        recs = ([small("scaffold_7 unplaced", 1234, 2)] if before else []) + [(hdr, L, 1)] + \
               ([small("chrM mitochondrion", 16569, 3)] if after else [])
        yield "long-record:first-read-ends-%d-bytes-behind-a-line-break" % d, W, recs, (1 if before else 0, CHUNK - 1 - d, "\n")
    hdr, L = read_filling_record("chrF", W, 0)
    yield "record-boundary:next-record-starts-0-bytes-behind-a-read", W, [(hdr, L, 4), small("tail x", 2 * W + 1, 5)], (0, CHUNK, ">")
    if tier == "quick":
        return
    for d in (-1, 1):
        hdr, L = read_filling_record("chrF", W, d)
        yield "record-boundary:next-record-starts-%s-a-read" % ("1-byte-before-the-end-of" if d < 0 else "1-byte-behind"), W, [(hdr, L, 4), small("tail x", 2 * W + 1, 5)], (0, CHUNK + d, ">")
    # a read-filling record followed by a record that fills more than a read itself
    hdr, L = read_filling_record("chrF", W, 0)
    hdr2, L2 = long_record("chrG", W, 0, 5300000)
    yield "record-boundary:long-record-behind-a-read-filling-record", W, [(hdr, L, 4), (hdr2, L2, 6), small("t", 5, 7)], (0, CHUNK, ">")
    # other line widths; the long record alone in the file / single-line long record
    for W2 in (4, 60, 1000):
        for d in (0, 1):
            hdr, L = long_record("chr1", W2, d, 5200000 if W2 == 4 else 5600000)
            yield "long-record:first-read-ends-%d-bytes-behind-a-line-break" % d, W2, [small("s0", W2 + 1, 2), (hdr, L, 1), small("s1 y", 3, 3)], (1, CHUNK - 1 - d, "\n")
    hdr, L = long_record("chr1", W, 0, 5600000)
    yield "long-record:only-record", W, [(hdr, L, 1)], (0, CHUNK - 1, "\n")
    yield "long-record:single-line", 5600000, [small("s0", 7, 2), ("chr1 one line", 5600000, 1), small("s1", 3, 3)], None
    # a record longer than two reads: line break at the end of the first / of the second read
    hdr, L = long_record("chr1", W, 0, 10100000)
    yield "two-reads-long-record:first-read-ends-0-bytes-behind-a-line-break", W, [small("s0", 100, 2), (hdr, L, 1), small("s1", 3, 3)], (1, CHUNK - 1, "\n")
    h = (2 * CHUNK) % (W + 1)
    yield "two-reads-long-record:second-read-ends-0-bytes-behind-a-line-break", W, \
        [small("s0", 100, 2), (header_of_len("chr1", h - 2), 10100000, 1), small("s1", 3, 3)], (1, 2 * CHUNK - 1, "\n")


def big_intervals(L, W, offset, record_start):
    """intervals of one record around its start, its end, the first line breaks and the places where a read of the
    index builder can end (CHUNK and 2 CHUNK bytes behind the start of the file / of the record), a few long ones"""
    points = {0, 1, W - 1, W, W + 1, L - W - 1, L - 2, L - 1}
    for boundary in (record_start + CHUNK, record_start + 2 * CHUNK, CHUNK, 2 * CHUNK):
        if boundary < offset:
            continue
        row, colm = divmod(boundary - offset, W + 1)
        pb = row * W + min(colm, W)
        points |= {pb - W, pb - 1, pb, pb + 1, pb + W}
        points |= {pb - 3 * W - 1}
    out = []
    for p in sorted(points):
        if not 0 <= p < L:
            continue
        for n in (1, 2, W, W + 1, 2 * W + 1, 6 * W + 3):
            if p + n <= L:
                out.append((p, p + n))
        if L - p <= 3 * W + 3:
            out.append((p, L))
    out.append((0, L))
    return sorted(set(out))


def check_multi_chunk(col, tmp, klass, width, layout, relation):
    import bionumpy as bnp
    from bionumpy.io.indexed_fasta import create_index
    layout = [tuple(x) for x in layout]
    case = {"scenario": "multi-chunk", "class": klass, "width": width, "layout": layout,
            "relation": list(relation) if relation else None}
    records = [(h, big_seq(L, salt)) for h, L, salt in layout]
    data, rows = make_fasta(records, width)
    names = [h.split()[0] for h, _ in records]
    truth = {h.split()[0]: s for h, s in records}
    starts = [r[2] - len(h) - 2 for r, (h, _) in zip(rows, records)]           # offset of each record's '>'
    if relation:
        k, rel, byte = relation
        assert data[starts[k] + rel:starts[k] + rel + 1] == byte.encode(), "generator: layout does not have the stated alignment"
    fa = os.path.join(tmp, "big%d.fa" % col.evaluations)
    open(fa, "wb").write(data)
    size = len(data)
    del data
    fai = fa + ".fai"
    try:
        col.case({"k": "multi-chunk:create_index", **case}, contract="create_index")
        idx = col.guarded(lambda: create_index(fa), "multi-chunk:create_index", case)
        if idx is not None:
            got_rows = [(n.split()[0], int(l), int(s), int(c), int(b)) for n, l, s, c, b in
                        zip(to_py(idx.chromosome), idx.length, idx.start, idx.characters_per_line, idx.line_length)]
            col.check(got_rows == rows, "multi-chunk:create_index:rows-differ-from-faidx", case,
                      "file of %d bytes: got %r expected %r" % (size, got_rows[:6], rows[:6]))
        else:
            # no index can be built (reported above): the access checks below run with a faidx-style index from the spec,
            # so that one defect of the index builder stays one finding
            write_fai(fai, rows)
        col.case({"k": "multi-chunk:written-fai", **case}, contract="written .fai == faidx rows of every record")
        f = col.guarded(lambda: bnp.open_indexed(fa), "multi-chunk:open_indexed", case)
        if f is None:
            return
        try:
            if idx is not None and col.check(os.path.isfile(fai), "multi-chunk:written-index:no-fai-written", case, "no .fai next to the FASTA"):
                got_rows = parse_fai(open(fai).read())
                col.check(got_rows == rows, "multi-chunk:written-index:rows-differ-from-faidx", case,
                          "file of %d bytes: got %r expected %r" % (size, (got_rows or [])[:6], rows[:6]))
            col.case({"k": "multi-chunk:lengths", **case}, contract="get_contig_lengths")
            got = col.guarded(lambda: {k: int(v) for k, v in f.get_contig_lengths().items()}, "multi-chunk:get_contig_lengths", case)
            if got is not None:
                col.check(got == {n: len(truth[n]) for n in names}, "multi-chunk:get_contig_lengths:not-sequence-length", case,
                          "got %r expected %r" % (got, {n: len(truth[n]) for n in names}))
            for n in names:
                col.case({"k": "multi-chunk:whole", "name": n, **case}, contract="IndexedFasta.__getitem__")
                g = col.guarded(lambda: f[n].to_string(), "multi-chunk:getitem", case)
                if g is not None and g != truth[n]:
                    first = next((i for i, (x, y) in enumerate(zip(g, truth[n])) if x != y), min(len(g), len(truth[n])))
                    col.fail("multi-chunk:getitem:wrong-sequence", case, "%s: %d bases returned, %d in the file, first difference at base %d"
                             % (n, len(g), len(truth[n]), first))
            ivs = []
            for (h, s), r, st in zip(records, rows, starts):
                ivs += [(r[0], a, b) for a, b in big_intervals(len(s), width, r[2], st)]
            for path in INTERVAL_PATHS:
                col.case({"k": "multi-chunk:intervals", "path": path, "n": len(ivs), **case}, contract="get_interval_sequences")
                intervals = _make_intervals(path, ivs, names)
                g = col.guarded(lambda: to_py(f.get_interval_sequences(intervals)), "multi-chunk:get_interval_sequences:" + path, case)
                if g is not None:
                    bad = [(iv, len(x)) for iv, x in zip(ivs, g) if x != truth[iv[0]][iv[1]:iv[2]]]
                    col.check(not bad and len(g) == len(ivs), "multi-chunk:get_interval_sequences:wrong-substring:" + path, case,
                              "%d results for %d intervals; first wrong (interval, length returned) %r" % (len(g), len(ivs), bad[:3]))
        finally:
            f._f_obj.close()
    finally:
        for p in (fa, fai):
            if os.path.exists(p):
                os.unlink(p)


def cases(tier):
    maxL = 6 if tier == "quick" else 7
    widths = [1, 2, 3, 4, 9]
    for W in widths:
        for L in range(1, maxL + 1):
            yield [("chr1", seq_of(L, 1))], W
    # several records of unequal length, names with descriptions, name prefix of another
    for W in widths:
        for (L1, L2, L3) in ([(1, W, W + 1), (2 * W, 1, 3), (W + 1, 2 * W + 1, 2)] if tier == "quick" else
                             itertools.product((1, W, W + 1, 2 * W), (1, 2, 2 * W + 1), (1, 3, W))):
            yield [("chr1 first record", seq_of(L1, 1)), ("chr10", seq_of(L2, 2)), ("c_alt descr x", seq_of(L3, 3))], W
        yield [("a", seq_of(W, 4)), ("b", seq_of(2 * W, 5))], W


# record names for the written-index routes: '_' at the start / in the middle / at the end / several, UCSC style alt and
# unplaced scaffolds between ordinary names; first and last record with and without '_'; at least one name without '_'
# (a Genome that keeps no contig at all is not what this property is about)
NAME_SETS = (
    ("chr1", "chr1_KI270706v1_random", "chr2", "chrUn_GL000195v1"),
    ("_s", "t_", "chrM"),
    ("a_b", "c"),
    ("x", "y_1_2"),
    ("solo",),
)
DESCRIBED_SET = ("chr1 first record", "chr10", "c_alt descr x")


def written_index_cases(tier):
    widths = [1, 2, 3, 4, 9]
    for W in widths:
        pool = [1, W, W + 1, 2 * W, 2 * W + 1, 3]
        for k, names in enumerate(NAME_SETS):
            shifts = (0, 2) if tier == "quick" else range(len(pool))
            if tier == "quick" and (k + W) % 2:       # quick: half of the (name set, width) pairs
                shifts = (1,)
            for sh in shifts:
                yield [(n, seq_of(pool[(sh + i) % len(pool)], i + 1)) for i, n in enumerate(names)], W
        yield [(n, seq_of(pool[(W + i) % len(pool)], i + 1)) for i, n in enumerate(DESCRIBED_SET)], W


def history_cases(tier):
    """files mixing single-line records (L <= W) and wrapped records (L > W) in every arrangement"""
    widths = [1, 2, 3, 4, 9]
    names = ("chrA", "pB", "chrC", "sD")
    for W in widths:
        pool = sorted({1, max(1, W - 1), W, W + 1, 2 * W, 2 * W + 1})
        for Ls in itertools.product(pool, repeat=2):
            yield [(names[i], seq_of(L, i + 1)) for i, L in enumerate(Ls)], W
        triples = list(itertools.product(pool, repeat=3))
        if tier == "quick":
            triples = [t for t in triples if min(t) <= W < max(t)][::3]
        for Ls in triples:
            yield [(names[i], seq_of(L, i + 1)) for i, L in enumerate(Ls)], W
        quads = [(W + 1, 1, W, 2 * W + 1), (W, 2 * W, 1, W), (2 * W + 1, W, W + 1, 1), (1, 1, W, 2 * W)]
        if tier != "quick":
            quads += [q[::-1] for q in quads]
        for Ls in quads:
            yield [(names[i], seq_of(L, i + 1)) for i, L in enumerate(Ls)], W


def run(tier="quick", seed=0):
    col = Collector("C17", tier, seed,
                    "exhaustive: FASTA of 1..3 records x L=1..%d x W in {1,2,3,4,9} x {index built by the library, faidx-style index supplied} "
                    "x every interval [a,b); distinct = distinct (file, operation); non-trivial = every case (all exercise offset arithmetic)"
                    "; + the same files with a supplied .fai whose last row is unterminated; + index written when missing on %d routes "
                    "(open_indexed / Genome.from_file variants / Genome.read_sequence) x names with '_' and descriptions, then a fresh "
                    "open_indexed; + histories on one IndexedFasta (every fetch order + re-fetch, items(), values(), interleaved interval "
                    "reads; results kept and compared at the end) over files of 2..4 records mixing single-line and wrapped records"
                    "; + adjacent requests on one IndexedFasta: every 3-step history fetch [a,e) -> {nothing, whole contig of each record, "
                    "fetch through either interval path} -> fetch [e,b) x split points e x both interval paths x single/multi-interval "
                    "requests, and window walks (window 1,2,W,W+1) over the whole file with other reads in between, every step compared "
                    "with the file; + index building over files larger than one 5,000,000-byte read (%d layouts: long record whose first "
                    "read ends at / next to a line break, record boundary at / next to the end of a read%s)"
                    % (6 if tier == "quick" else 7, len(ROUTES), len(list(multi_chunk_layouts(tier))),
                       "" if tier == "quick" else ", widths 4/60/1000/single-line, record longer than two reads"))
    col.bounds = {"records": "1..3", "L": "1..%d" % (6 if tier == "quick" else 7), "W": [1, 2, 3, 4, 9],
                  "supplied_fai_variants": ["final newline", "no final newline"], "index_writing_routes": list(ROUTES),
                  "written_index_records": "1..4, names with '_' / descriptions", "history_records": "2..4, L in {1,W-1,W,W+1,2W,2W+1}",
                  "history_fetch_orders": "all permutations + re-fetch of the first, same contig twice",
                  "adjacent_history_files": "per W: records of length (2W+1, W, W+2)" + ("" if tier == "quick" else " and (W+1, 3W) at quick density"),
                  "adjacent_history_split_points": "all for L <= 9, else at/around the first two line breaks and the ends"
                                                   + (" (three-step histories: W in 1,2,3,9)" if tier == "quick" else ""),
                  "adjacent_history_middle_step": ["none", "getitem of each record", "plain / stringenc fetch of the same interval",
                                                   "plain / stringenc fetch elsewhere"],
                  "window_walk_windows": "1, 2, W, W+1",
                  "multi_chunk_layouts": [k + " (W=%d)" % w for k, w, _, _ in multi_chunk_layouts(tier)],
                  "reader_chunk_bytes": CHUNK}
    with TmpDir() as tmp:
        for records, W in cases(tier):
            for supplied in (False, True):
                check_case(col, tmp, records, W, supplied)
                if col.out_of_time():
                    break
        for records, W in cases(tier):
            check_supplied_variant(col, tmp, records, W, "no-final-newline")
            if col.out_of_time():
                break
        for records, W in written_index_cases(tier):
            for route in ROUTES:
                check_written_index(col, tmp, records, W, route)
            if col.out_of_time():
                break
        for records, W in history_cases(tier):
            check_history(col, tmp, records, W)
            if col.out_of_time():
                break
        for records, W, density, walks_only in adjacent_cases(tier):
            check_adjacent(col, tmp, records, W, density, walks_only=walks_only)
            if col.out_of_time():
                break
        for klass, W, layout, relation in multi_chunk_layouts(tier):
            check_multi_chunk(col, tmp, klass, W, layout, relation)
            if col.out_of_time():
                break
    return col.result()


def replay(case):
    col = Collector("C17", "quick", 0, "replay")
    records = [tuple(r) for r in case.get("records", ())]
    with TmpDir() as tmp:
        scenario = case.get("scenario")
        if scenario == "supplied-fai-variant":
            check_supplied_variant(col, tmp, records, case["width"], case["variant"])
        elif scenario == "written-index":
            check_written_index(col, tmp, records, case["width"], case["route"])
        elif scenario == "history":
            check_history(col, tmp, records, case["width"])
        elif scenario == "adjacent-history":
            check_adjacent(col, tmp, records, case["width"], "quick", only_history=[tuple(x) for x in case["history"]])
        elif scenario == "multi-chunk":
            check_multi_chunk(col, tmp, case["class"], case["width"], case["layout"], case.get("relation"))
        else:
            check_case(col, tmp, records, case["width"], case["supplied_index"], case.get("final_newline", True))
    if col.failures:
        return False, "; ".join(f["signature"] + ": " + f["message"] for f in col.failures)
    return True, "ok"
