"""C17 bounded stand-in: indexed FASTA random access vs Python string slicing.

Scope (exhaustive): FASTAs with 1..3 records, sequence length L = 1..7 (quick: 1..6), line width
W = 1..4 (+ a width larger than L), names with descriptions; every interval [a,b) 0 <= a < b <= L;
index created by the library and index supplied faidx-style (written by this file from the spec).
Contracts checked at run time on the real functions:
  create_index rows == faidx rows;  get_contig_lengths == true lengths;  f[name] == sequence;
  get_interval_sequences(intervals)[i] == seq[a:b]  (string-encoded 'fast' path and plain path).
"""
import itertools
import os

from .common import Collector, TmpDir, to_py

ALPH = "ACGT"


def make_fasta(records, width, final_newline=True):
    """records: list of (header, seq). returns (bytes, faidx rows)"""
    out = bytearray()
    rows = []
    for header, seq in records:
        out += b">" + header.encode() + b"\n"
        offset = len(out)
        lines = [seq[i:i + width] for i in range(0, len(seq), width)]
        out += ("\n".join(lines) + "\n").encode()
        rows.append((header.split()[0], len(seq), offset, min(width, len(seq)) if len(lines) == 1 else width,
                     (min(width, len(seq)) if len(lines) == 1 else width) + 1))
    if not final_newline:
        out = out[:-1]
    return bytes(out), rows


def seq_of(n, salt):
    return "".join(ALPH[(i * 7 + salt * 3 + (i * i) % 5) % 4] for i in range(n))


def check_case(col, tmp, records, width, supplied_index, final_newline=True):
    import numpy as np
    import bionumpy as bnp
    from bionumpy.io.indexed_fasta import IndexedFasta, create_index
    from bionumpy.datatypes import Interval
    data, rows = make_fasta(records, width, final_newline)
    case = {"records": records, "width": width, "supplied_index": supplied_index, "final_newline": final_newline}
    fa = os.path.join(tmp, "t%d.fa" % col.evaluations)
    open(fa, "wb").write(data)
    fai = fa + ".fai"
    if os.path.exists(fai):
        os.unlink(fai)
    tag = "supplied" if supplied_index else "built"
    if supplied_index:
        with open(fai, "w") as f:
            for r in rows:
                f.write("\t".join(str(x) for x in r) + "\n")
    else:
        idx = col.guarded(lambda: create_index(fa), "create_index", case)
        if idx is None:
            return
        # the record name is the first whitespace-delimited token of the header (faidx convention; the library's
        # own index reader applies the same normalisation), so names are compared after that normalisation
        got_rows = [(n.split()[0], int(l), int(s), int(c), int(b)) for n, l, s, c, b in
                    zip(to_py(idx.chromosome), idx.length, idx.start, idx.characters_per_line, idx.line_length)]
        # a single-line record's "bases per line" is its length in faidx too
        col.case({"k": "create_index", **case}, contract="create_index")
        col.check(got_rows == rows, "create_index:rows-differ-from-faidx", case, "got %r expected %r" % (got_rows, rows))
    f = col.guarded(lambda: bnp.open_indexed(fa), "open_indexed:" + tag, case)
    if f is None:
        return
    try:
        true_len = {h.split()[0]: len(s) for h, s in records}
        col.case({"k": "lengths", **case}, contract="get_contig_lengths")
        got = {k: int(v) for k, v in f.get_contig_lengths().items()}
        col.check(got == true_len, "get_contig_lengths:not-sequence-length", case, "got %r expected %r" % (got, true_len))
        for h, s in records:
            name = h.split()[0]
            col.case({"k": "whole", "name": name, **case}, contract="IndexedFasta.__getitem__")
            g = col.guarded(lambda: f[name].to_string(), "getitem:" + tag, case)
            if g is not None:
                col.check(g == s, "getitem:wrong-sequence:" + tag, case, "got %r expected %r" % (g, s))
        # all intervals
        ivs = [(h.split()[0], a, b) for h, s in records for a in range(len(s)) for b in range(a + 1, len(s) + 1)]
        expect = [dict((hh.split()[0], ss) for hh, ss in records)[n][a:b] for n, a, b in ivs]
        for path in ("plain", "stringenc", "stringenc-reordered-labels", "stringenc-label-subset"):
            use_ivs, use_expect = ivs, expect
            if path == "plain":
                intervals = Interval.from_entry_tuples(ivs)
            else:
                # chromosome column encoded with a StringEncoding whose label list is in file order / in another order /
                # a subset of the contigs (what Genome.from_file produces with sort_names or with ignored contigs)
                names = [h.split()[0] for h, _ in records]
                if path == "stringenc-reordered-labels":
                    names = names[::-1]
                    if len(names) < 2:
                        continue
                if path == "stringenc-label-subset":
                    if len(names) < 2:
                        continue
                    names = names[1:]
                    keep = [k for k, (n, _, _) in enumerate(ivs) if n in names]
                    use_ivs, use_expect = [ivs[k] for k in keep], [expect[k] for k in keep]
                    if not use_ivs:
                        continue
                enc = bnp.encodings.string_encodings.StringEncoding(names)
                intervals = Interval(bnp.encoded_array.EncodedArray(np.array([names.index(n) for n, _, _ in use_ivs]), enc),
                                     np.array([a for _, a, _ in use_ivs]), np.array([b for _, _, b in use_ivs]))
            col.case({"k": "intervals", "path": path, "n": len(use_ivs), **case}, contract="get_interval_sequences")
            at_end = (not final_newline)
            g = col.guarded(lambda: to_py(f.get_interval_sequences(intervals)),
                            "get_interval_sequences:%s:%s%s" % (path, tag, ":no-final-newline" if at_end else ""), case)
            if g is not None:
                bad = [(iv, x, e) for iv, x, e in zip(use_ivs, g, use_expect) if x != e]
                col.check(not bad, "get_interval_sequences:wrong-substring:%s:%s" % (path, tag), case, "first mismatches %r" % (bad[:3],))
    finally:
        f._f_obj.close()


def cases(tier):
    maxL = 6 if tier == "quick" else 7
    widths = [1, 2, 3, 4, 9]
    for W in widths:
        for L in range(1, maxL + 1):
            yield [("chr1", seq_of(L, 1))], W
    # several records of unequal length, names with descriptions, name prefix of another
    for W in widths:
        for (L1, L2, L3) in ([(1, W, W + 1), (2 * W, 1, 3), (W + 1, 2 * W + 1, 2)] if tier == "quick" else
                             itertools.product((1, W, W + 1, 2 * W), (1, 2, 2 * W + 1), (1, 3, W))):
            yield [("chr1 first record", seq_of(L1, 1)), ("chr10", seq_of(L2, 2)), ("c_alt descr x", seq_of(L3, 3))], W
        yield [("a", seq_of(W, 4)), ("b", seq_of(2 * W, 5))], W


def run(tier="quick", seed=0):
    col = Collector("C17", tier, seed,
                    "exhaustive: FASTA of 1..3 records x L=1..%d x W in {1,2,3,4,9} x {index built by the library, faidx-style index supplied} "
                    "x every interval [a,b); distinct = distinct (file, operation); non-trivial = every case (all exercise offset arithmetic)"
                    % (6 if tier == "quick" else 7))
    col.bounds = {"records": "1..3", "L": "1..%d" % (6 if tier == "quick" else 7), "W": [1, 2, 3, 4, 9]}
    with TmpDir() as tmp:
        for records, W in cases(tier):
            for supplied in (False, True):
                check_case(col, tmp, records, W, supplied)
                if col.out_of_time():
                    break
    return col.result()


def replay(case):
    col = Collector("C17", "quick", 0, "replay")
    with TmpDir() as tmp:
        check_case(col, tmp, [tuple(r) for r in case["records"]], case["width"], case["supplied_index"], case.get("final_newline", True))
    if col.failures:
        return False, "; ".join(f["signature"] + ": " + f["message"] for f in col.failures)
    return True, "ok"
