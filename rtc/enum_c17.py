"""C17 bounded stand-in: indexed FASTA random access vs Python string slicing.

Scope (exhaustive): FASTAs with 1..3 records, sequence length L = 1..7 (quick: 1..6), line width
W = 1..4 (+ a width larger than L), names with descriptions; every interval [a,b) 0 <= a < b <= L;
index created by the library and index supplied faidx-style (written by this file from the spec).
Contracts checked at run time on the real functions:
  create_index rows == faidx rows;  get_contig_lengths == true lengths;  f[name] == sequence;
  get_interval_sequences(intervals)[i] == seq[a:b]  (string-encoded 'fast' path and plain path).

Extensions (each with its own signatures):
  * supplied index as other tools / scripts write it: last row WITHOUT a trailing newline (same files as above);
  * the index WRITTEN next to the FASTA when it is missing, on every route that writes it (open_indexed,
    Genome.from_file with default filter / sort_names / custom filters, Genome.from_dict(...).read_sequence(fasta)):
    the written .fai is parsed by a spec-level parser and must list ALL records (names with '_' at any position,
    names with descriptions), and a FRESH open_indexed afterwards must serve lengths, whole contigs and every
    interval of every record; the Genome object's own view (chrom sizes, read_sequence() whole contigs and
    intervals of the contigs its filter keeps) is compared with the file as well;
  * operation histories on ONE IndexedFasta: whole-contig results are KEPT while further contigs are fetched
    (every fetch order of the records + a re-fetch, dict(items()), list(values()), interleaved interval reads)
    and compared with the file at the end, over files mixing single-line and wrapped records.
"""
import itertools
import os

from .common import Collector, TmpDir, to_py

ALPH = "ACGT"


def make_fasta(records, width, final_newline=True):
    """records: list of (header, seq). returns (bytes, faidx rows)"""
    out = bytearray()
    rows = []
    for header, seq in records:
        out += b">" + header.encode() + b"\n"
        offset = len(out)
        lines = [seq[i:i + width] for i in range(0, len(seq), width)]
        out += ("\n".join(lines) + "\n").encode()
        rows.append((header.split()[0], len(seq), offset, min(width, len(seq)) if len(lines) == 1 else width,
                     (min(width, len(seq)) if len(lines) == 1 else width) + 1))
    if not final_newline:
        out = out[:-1]
    return bytes(out), rows


def seq_of(n, salt):
    return "".join(ALPH[(i * 7 + salt * 3 + (i * i) % 5) % 4] for i in range(n))


def write_fai(fai, rows, final_newline=True):
    """faidx-style index written from the spec: 5 tab-separated columns per record, rows separated by a newline;
    the terminator of the LAST row is optional (hand-made / script-written indexes)"""
    text = "\n".join("\t".join(str(x) for x in r) for r in rows) + ("\n" if final_newline else "")
    with open(fai, "w") as f:
        f.write(text)


def parse_fai(text):
    """spec-level reader of a faidx file: rows are newline separated (final terminator optional), 5 tab-separated
    columns NAME LENGTH OFFSET LINEBASES LINEWIDTH; returns list of rows or None when the text is not of that shape.
    The record name is the first whitespace-delimited token (same normalisation as for create_index above)."""
    lines = text.split("\n")
    if lines and lines[-1] == "":
        lines = lines[:-1]
    rows = []
    for line in lines:
        cols = line.split("\t")
        if len(cols) != 5 or not cols[0].split():
            return None
        try:
            rows.append((cols[0].split()[0],) + tuple(int(c) for c in cols[1:]))
        except ValueError:
            return None
    return rows


def _access_checks(col, f, records, tag, case, final_newline=True):
    """lengths, whole contigs and every interval (4 ways of encoding the chromosome column) of an open IndexedFasta
    against the records the file was generated from.  tag 'built' / 'supplied' are the original scope (signatures
    unchanged); any other tag names an extension and is part of every signature."""
    import numpy as np
    import bionumpy as bnp
    from bionumpy.datatypes import Interval
    own = "" if tag in ("built", "supplied") else ":" + tag
    true_len = {h.split()[0]: len(s) for h, s in records}
    col.case({"k": "lengths", **case}, contract="get_contig_lengths")
    got = col.guarded(lambda: {k: int(v) for k, v in f.get_contig_lengths().items()}, "get_contig_lengths" + own, case) \
        if own else {k: int(v) for k, v in f.get_contig_lengths().items()}
    if got is not None:
        col.check(got == true_len, "get_contig_lengths:not-sequence-length" + own, case, "got %r expected %r" % (got, true_len))
    for h, s in records:
        name = h.split()[0]
        col.case({"k": "whole", "name": name, **case}, contract="IndexedFasta.__getitem__")
        g = col.guarded(lambda: f[name].to_string(), "getitem:" + tag, case)
        if g is not None:
            col.check(g == s, "getitem:wrong-sequence:" + tag, case, "got %r expected %r" % (g, s))
    # all intervals
    ivs = [(h.split()[0], a, b) for h, s in records for a in range(len(s)) for b in range(a + 1, len(s) + 1)]
    expect = [dict((hh.split()[0], ss) for hh, ss in records)[n][a:b] for n, a, b in ivs]
    for path in ("plain", "stringenc", "stringenc-reordered-labels", "stringenc-label-subset"):
        use_ivs, use_expect = ivs, expect
        if path == "plain":
            intervals = Interval.from_entry_tuples(ivs)
        else:
            # chromosome column encoded with a StringEncoding whose label list is in file order / in another order /
            # a subset of the contigs (what Genome.from_file produces with sort_names or with ignored contigs)
            names = [h.split()[0] for h, _ in records]
            if path == "stringenc-reordered-labels":
                names = names[::-1]
                if len(names) < 2:
                    continue
            if path == "stringenc-label-subset":
                if len(names) < 2:
                    continue
                names = names[1:]
                keep = [k for k, (n, _, _) in enumerate(ivs) if n in names]
                use_ivs, use_expect = [ivs[k] for k in keep], [expect[k] for k in keep]
                if not use_ivs:
                    continue
            enc = bnp.encodings.string_encodings.StringEncoding(names)
            intervals = Interval(bnp.encoded_array.EncodedArray(np.array([names.index(n) for n, _, _ in use_ivs]), enc),
                                 np.array([a for _, a, _ in use_ivs]), np.array([b for _, _, b in use_ivs]))
        col.case({"k": "intervals", "path": path, "n": len(use_ivs), **case}, contract="get_interval_sequences")
        at_end = (not final_newline)
        g = col.guarded(lambda: to_py(f.get_interval_sequences(intervals)),
                        "get_interval_sequences:%s:%s%s" % (path, tag, ":no-final-newline" if at_end else ""), case)
        if g is not None:
            bad = [(iv, x, e) for iv, x, e in zip(use_ivs, g, use_expect) if x != e]
            col.check(not bad, "get_interval_sequences:wrong-substring:%s:%s" % (path, tag), case, "first mismatches %r" % (bad[:3],))


def check_case(col, tmp, records, width, supplied_index, final_newline=True):
    import bionumpy as bnp
    from bionumpy.io.indexed_fasta import create_index
    data, rows = make_fasta(records, width, final_newline)
    case = {"records": records, "width": width, "supplied_index": supplied_index, "final_newline": final_newline}
    fa = os.path.join(tmp, "t%d.fa" % col.evaluations)
    open(fa, "wb").write(data)
    fai = fa + ".fai"
    if os.path.exists(fai):
        os.unlink(fai)
    tag = "supplied" if supplied_index else "built"
    if supplied_index:
        with open(fai, "w") as f:
            for r in rows:
                f.write("\t".join(str(x) for x in r) + "\n")
    else:
        idx = col.guarded(lambda: create_index(fa), "create_index", case)
        if idx is None:
            return
        # the record name is the first whitespace-delimited token of the header (faidx convention; the library's
        # own index reader applies the same normalisation), so names are compared after that normalisation
        got_rows = [(n.split()[0], int(l), int(s), int(c), int(b)) for n, l, s, c, b in
                    zip(to_py(idx.chromosome), idx.length, idx.start, idx.characters_per_line, idx.line_length)]
        # a single-line record's "bases per line" is its length in faidx too
        col.case({"k": "create_index", **case}, contract="create_index")
        col.check(got_rows == rows, "create_index:rows-differ-from-faidx", case, "got %r expected %r" % (got_rows, rows))
    f = col.guarded(lambda: bnp.open_indexed(fa), "open_indexed:" + tag, case)
    if f is None:
        return
    try:
        _access_checks(col, f, records, tag, case, final_newline)
    finally:
        f._f_obj.close()


# ----------------------------------------------------------------------------------------------------------------------
# extension 1: index supplied by another tool / a script - the terminator of the last row is optional
# ----------------------------------------------------------------------------------------------------------------------

def check_supplied_variant(col, tmp, records, width, variant="no-final-newline"):
    """same FASTA, same faidx rows, but the .fai text ends without a newline: it must be parsed to the same index"""
    import bionumpy as bnp
    data, rows = make_fasta(records, width)
    case = {"scenario": "supplied-fai-variant", "variant": variant, "records": records, "width": width}
    fa = os.path.join(tmp, "v%d.fa" % col.evaluations)
    open(fa, "wb").write(data)
    write_fai(fa + ".fai", rows, final_newline=(variant != "no-final-newline"))
    tag = "supplied-fai-" + variant
    f = col.guarded(lambda: bnp.open_indexed(fa), "open_indexed:" + tag, case)
    if f is None:
        return
    try:
        _access_checks(col, f, records, tag, case)
    finally:
        f._f_obj.close()


# ----------------------------------------------------------------------------------------------------------------------
# extension 2: the index written next to the FASTA when it is missing, on every route that writes it
# ----------------------------------------------------------------------------------------------------------------------

ROUTES = ("open_indexed", "Genome.from_file", "Genome.from_file:sort_names", "Genome.from_file:keep-all",
          "Genome.from_file:keep-first-only", "Genome.from_dict.read_sequence")


def check_written_index(col, tmp, records, width, route):
    """no .fai present -> `route` writes it.  The written file (read back with parse_fai) must have one faidx row per
    record of the FASTA - whatever contigs the Genome object itself keeps - and a fresh open_indexed must serve all of
    them.  The Genome's own view is checked for the contigs its filter keeps (default filter: names without '_')."""
    import bionumpy as bnp
    from bionumpy.datatypes import Interval
    data, rows = make_fasta(records, width)
    case = {"scenario": "written-index", "route": route, "records": records, "width": width}
    fa = os.path.join(tmp, "w%d.fa" % col.evaluations)
    open(fa, "wb").write(data)
    fai = fa + ".fai"
    if os.path.exists(fai):
        os.unlink(fai)
    names = [h.split()[0] for h, _ in records]
    truth = {h.split()[0]: s for h, s in records}
    sigroute = route.split(":")[0]
    described = any(len(h.split()) > 1 for h, _ in records)
    genome, gseq, kept = None, None, names
    col.case({"k": "write-route", **case}, contract="index written when missing")
    if route == "open_indexed":
        f0 = col.guarded(lambda: bnp.open_indexed(fa), "written-index:open_indexed", case)
        if f0 is not None:
            f0._f_obj.close()
    elif route == "Genome.from_dict.read_sequence":
        genome = col.guarded(lambda: bnp.Genome.from_dict({n: len(truth[n]) for n in names}), "written-index:Genome.from_dict", case)
        if genome is not None:
            gseq = col.guarded(lambda: genome.read_sequence(fa), "written-index:Genome.from_dict.read_sequence", case)
    else:
        kwargs = {}
        if route == "Genome.from_file:sort_names":
            kwargs = {"sort_names": True}
        if route == "Genome.from_file:keep-all":
            kwargs = {"filter_function": lambda n: True}
        if route == "Genome.from_file:keep-first-only":
            kwargs = {"filter_function": lambda n, first=names[0]: n == first}
            kept = names[:1]
        if route in ("Genome.from_file", "Genome.from_file:sort_names"):
            kept = [n for n in names if "_" not in n]          # documented default: ignore names with underscores
        # one signature for the whole region "FASTA headers carry a description" (see report), so that the rest of
        # the Genome routes stays meaningful
        genome = col.guarded(lambda: bnp.Genome.from_file(fa, **kwargs),
                             "Genome.from_file:fasta-header-with-description" if described else "written-index:Genome.from_file", case)
        if genome is not None:
            gseq = col.guarded(lambda: genome.read_sequence(), "Genome.read_sequence", case)
    try:
        # (a) the file that now sits next to the FASTA
        col.case({"k": "written-fai", **case}, contract="written .fai == faidx rows of every record")
        if not col.check(os.path.isfile(fai), "written-index:%s:no-fai-written" % sigroute, case, "no %s" % os.path.basename(fai)):
            return
        text = open(fai).read()
        got_rows = parse_fai(text)
        if col.check(got_rows is not None, "written-index:%s:fai-not-5-tab-separated-columns" % sigroute, case, "text %r" % text[:300]):
            col.check([r[0] for r in got_rows] == names, "written-index:%s:records-missing-or-reordered" % sigroute, case,
                      "names in the written .fai %r, records of the FASTA %r" % ([r[0] for r in got_rows], names))
            col.check(got_rows == rows or [r[0] for r in got_rows] != names, "written-index:%s:rows-differ-from-faidx" % sigroute, case,
                      "got %r expected %r" % (got_rows, rows))
        # (b) the Genome object's own view of the contigs it keeps
        if genome is not None:
            col.case({"k": "genome-sizes", **case}, contract="Genome chrom sizes == sequence lengths")
            sizes = col.guarded(lambda: {str(k): int(v) for k, v in genome.get_genome_context().chrom_sizes.items()},
                                "Genome.chrom_sizes", case)
            if sizes is not None:
                col.check(sizes == {n: len(truth[n]) for n in kept}, "Genome.from_file:chrom-sizes-not-sequence-lengths", case,
                          "got %r expected %r" % (sizes, {n: len(truth[n]) for n in kept}))
        if gseq is not None and kept:
            for n in kept:
                col.case({"k": "genome-whole", "name": n, **case}, contract="Genome.read_sequence whole contig")
                g = col.guarded(lambda: gseq.extract_chromsome(n).to_string().upper(), "Genome.read_sequence:extract_chromsome", case)
                if g is not None:
                    col.check(g == truth[n], "Genome.read_sequence:extract_chromsome:wrong-sequence", case, "%s: got %r expected %r" % (n, g, truth[n]))
            ivs = [(n, a, b) for n in kept for a in range(len(truth[n])) for b in range(a + 1, len(truth[n]) + 1)]
            col.case({"k": "genome-intervals", "n": len(ivs), **case}, contract="Genome.read_sequence intervals")
            g = col.guarded(lambda: [s.upper() for s in to_py(gseq[genome.get_intervals(Interval.from_entry_tuples(ivs))])],
                            "Genome.read_sequence:intervals", case)
            if g is not None:
                bad = [(iv, x) for iv, x in zip(ivs, g) if x != truth[iv[0]][iv[1]:iv[2]]]
                col.check(not bad and len(g) == len(ivs), "Genome.read_sequence:intervals:wrong-substring", case,
                          "%d results for %d intervals, first mismatches %r" % (len(g), len(ivs), bad[:3]))
    finally:
        if gseq is not None:
            try:
                gseq._fasta._f_obj.close()
            except Exception:
                pass
    # (c) later random access to the same file finds the index left behind by the route
    tag = "index-written-by-" + sigroute
    f = col.guarded(lambda: bnp.open_indexed(fa), "open_indexed:" + tag, case)
    if f is None:
        return
    try:
        _access_checks(col, f, records, tag, case)
    finally:
        f._f_obj.close()


# ----------------------------------------------------------------------------------------------------------------------
# extension 3: operation histories on one IndexedFasta - results handed out earlier stay what they were
# ----------------------------------------------------------------------------------------------------------------------

def fetch_orders(names):
    """every order of fetching all records once, each followed by a re-fetch of the first one (so that a 2-record
    file has 3 fetches), + the same contig twice in a row"""
    out = [list(p) + [p[0]] for p in itertools.permutations(names)]
    out += [[n, n] for n in names]
    return out


def check_history(col, tmp, records, width):
    import bionumpy as bnp
    from bionumpy.datatypes import Interval
    data, rows = make_fasta(records, width)
    case = {"scenario": "history", "records": records, "width": width}
    fa = os.path.join(tmp, "h%d.fa" % col.evaluations)
    open(fa, "wb").write(data)
    write_fai(fa + ".fai", rows)
    names = [h.split()[0] for h, _ in records]
    truth = {h.split()[0]: s for h, s in records}
    f = col.guarded(lambda: bnp.open_indexed(fa), "history:open_indexed", case)
    if f is None:
        return
    try:
        def keep_and_compare(fetch, what, descr):
            """fetch() -> list of (name, EncodedArray); all results are held, read immediately and again after every
            fetch of the history is done"""
            held = col.guarded(fetch, "history:%s" % what, case)
            if held is None:
                return
            wrong = [(n, v.to_string(), truth[n]) for n, v in held if v.to_string() != truth[n]]
            col.check(not wrong, "history:%s:kept-results-differ-from-file" % what, case,
                      "%s; (name, held value now, sequence in the file): %r" % (descr, wrong[:3]))

        for order in fetch_orders(names):
            col.case({"k": "history-getitem", "order": order, **case}, contract="whole-contig results independent of later reads")
            held, immediate_bad = [], []

            def fetch(order=order, held=held, immediate_bad=immediate_bad):
                for n in order:
                    v = f[n]
                    if v.to_string() != truth[n]:
                        immediate_bad.append(n)
                    held.append((n, v))
                return held
            r = col.guarded(fetch, "history:getitem", case)
            if r is None:
                continue
            if not col.check(not immediate_bad, "history:getitem:wrong-sequence-right-after-fetch", case, "order %r contigs %r" % (order, immediate_bad)):
                continue
            changed = [(n, v.to_string(), truth[n]) for n, v in held if v.to_string() != truth[n]]
            col.check(not changed, "history:getitem:earlier-result-changed-by-later-fetch", case,
                      "fetch order %r; (name, held value now, sequence in the file): %r" % (order, changed[:3]))
        # the dict-like views: all values are alive at the same time
        col.case({"k": "history-items", **case}, contract="dict(items()) == records")
        keep_and_compare(lambda: list(dict(f.items()).items()), "items", "dict(fasta.items())")
        got_keys = col.guarded(lambda: sorted(dict(f.items()).keys()), "history:items", case)
        if got_keys is not None:
            col.check(got_keys == sorted(names), "history:items:keys-are-not-the-records", case, "got %r expected %r" % (got_keys, sorted(names)))
        col.case({"k": "history-values", **case}, contract="list(values()) == records in keys() order")
        keep_and_compare(lambda: list(zip(list(f.keys()), list(f.values()))), "values", "zip(fasta.keys(), list(fasta.values()))")
        # interval results held across later whole-contig and interval reads, whole contigs held across interval reads
        ivs = [(n, a, b) for n in names for a in range(len(truth[n])) for b in range(a + 1, len(truth[n]) + 1)]
        expect = [truth[n][a:b] for n, a, b in ivs]
        col.case({"k": "history-interleaved", **case}, contract="results independent of later reads (intervals and whole contigs interleaved)")

        def interleaved():
            r1 = f.get_interval_sequences(Interval.from_entry_tuples(ivs))
            w1 = [(n, f[n]) for n in names]
            r2 = f.get_interval_sequences(Interval.from_entry_tuples(ivs[::-1]))
            w2 = [(n, f[n]) for n in names[::-1]]
            return r1, w1, r2, w2
        r = col.guarded(interleaved, "history:interleaved", case)
        if r is not None:
            r1, w1, r2, w2 = r
            col.check(to_py(r1) == expect and to_py(r2) == expect[::-1], "history:interleaved:interval-results-differ-from-file", case,
                      "get_interval_sequences result held across later reads: %r / %r expected %r" % (to_py(r1)[:4], to_py(r2)[:4], expect[:4]))
            wrong = [(n, v.to_string(), truth[n]) for n, v in w1 + w2 if v.to_string() != truth[n]]
            col.check(not wrong, "history:interleaved:whole-contig-results-differ-from-file", case, "(name, held, file) %r" % (wrong[:3],))
    finally:
        f._f_obj.close()


def cases(tier):
    maxL = 6 if tier == "quick" else 7
    widths = [1, 2, 3, 4, 9]
    for W in widths:
        for L in range(1, maxL + 1):
            yield [("chr1", seq_of(L, 1))], W
    # several records of unequal length, names with descriptions, name prefix of another
    for W in widths:
        for (L1, L2, L3) in ([(1, W, W + 1), (2 * W, 1, 3), (W + 1, 2 * W + 1, 2)] if tier == "quick" else
                             itertools.product((1, W, W + 1, 2 * W), (1, 2, 2 * W + 1), (1, 3, W))):
            yield [("chr1 first record", seq_of(L1, 1)), ("chr10", seq_of(L2, 2)), ("c_alt descr x", seq_of(L3, 3))], W
        yield [("a", seq_of(W, 4)), ("b", seq_of(2 * W, 5))], W


# record names for the written-index routes: '_' at the start / in the middle / at the end / several, UCSC style alt and
# unplaced scaffolds between ordinary names; first and last record with and without '_'; at least one name without '_'
# (a Genome that keeps no contig at all is not what this property is about)
NAME_SETS = (
    ("chr1", "chr1_KI270706v1_random", "chr2", "chrUn_GL000195v1"),
    ("_s", "t_", "chrM"),
    ("a_b", "c"),
    ("x", "y_1_2"),
    ("solo",),
)
DESCRIBED_SET = ("chr1 first record", "chr10", "c_alt descr x")


def written_index_cases(tier):
    widths = [1, 2, 3, 4, 9]
    for W in widths:
        pool = [1, W, W + 1, 2 * W, 2 * W + 1, 3]
        for k, names in enumerate(NAME_SETS):
            shifts = (0, 2) if tier == "quick" else range(len(pool))
            if tier == "quick" and (k + W) % 2:       # quick: half of the (name set, width) pairs
                shifts = (1,)
            for sh in shifts:
                yield [(n, seq_of(pool[(sh + i) % len(pool)], i + 1)) for i, n in enumerate(names)], W
        yield [(n, seq_of(pool[(W + i) % len(pool)], i + 1)) for i, n in enumerate(DESCRIBED_SET)], W


def history_cases(tier):
    """files mixing single-line records (L <= W) and wrapped records (L > W) in every arrangement"""
    widths = [1, 2, 3, 4, 9]
    names = ("chrA", "pB", "chrC", "sD")
    for W in widths:
        pool = sorted({1, max(1, W - 1), W, W + 1, 2 * W, 2 * W + 1})
        for Ls in itertools.product(pool, repeat=2):
            yield [(names[i], seq_of(L, i + 1)) for i, L in enumerate(Ls)], W
        triples = list(itertools.product(pool, repeat=3))
        if tier == "quick":
            triples = [t for t in triples if min(t) <= W < max(t)][::3]
        for Ls in triples:
            yield [(names[i], seq_of(L, i + 1)) for i, L in enumerate(Ls)], W
        quads = [(W + 1, 1, W, 2 * W + 1), (W, 2 * W, 1, W), (2 * W + 1, W, W + 1, 1), (1, 1, W, 2 * W)]
        if tier != "quick":
            quads += [q[::-1] for q in quads]
        for Ls in quads:
            yield [(names[i], seq_of(L, i + 1)) for i, L in enumerate(Ls)], W


def run(tier="quick", seed=0):
    col = Collector("C17", tier, seed,
                    "exhaustive: FASTA of 1..3 records x L=1..%d x W in {1,2,3,4,9} x {index built by the library, faidx-style index supplied} "
                    "x every interval [a,b); distinct = distinct (file, operation); non-trivial = every case (all exercise offset arithmetic)"
                    "; + the same files with a supplied .fai whose last row is unterminated; + index written when missing on %d routes "
                    "(open_indexed / Genome.from_file variants / Genome.read_sequence) x names with '_' and descriptions, then a fresh "
                    "open_indexed; + histories on one IndexedFasta (every fetch order + re-fetch, items(), values(), interleaved interval "
                    "reads; results kept and compared at the end) over files of 2..4 records mixing single-line and wrapped records"
                    % (6 if tier == "quick" else 7, len(ROUTES)))
    col.bounds = {"records": "1..3", "L": "1..%d" % (6 if tier == "quick" else 7), "W": [1, 2, 3, 4, 9],
                  "supplied_fai_variants": ["final newline", "no final newline"], "index_writing_routes": list(ROUTES),
                  "written_index_records": "1..4, names with '_' / descriptions", "history_records": "2..4, L in {1,W-1,W,W+1,2W,2W+1}",
                  "history_fetch_orders": "all permutations + re-fetch of the first, same contig twice"}
    with TmpDir() as tmp:
        for records, W in cases(tier):
            for supplied in (False, True):
                check_case(col, tmp, records, W, supplied)
                if col.out_of_time():
                    break
        for records, W in cases(tier):
            check_supplied_variant(col, tmp, records, W, "no-final-newline")
            if col.out_of_time():
                break
        for records, W in written_index_cases(tier):
            for route in ROUTES:
                check_written_index(col, tmp, records, W, route)
            if col.out_of_time():
                break
        for records, W in history_cases(tier):
            check_history(col, tmp, records, W)
            if col.out_of_time():
                break
    return col.result()


def replay(case):
    col = Collector("C17", "quick", 0, "replay")
    records = [tuple(r) for r in case["records"]]
    with TmpDir() as tmp:
        scenario = case.get("scenario")
        if scenario == "supplied-fai-variant":
            check_supplied_variant(col, tmp, records, case["width"], case["variant"])
        elif scenario == "written-index":
            check_written_index(col, tmp, records, case["width"], case["route"])
        elif scenario == "history":
            check_history(col, tmp, records, case["width"])
        else:
            check_case(col, tmp, records, case["width"], case["supplied_index"], case.get("final_newline", True))
    if col.failures:
        return False, "; ".join(f["signature"] + ": " + f["message"] for f in col.failures)
    return True, "ok"
